#!/bin/sh
# usage: verify_seed.sh <name> <dir-with-_seed>   : independently confirm a seeded change (demo PASS/FAIL + pinned suite) and store it under /verif/seeded/<name>
N=$1; SRC=$2/_seed
OUT=/verif/seeded/$N; mkdir -p $OUT
cp $SRC/patch.diff $SRC/demo.py $OUT/ ; [ -f $SRC/NOTES.md ] && cp $SRC/NOTES.md $OUT/
D=$(mktemp -d /tmp/vs-XXXXXX); trap 'rm -rf "$D"' EXIT
mkdir -p $D/clean $D/mut
git -C /repo archive HEAD | tar -x -C $D/clean
git -C /repo archive HEAD | tar -x -C $D/mut
(cd $D/mut && patch -s -p1 < $OUT/patch.diff) || { echo "PATCH-FAILED $N"; exit 1; }
mkdir -p $D/clean/_seed $D/mut/_seed; cp $OUT/demo.py $D/clean/_seed/; cp $OUT/demo.py $D/mut/_seed/
(cd $D/clean && PYTHONPATH=$D/clean JAX_PLATFORMS=cpu timeout 900 /venv/bin/python _seed/demo.py >$D/clean.log 2>&1); RC_CLEAN=$?
(cd $D/mut && PYTHONPATH=$D/mut JAX_PLATFORMS=cpu timeout 900 /venv/bin/python _seed/demo.py >$D/mut.log 2>&1); RC_MUT=$?
cd $D/mut && PYTHONPATH=$D/mut /venv/bin/python -m pytest -q -p no:cacheprovider --timeout=900 --continue-on-collection-errors -n ${SUITE_N:-8} --junitxml=$D/j.xml >$D/suite.log 2>&1
SUITE=$(python3 - $D/j.xml <<'PY'
import sys, json, xml.etree.ElementTree as ET
base = set(json.load(open('/root/.vp/BASELINE.json'))['stable_pass'])
passed = set()
for tc in ET.parse(sys.argv[1]).getroot().iter('testcase'):
    if not any(c.tag in ('failure','error','skipped') for c in tc):
        passed.add(f"{tc.get('classname')}::{tc.get('name')}")
print(f"baseline={len(base)} passed_now={len(passed)} baseline_missing={len(base-passed)}")
PY
)
echo "SEED $N demo_clean_rc=$RC_CLEAN demo_mut_rc=$RC_MUT suite: $SUITE"
echo "{\"name\": \"$N\", \"demo_on_unchanged_rc\": $RC_CLEAN, \"demo_on_changed_rc\": $RC_MUT, \"suite\": \"$SUITE\", \"demo_unchanged_tail\": $(tail -3 $D/clean.log | python3 -c 'import sys,json; print(json.dumps(sys.stdin.read()))'), \"demo_changed_tail\": $(tail -5 $D/mut.log | python3 -c 'import sys,json; print(json.dumps(sys.stdin.read()))')}" > $OUT/verify.json
