#!/bin/sh
# usage: with_patch.sh [-R] <patch.diff> -- <command...> : run command with PYVC_REPO pointing at a scratch copy of /repo with the patch applied
REV=""; [ "$1" = "-R" ] && { REV="-R"; shift; }
P=$(readlink -f "$1"); shift; [ "$1" = "--" ] && shift
D=$(mktemp -d /tmp/wp-XXXXXX); trap 'rm -rf "$D"' EXIT
rsync -a --exclude .git /repo/ "$D/"
(cd "$D" && patch -s -p1 $REV < "$P") || { echo "patch failed"; exit 9; }
mkdir -p "$D/_ev" "$D/_rp"; cd /verif && PYVC_EVIDENCE_DIR="$D/_ev" PYVC_REPLAY_DIR="$D/_rp" PYVC_REPO=$D PYTHONPATH=$D:/verif "$@"
