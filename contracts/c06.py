"""C06 — control flow (partial): arity decoding of scan, trip count of fori_loop, rejection guards (in c16)."""
from __future__ import annotations

import z3

from pyvc.vals import *  # noqa
from pyvc.core import *  # noqa
from pyvc.world import Contract, Ctx
from specs import opaque
from specs.opaque import OPQ

MJ = "jax2onnx._compat.jax"
MF = "jax2onnx.plugins.jax.lax.fori_loop"


def register(w):
    opaque.install(w)
    sel = z3.Select
    FT, GRP = "FtIn", "FtGroup"
    w.fields[(FT, "elts")] = Seq(Ref(GRP))
    glen = w.fn("group_len", ref_sort(GRP), z3.IntSort())
    w.len_hooks.append(lambda ex, v: VInt(glen(v.term)) if isinstance(v, VRef) and v.sort == GRP else None)
    gl = z3.Const("g!len", ref_sort(GRP))
    w.add_axiom(z3.ForAll([gl], glen(gl) >= 0, patterns=[glen(gl)]))

    ft = VRef(FT, z3.Const("scan_ft_in", ref_sort(FT)))
    nc_p, ny_p, nx_p = z3.Int("scan_num_consts"), z3.Int("scan_num_carry"), z3.Int("scan_num_xs")
    encodings = {
        "ft_in": VDict([(VStr("ft_in"), ft)]),
        "counts": VDict([(VStr("num_carry"), VInt(ny_p)), (VStr("num_consts"), VInt(nc_p))]),
        "counts_with_xs": VDict([(VStr("num_carry"), VInt(ny_p)), (VStr("num_consts"), VInt(nc_p)), (VStr("num_xs"), VInt(nx_p))]),
    }

    def post_for(enc):
        def post(c: Ctx):
            r = c.result
            nc, ny, nx = [x.term for x in r.items]
            total = c["total_invars"].term
            base = z3.And(nx >= 0, nc + ny + nx == total)
            if enc == "ft_in":
                e = c.ex.heap_arrays(FT, "elts")
                arr, n = sel(e[0], ft.term), sel(e[1], ft.term)
                return z3.And(base, n == 3, nc == glen(sel(arr, 0)), ny == glen(sel(arr, 1)), nx == glen(sel(arr, 2)))
            if enc == "counts":
                return z3.And(base, ny == ny_p, nc == nc_p, nx == total - ny_p - nc_p)
            return z3.And(base, ny == ny_p, nc == nc_p, nx == nx_p)
        return post

    for enc, params in encodings.items():
        # several contracts on one function (one per parameter encoding): registered under distinct ids
        w.add_contract(Contract(f"{MJ}:scan_arity", fid=f"{MJ}:scan_arity[{enc}]", params={"params": Const(params), "total_invars": Int},
                                requires=[("len", lambda c: sel(c.ex.heap_arrays(FT, "elts")[1], ft.term) >= 0)],
                                ensures=[(f"groups_partition_the_invars[{enc}]", post_for(enc))], raises={"ValueError"}, ret=Tup(Int, Int, Int), props=["C06", "C16"],
                                witnesses=["C06_scan_arity_family"]))

    # fori_loop: trip count handed to the primitive is max(upper - lower, 0) and the offset is `lower`
    def record_calls(ex, fn, a, k):
        if opaque.is_opaque(fn):
            ex.events.append(("opaque_call_kw", fn, list(a), dict(k)))
        return None
    w.call_ref_hooks.insert(0, record_calls)
    w.method_hooks.append(lambda ex, recv, name, args, kw: (recv,) if name == "item" and isinstance(recv, (VInt, VBool)) else None)

    def post_fori(c: Ctx):
        lo, up = c["lower"].term, c["upper"].term
        calls = [e for e in c.ex.events if e[0] == "opaque_call_kw" and "trip_count" in e[3]]
        if len(calls) != 1:
            return z3.BoolVal(False)
        kw = calls[0][3]
        tc, lw = kw["trip_count"], kw.get("lower")
        if not isinstance(tc, VInt) or not isinstance(lw, VInt):
            return z3.BoolVal(False)
        return z3.And(tc.term == z3.If(up - lo < 0, 0, up - lo), lw.term == lo)

    w.add_contract(Contract(
        f"{MF}:ForiLoopPlugin._fori_loop_binding", params={"cls": Ref(OPQ), "lower": Int, "upper": Int, "body_fun": Ref(OPQ), "init_val": Ref(OPQ)},
        ensures=[("primitive_receives_max_upper_minus_lower_0_and_the_offset", post_fori)], ret=Ref(OPQ), props=["C06"], opaque_externals=True,
        witnesses=["C06_fori_trip_counts"],
    ))

    # ---- bounded stand-in (never counted as proved): Loop/Scan body construction is not under contract
    def bounded_loops(world, c, out):
        import time
        from pyvc.run import run_witness
        t0 = time.time()
        holds, detail = run_witness("C06_loop_trip_family", timeout=900)
        d = {"oid": "jax2onnx.plugins.jax.lax:while_loop+scan+fori_loop#bounded:exported_loops_agree_with_jax_for_every_trip_count_of_the_family", "kind": "bounded",
             "status": "discharged" if holds else ("refuted" if holds is False else "unknown"), "backend": "enumerated", "time": time.time() - t0, "instances": 1, "trivial": 0,
             "bounded": "6 programs (scalar while_loop with 0/1/2/5 trips, vmapped while_loop with lanes stopping at different iterations and a non-monotone predicate, fori_loop with a captured array, scan of length 1 and 4 with stacked outputs, while_loop nested in fori_loop), 13 evaluations",
             "note": f"the construction of Loop/Scan bodies (while_loop.py, scan.py, fori_loop._build_body_graph) is not under contract; the real export is run on an enumerated family and compared with JAX; {detail}"[:500]}
        if holds is False:
            d.update(args={"witness": "C06_loop_trip_family"}, replay={"reproduced": True, "detail": detail}, formula="", model=detail)
        out["obls"].append(d)
        holds, detail = run_witness("C06_cond_sites_family", timeout=900)
        d = {"oid": "jax2onnx.plugins.jax.lax.cond:CondPlugin.lower#bounded:every_conditional_of_a_graph_computes_on_its_own_operands", "kind": "bounded",
             "status": "discharged" if holds else ("refuted" if holds is False else "unknown"), "backend": "enumerated", "time": time.time() - t0, "instances": 1, "trivial": 0,
             "bounded": "5 programs with two conditionals sharing their branch callables (independent sites, stacked, inside and after a loop body, two-branch switch, helper next to an inline lambda), all 4 predicate combinations x 4 operand pairs",
             "note": f"the construction of If branch graphs (cond.py) is not under contract; the real export is run on an enumerated family and compared with JAX; {detail}"[:500]}
        if holds is False:
            d.update(args={"witness": "C06_cond_sites_family"}, replay={"reproduced": True, "detail": detail}, formula="", model=detail)
        out["obls"].append(d)
        out["paths"], out["time"] = 1, time.time() - t0
        return out
    w.add_contract(Contract("jax2onnx.plugins.jax.lax:<bounded-loops>", kind="custom", custom=bounded_loops, props=["C06"], witnesses=["C06_loop_trip_family", "C06_cond_sites_family"]))
