"""Per-property orchestration: run contracts in a process pool, replay
counter-models on the real code, apply the verdict rules of DESIGN §2.5,
write evidence, print VIOLATION / KNOWN-FINDING lines."""
from __future__ import annotations

import importlib
import json
import multiprocessing as mp
import os
import subprocess
import sys
import time
import traceback

VERIF = os.path.dirname(os.path.dirname(os.path.abspath(__file__)))
EVID = os.environ.get("PYVC_EVIDENCE_DIR") or os.path.join(VERIF, "evidence")
REPLAYS = os.environ.get("PYVC_REPLAY_DIR") or os.path.join(VERIF, "replays")

SEMANTICS = [
    "S1 python ints are mathematical; // and % are floor division/modulo (divisor 0 forks to ZeroDivisionError)",
    "S2 and/or return operands; truthiness of None/int/bool/tuple/str/sequence as in CPython",
    "S3 left-to-right evaluation; an exception aborts the enclosing expression",
    "S4 try/finally, with, @contextmanager generators follow PEP 343",
    "S5 attribute reads of modelled heap objects are total functions of (object, field, heap)",
    "S6 str(i) for i>=0 is the decimal digit string; f-strings concatenate",
    "debug/logging calls and branches guarded only by module debug flags are no-ops",
    "ONNX int64 / numpy fixed-width arithmetic inside the exported model is treated as mathematical (A-int64)",
]

_WORLD = None
_MODS = None


def build_world(modules):
    global _WORLD, _MODS
    from specs.base import RepoWorld
    w = RepoWorld()
    for m in modules:
        importlib.import_module(m).register(w)
    _WORLD, _MODS = w, modules
    return w


TASK_DEADLINE_S = int(os.environ.get("PYVC_TASK_DEADLINE_S", "900"))


RELAXED = False


def _child(fid, conn):
    if RELAXED:
        # second chance for obligations left `unknown` under load: the same queries with three times the solver budgets
        from pyvc import verify as _v, core as _c
        _v.Z3_TIMEOUT_MS *= 3
        _v.CVC5_TIMEOUT_S *= 2
        _v.SLOW_BUDGET_S *= 3
        _c.FULL_FEAS_MS *= 2
    try:
        import faulthandler
        import signal
        faulthandler.register(signal.SIGUSR1, all_threads=False)      # kill -USR1 <pid> prints where a worker is
    except Exception:
        pass
    try:
        conn.send(_worker(fid))
    except Exception:
        conn.send({"fid": fid, "obls": [], "error": None, "crash": traceback.format_exc()[-3000:], "paths": 0, "time": 0.0, "assumptions": [], "sha": "", "kind": "?"})
    finally:
        conn.close()


def run_pool(fids, nproc):
    """One forked process per contract, at most nproc at a time, each under a hard
    wall-clock deadline.  z3's sequence solver occasionally ignores its own timeout
    (observed: one worker spinning for 30 min on a query that normally takes 10 s);
    a task that overruns is killed and started again (twice), and only then reported
    as undecided - never as a violation."""
    ctx = mp.get_context("fork")
    pending = [(fid, 0) for fid in fids]
    running = {}
    results = {}
    while pending or running:
        while pending and len(running) < nproc:
            fid, attempt = pending.pop(0)
            rd, wr = ctx.Pipe(duplex=False)
            p = ctx.Process(target=_child, args=(fid, wr), daemon=True)
            p.start()
            wr.close()
            running[fid] = (p, rd, time.time(), attempt)
        done = []
        for fid, (p, rd, t0, attempt) in running.items():
            if rd.poll(0):
                try:
                    results[fid] = rd.recv()
                except EOFError:
                    results[fid] = {"fid": fid, "obls": [], "error": None, "crash": f"worker died (exit code {p.exitcode})", "paths": 0, "time": 0.0, "assumptions": [], "sha": "", "kind": "?"}
                p.join(5)
                done.append(fid)
                if os.environ.get("PYVC_TIMING"):
                    sys.stderr.write(f"[timing] {fid} attempt {attempt} {time.time() - t0:.1f}s\n")
            elif not p.is_alive():
                p.join()
                if rd.poll(0.2):
                    try:
                        results[fid] = rd.recv()
                        done.append(fid)
                        continue
                    except EOFError:
                        pass
                results[fid] = {"fid": fid, "obls": [], "error": None, "crash": f"worker died (exit code {p.exitcode})", "paths": 0, "time": 0.0, "assumptions": [], "sha": "", "kind": "?"}
                done.append(fid)
            elif time.time() - t0 > TASK_DEADLINE_S:
                p.kill()
                p.join()
                done.append(fid)
                sys.stderr.write(f"[deadline] {fid} killed after {TASK_DEADLINE_S} s (attempt {attempt})\n")
                if attempt < 2:
                    pending.append((fid, attempt + 1))
                else:
                    results[fid] = {"fid": fid, "obls": [], "error": f"no verdict within {TASK_DEADLINE_S} s in three attempts (solver did not honour its timeout)", "crash": None, "paths": 0, "time": float(TASK_DEADLINE_S), "assumptions": [], "sha": "", "kind": "?"}
        for fid in done:
            running.pop(fid)[1].close()
        if not done:
            time.sleep(0.05)
    return [results[f] for f in fids]


def _worker(fid):
    import z3
    from pyvc import verify
    from pyvc.source import ToolError
    w = _WORLD
    c = w.contracts[fid]
    out = {"fid": fid, "obls": [], "error": None, "crash": None, "paths": 0, "time": 0.0, "assumptions": [], "sha": "", "kind": c.kind}
    try:
        if c.kind == "lemma":
            return _run_lemma(w, c, out)
        if c.kind == "custom":
            return c.custom(w, c, out)
        ex, res = verify.run_function(w, c)
        verify.vacuity_check(w, ex, res)
        verify.discharge(w, ex, res)
        out.update(error=res.error, crash=res.crash, paths=res.paths, time=res.time, assumptions=res.assumptions, sha=res.sha, exits=res.feasible_exits)
        for o in res.obls:
            d = {k: o[k] for k in ("oid", "kind", "status", "backend", "time", "instances", "trivial", "note")}
            mi = o.get("model_info")
            if o["status"] == "refuted":
                d["args"], d["replay"] = None, None
                d["weakened"] = bool(mi and mi.get("weakened"))
                try:
                    if mi and mi.get("model") is not None:
                        params = mi["obl"].meta.get("params") or {}
                        d["args"] = {k: verify.concretize(v, mi["model"]) for k, v in params.items()}
                        d["model"] = str(mi["model"])[:2000]
                        if c.replay is not None:
                            rep, detail = c.replay(mi["model"], d["args"])
                            d["replay"] = {"reproduced": bool(rep), "detail": detail}
                except Exception:
                    d["replay"] = {"reproduced": False, "detail": "replay crashed: " + traceback.format_exc()[-500:]}
                d["formula"] = str(mi["obl"].formula)[:1500] if mi else ""
            out["obls"].append(d)
    except ToolError as e:
        out["crash"] = f"tool error: {e}"
    except Exception:
        out["crash"] = traceback.format_exc()[-3000:]
    return out


def _run_lemma(w, c, out):
    import z3
    from pyvc import verify
    t0 = time.time()
    for nm, thunk in c.ensures:
        goal = thunk(w)
        extra = []
        if isinstance(goal, tuple):
            extra, goal = goal
        r, s = verify._check_z3(w.axioms() + list(extra), [], goal, min(verify.Z3_TIMEOUT_MS, 5000))
        status, backend, note = "discharged", "z3", ""
        if r == z3.sat:
            status, note = "refuted", str(s.model())[:800]
        elif r != z3.unsat:
            # cheap counterexample search: specialise the integer constants of the goal to small values
            # (a model of a specialisation is a model of the goal)
            found = None
            ints = _int_consts(goal)
            ground = [a for a in w.axioms() if not z3.is_quantifier(a)]
            rs, ss = verify._check_z3(ground + list(extra), [], goal, 3000)
            if rs == z3.sat:
                found = ss.model()
            if found is None and 0 < len(ints) <= 3:
                import itertools
                for vals in itertools.product((2, 1, 0), repeat=len(ints)):
                    rs, ss = verify._check_z3(ground + list(extra) + [c == v for c, v in zip(ints, vals)], [], goal, 2000)
                    if rs == z3.sat:
                        found = ss.model()
                        break
            if found is not None:
                status, note = "refuted", str(found)[:800]
            else:
                r2 = verify._check_cvc5(s, verify.CVC5_TIMEOUT_S)
                if r2 == "unsat":
                    backend = "cvc5"
                elif r2 == "sat":
                    status, backend = "refuted", "cvc5"
                else:
                    status, note = "unknown", f"z3: {s.reason_unknown()}; cvc5: {r2}"
        d = {"oid": f"{c.fid}#lemma:{nm}", "kind": "lemma", "status": status, "backend": backend, "time": time.time() - t0, "instances": 1, "trivial": 0, "note": note}
        if status == "refuted":
            d["args"], d["replay"], d["formula"] = None, None, str(goal)[:1500]
        out["obls"].append(d)
    out["time"] = time.time() - t0
    return out


def _int_consts(f):
    import z3
    seen, out, stack = set(), [], [f]
    while stack:
        t = stack.pop()
        if t.get_id() in seen:
            continue
        seen.add(t.get_id())
        if z3.is_const(t) and t.decl().kind() == z3.Z3_OP_UNINTERPRETED and t.sort() == z3.IntSort():
            out.append(t)
        elif z3.is_app(t):
            stack.extend(t.children())
        elif z3.is_quantifier(t):
            stack.append(t.body())
    return out


_WITNESS_CACHE: dict = {}


def run_witness(name: str, timeout=300):
    """run one end-to-end witness in its own process; returns (holds|None, detail); memoised per check run"""
    if name not in _WITNESS_CACHE:
        _WITNESS_CACHE[name] = _run_witness(name, timeout)
    return _WITNESS_CACHE[name]


def _run_witness(name: str, timeout=300):
    env = dict(os.environ)
    repo = os.environ.get("PYVC_REPO", "/repo")
    env["PYTHONPATH"] = repo + os.pathsep + VERIF + os.pathsep + env.get("PYTHONPATH", "")
    env["JAX_PLATFORMS"] = "cpu"
    try:
        p = subprocess.run([sys.executable, os.path.join(VERIF, "witnesses", "e2e.py"), name], capture_output=True, text=True, timeout=timeout, env=env, cwd=VERIF)
    except subprocess.TimeoutExpired:
        return None, "witness timed out"
    for line in p.stdout.splitlines():
        if line.startswith(name + ":"):
            body = line[len(name) + 1:].strip()
            if body.startswith("HOLDS"):
                return True, body
            if body.startswith("FAILS"):
                return False, body
            return None, body
    return None, (p.stderr or p.stdout)[-400:]


def thorough_extra(pid, w, fids):
    """Thorough tier, on top of the proof obligations (never counted as obligations):
    (1) conformance: every witness family attached to a contract of this property is run on the real code (concrete
        graphs / programs / histories through the real functions, compared with onnxruntime / eager JAX); a failing
        family is a violation with the failing input as replay;
    (2) mutation self-test of the verifier: each edit of contracts/MUTATIONS.json for this property is applied to a
        scratch copy of the repository and the quick check must report a VIOLATION there (a mutation that goes
        unnoticed means the obligations are too weak or vacuous: reported as a checker error, not as a property violation)."""
    import re
    import shutil
    import tempfile
    rep = {"conformance": [], "mutation_self_test": [], "violations": []}
    names = []
    for fid in fids:
        for wn in w.contracts[fid].witnesses:
            if wn not in names:
                names.append(wn)
    known_witnesses = {k.get("witness") for k in load_json(os.path.join(VERIF, "known_findings.json"), {"findings": []})["findings"]
                       if k.get("property") == pid and k.get("status", "open") == "open" and k.get("witness")}
    for wn in names:
        holds, detail = run_witness(wn, timeout=1800)
        if holds is False and wn in known_witnesses:
            # the single-input witness of a finding listed in known_findings.json: already reported as KNOWN-FINDING by the obligation it belongs to
            rep["conformance"].append({"witness": wn, "result": "fails (listed known finding)", "detail": str(detail)[:300]})
            continue
        rep["conformance"].append({"witness": wn, "result": "holds" if holds else ("fails" if holds is False else "not decided"), "detail": str(detail)[:300]})
        if holds is False:
            os.makedirs(os.path.join(REPLAYS, pid), exist_ok=True)
            path = os.path.join(REPLAYS, pid, f"conformance__{wn}.json")
            with open(path, "w") as f:
                json.dump({"property": pid, "obligation": f"conformance:{wn}", "witness": {"name": wn, "detail": detail, "rerun": f".venv/bin/python witnesses/e2e.py {wn}"}, "rerun": f"./check replay {path}"}, f, indent=1, default=str)
            rep["violations"].append({"replay_file": path, "oid": f"conformance:{wn}"})
    # (1b) demonstrations written by independent sub-agents for the seeded changes of this property: each passes on the
    #      tree it was written for without its change; run here on the current tree they are a broad conformance suite
    import glob
    rep["independent_demos"] = []
    repo = os.environ.get("PYVC_REPO", "/repo")
    for mp in sorted(glob.glob(os.path.join(VERIF, "seeded", "agent*", "meta.json"))):
        try:
            meta = json.load(open(mp))
        except Exception:
            continue
        demo = os.path.join(os.path.dirname(mp), "demo.py")
        if pid not in str(meta.get("breaks_property", "")) or not os.path.isfile(demo):
            continue
        env = dict(os.environ, PYTHONPATH=repo + os.pathsep + VERIF, JAX_PLATFORMS="cpu")
        try:
            p_ = subprocess.run(["/venv/bin/python", demo], capture_output=True, text=True, timeout=1500, env=env, cwd=repo)
            res, tail = ("passes" if p_.returncode == 0 else f"FAILS (exit {p_.returncode})"), (p_.stdout + p_.stderr)[-300:]
        except subprocess.TimeoutExpired:
            res, tail = "not decided (timeout)", ""
        rep["independent_demos"].append({"demo": os.path.relpath(demo, VERIF), "result": res, "tail": tail if res != "passes" else ""})
        if res.startswith("FAILS"):
            os.makedirs(os.path.join(REPLAYS, pid), exist_ok=True)
            path = os.path.join(REPLAYS, pid, "demo__" + os.path.basename(os.path.dirname(mp)) + ".json")
            with open(path, "w") as f:
                json.dump({"property": pid, "obligation": f"independent-demo:{os.path.relpath(demo, VERIF)}", "output_tail": tail, "rerun": f"cd {repo} && PYTHONPATH={repo} /venv/bin/python {demo}"}, f, indent=1)
            rep["violations"].append({"replay_file": path, "oid": f"independent-demo:{os.path.basename(os.path.dirname(mp))}"})
    if os.environ.get("PYVC_REPO"):
        return rep      # already running on a scratch copy: no nested self-test
    muts = [m for m in load_json(os.path.join(VERIF, "contracts", "MUTATIONS.json"), {"mutations": []})["mutations"] if pid in m["properties"]]
    for m in muts:
        d = tempfile.mkdtemp(prefix="verif-scratch-")
        try:
            subprocess.run(["rsync", "-a", "--exclude", ".git", "/repo/", d + "/"], check=True)
            fp = os.path.join(d, m["file"])
            src = open(fp).read()
            if len(re.findall(m["pattern"], src)) != 1:
                rep["mutation_self_test"].append({"name": m["name"], "result": "not applicable: the pattern no longer matches exactly once"})
                continue
            open(fp, "w").write(re.sub(m["pattern"], m["replacement"], src, count=1))
            env = dict(os.environ, PYVC_REPO=d, PYVC_EVIDENCE_DIR=os.path.join(d, "_ev"), PYVC_REPLAY_DIR=os.path.join(d, "_rp"), PYTHONPATH=d + os.pathsep + VERIF, VERIF_TIER="quick")
            p = subprocess.run([sys.executable, "-m", "pyvc.cli", pid, "--tier", "quick"], capture_output=True, text=True, env=env, cwd=VERIF, timeout=3600)
            hit = [ln for ln in p.stdout.splitlines() if ln.startswith("VIOLATION")]
            expect = m.get("expect", "")
            ok = p.returncode == 1 and any(expect in ln for ln in hit)
            rep["mutation_self_test"].append({"name": m["name"], "result": "detected" if ok else f"NOT detected (exit {p.returncode})", "reported": [re.sub(r"replay=\S*/", "replay=.../", ln)[:220] for ln in hit[:3]]})
        except Exception as e:
            rep["mutation_self_test"].append({"name": m["name"], "result": f"error: {type(e).__name__}: {e}"[:200]})
        finally:
            shutil.rmtree(d, ignore_errors=True)
    bad = [r for r in rep["mutation_self_test"] if r["result"].startswith("NOT")]
    if bad:
        raise RuntimeError("mutation self-test: not detected: " + ", ".join(r["name"] for r in bad))
    return rep


def load_json(path, default):
    try:
        with open(path) as f:
            return json.load(f)
    except FileNotFoundError:
        return default


def check_property(pid: str, spec: dict, tier: str, seed: int) -> int:
    """spec: modules, unverified_part, extra(thunk for thorough), technique…"""
    t0 = time.time()
    os.makedirs(EVID, exist_ok=True)
    w = build_world(spec["modules"])
    fids = [fid for fid, c in w.contracts.items() if pid in c.props and (c.verify or c.kind in ("lemma", "custom"))]
    if not fids:
        print(f"TOOL-ERROR property={pid}: no contracts registered")
        return 3
    nproc = min(int(os.environ.get("PYVC_PROCS", "12")), len(fids))
    # longest first (times of the previous run, when there is one): the heavy functions should not start last
    prev = {r_["function"]: r_.get("time_s", 0) for r_ in (load_json(os.path.join(EVID, f"{pid}.json"), {}).get("coverage", {}).get("functions_under_contract", []))}
    fids.sort(key=lambda f: -prev.get(f, 1e9 if "_ir" in f else 0))
    results = run_pool(fids, nproc)
    # `unknown` is never a verdict; under load a query that normally takes milliseconds can run out of its budget. Functions with
    # an open obligation (or no verdict at all) get one more run, alone on the machine, with larger budgets, before anything is reported.
    again = [r_["fid"] for r_ in results if (not r_.get("crash")) and (any(o_["status"] == "unknown" or (o_["status"] == "refuted" and o_.get("weakened")) for o_ in r_["obls"]) or (r_.get("error") and "no verdict within" in str(r_["error"])))]
    if again:
        global RELAXED
        RELAXED = True
        try:
            second = {r_["fid"]: r_ for r_ in run_pool(again, min(3, len(again)))}
        finally:
            RELAXED = False
        results = [second.get(r_["fid"], r_) if r_["fid"] in second and not second[r_["fid"]].get("crash") else r_ for r_ in results]
        sys.stderr.write(f"[second chance] re-ran {len(again)} function(s) with larger solver budgets: {again}\n")

    ledger = load_json(os.path.join(VERIF, "contracts", "LEDGER.json"), {}).get(pid, {})
    known = [k for k in load_json(os.path.join(VERIF, "known_findings.json"), {"findings": []})["findings"] if k.get("property") == pid and k.get("status", "open") == "open"]

    violations, undecided, crashes, known_lines = [], [], [], []
    n_obl = n_dis = n_known = 0
    by_backend = {"z3": 0, "cvc5": 0, "enumerated": 0}
    solver_time = 0.0
    samples, fn_rows, assumptions = [], [], set(SEMANTICS)
    bounded = []
    seen_oids = set()
    for r in results:
        fn_rows.append({"function": r["fid"], "paths": r.get("paths", 0), "obligations": len(r["obls"]), "source_sha1": r.get("sha", ""), "time_s": round(r.get("time", 0.0), 3), "status": "crash" if r["crash"] else ("undecided" if r["error"] else "checked")})
        assumptions.update(r.get("assumptions", []))
        if r["crash"]:
            crashes.append((r["fid"], r["crash"]))
        if r["error"]:
            undecided.append((r["fid"], r["error"]))
        for o in r["obls"]:
            seen_oids.add(o["oid"])
            solver_time += o["time"]
            if o.get("bounded"):
                bounded.append({"obligation": o["oid"], "bound": o["bounded"], "status": o["status"]})
                if o["status"] != "refuted":
                    continue
            kf = _match_known(known, o)
            if o["status"] == "discharged":
                n_obl += 1
                n_dis += 1
                by_backend[o["backend"] if o["backend"] in by_backend else "z3"] += 1
                if len(samples) < 6 and o["kind"] in ("post", "lemma", "txn"):
                    samples.append({"obligation": o["oid"], "kind": o["kind"], "status": "discharged", "backend": o["backend"], "path_instances": o["instances"]})
            elif o["status"] == "refuted":
                verdict = _judge_refuted(pid, w, r, o, ledger, kf)
                if verdict[0] == "known":
                    n_known += 1
                    known_lines.append(verdict[1])
                elif verdict[0] == "violation":
                    n_obl += 1
                    violations.append(verdict[1])
                else:
                    n_obl += 1
                    undecided.append((o["oid"], verdict[1]))
            else:
                n_obl += 1
                # no verdict from the solvers.  If the obligation discharged on the verified tree, its witness family (concrete
                # inputs run on the real code) may still decide: a failing witness is a real failing input
                hit = None
                if ledger.get(o["oid"]) == "discharged" and len(violations) + len(undecided) < 6:
                    for wn in w.contracts[r["fid"]].witnesses:
                        holds, detail = run_witness(wn)
                        if holds is False:
                            hit = (wn, detail)
                            break
                if hit is not None:
                    os.makedirs(os.path.join(REPLAYS, pid), exist_ok=True)
                    safe = o["oid"].replace("/", "_").replace(":", "_").replace("#", "__")[-150:]
                    path = os.path.join(REPLAYS, pid, safe + ".json")
                    with open(path, "w") as f:
                        json.dump({"property": pid, "obligation": o["oid"], "function": r["fid"], "solver_output": o["note"], "note": "the obligation was discharged on the verified tree and is now left open by both solvers; its witness family fails on the real code",
                                   "witness": {"name": hit[0], "detail": hit[1], "rerun": f".venv/bin/python witnesses/e2e.py {hit[0]}"}, "rerun": f"./check replay {path}"}, f, indent=1, default=str)
                    violations.append({"replay_file": path, "oid": o["oid"]})
                else:
                    undecided.append((o["oid"], o["note"]))
    # ledger: obligations that were discharged on the verified tree must still be generated
    missing = [oid for oid, st in ledger.items() if st == "discharged" and oid not in seen_oids and "#pre@" not in oid and not any(oid.startswith(u[0]) for u in undecided) and not any(oid.startswith(c[0]) for c in crashes)]
    # extra (thorough-tier conformance, bounded stand-ins)
    extra_report = None
    if tier == "thorough" and spec.get("extra") is None:
        spec = dict(spec, extra=lambda t, sd, ww: thorough_extra(pid, ww, fids))
    if spec.get("extra") is not None:
        try:
            extra_report = spec["extra"](tier, seed, w)
            for v in (extra_report or {}).get("violations", []):
                violations.append(v)
        except Exception:
            crashes.append(("extra", traceback.format_exc()[-1500:]))

    # a function under contract that can no longer be analysed at all (its target vanished or changed kind, the executor
    # crashed on it) is a checker error, not a verdict - unless a witness family of that contract, run on the real code, fails:
    # that is a real failing input of a function whose obligations were discharged on the verified tree
    fn_level_undecided = [(fid_, why_) for fid_, why_ in undecided if fid_ in w.contracts]
    for fid, why in list(crashes) + fn_level_undecided:
        c = w.contracts.get(fid)
        if c is None or not any(oid.startswith(fid) and st == "discharged" for oid, st in ledger.items()):
            continue
        for wn in c.witnesses:
            holds, detail = run_witness(wn)
            if holds is False:
                os.makedirs(os.path.join(REPLAYS, pid), exist_ok=True)
                safe = fid.replace("/", "_").replace(":", "_")[-120:]
                path = os.path.join(REPLAYS, pid, safe + "__not_analysable.json")
                with open(path, "w") as f:
                    json.dump({"property": pid, "obligation": f"{fid}#(all obligations of this function)", "function": fid, "note": "the function could not be analysed any more (" + str(why).strip().splitlines()[-1][:200] + "); its witness family fails on the real code",
                               "witness": {"name": wn, "detail": detail, "rerun": f".venv/bin/python witnesses/e2e.py {wn}"}, "rerun": f"./check replay {path}"}, f, indent=1, default=str)
                violations.append({"replay_file": path, "oid": fid})
                break
    for line in known_lines:
        print(line)
    rc = 0
    for v in violations:
        rc = 1
        print(f"VIOLATION property={pid} replay={v['replay_file']}" + (" no-failing-input-found" if v.get("no_input") else ""))
    if rc == 0 and crashes:
        rc = 3
        for fid, c in crashes:
            print(f"TOOL-ERROR property={pid} at {fid}: {c.strip().splitlines()[-1] if c.strip() else c}")
            sys.stderr.write(c + "\n")
    if rc == 0 and missing:
        rc = 3
        for oid in missing[:10]:
            print(f"TOOL-ERROR property={pid}: ledger obligation no longer generated: {oid}")
    if rc == 0 and undecided:
        rc = 2
        for oid, why in undecided:
            print(f"UNDECIDED property={pid} obligation={oid} ({why})")
    if n_obl == 0 and rc == 0:
        rc = 3
        print(f"TOOL-ERROR property={pid}: zero obligations generated")

    ev = {
        "property_id": pid, "tier": tier, "seed": seed, "level": "proof",
        "coverage": {
            "obligations": n_obl, "discharged": n_dis,
            "checker_cmd": f"./check {pid} --tier {tier}",
            "trusted_base": list(w.trusted),
            "functions_under_contract": fn_rows,
            "by_backend": by_backend, "solver_time_s": round(solver_time, 3),
            "samples": samples or [{"note": "no discharged post/lemma obligation in this run"}],
            "bounded": bounded,
            "known_findings_reconfirmed": n_known,
            "undecided": [{"obligation": a, "reason": b} for a, b in undecided],
            "unverified_part": spec.get("unverified_part", ""),
            "explanation": "obligations = proof obligations generated from the current /repo working tree for this property (known findings listed in known_findings.json are re-derived and counted separately in known_findings_reconfirmed; bounded stand-ins are listed under `bounded` and never counted)",
            "extra": extra_report,
        },
        "assumptions": sorted(assumptions),
        "wall_s": round(time.time() - t0, 3),
        "violations": len(violations),
    }
    with open(os.path.join(EVID, f"{pid}.json"), "w") as f:
        json.dump(ev, f, indent=1, default=str)
    print(f"{pid}: obligations={n_obl} discharged={n_dis} known_findings={n_known} violations={len(violations)} undecided={len(undecided)} wall={ev['wall_s']}s exit={rc}")
    return rc


def _match_known(known, o):
    for k in known:
        if k.get("obligation") == o["oid"]:
            sig = k.get("witness_signature")
            if sig is None:
                return k
            if isinstance(o.get("args"), dict) and "difference" in o["args"]:
                if o["args"]["difference"] == sig:
                    return k
                continue
            rep = (o.get("replay") or {})
            if sig in json.dumps(o.get("args"), default=str) or sig in str(rep.get("detail", "")):
                return k
    return None


def _judge_refuted(pid, w, r, o, ledger, kf):
    c = w.contracts[r["fid"]]
    rep = o.get("replay")
    os.makedirs(os.path.join(REPLAYS, pid), exist_ok=True)
    safe = o["oid"].replace("/", "_").replace(":", "_").replace("#", "__")[-150:]
    path = os.path.join(REPLAYS, pid, safe + ".json")
    body = {"property": pid, "obligation": o["oid"], "function": r["fid"], "solver_model": o.get("model"), "args": o.get("args"), "formula": o.get("formula"), "note": o.get("note"), "replay": rep, "rerun": f"./check replay {path}"}
    reproduced = bool(rep and rep.get("reproduced"))
    witness_hit = None
    if not reproduced:
        names = ([kf["witness"]] if kf is not None and kf.get("witness") else []) + [x for x in c.witnesses]
        for wn in names:
            holds, detail = run_witness(wn)
            if holds is False:
                witness_hit = (wn, detail)
                break
    if kf is not None and (reproduced or witness_hit or kf.get("accept_unreplayed")):
        return ("known", f"KNOWN-FINDING: property={pid} {kf.get('text', o['oid'])}")
    if reproduced or witness_hit:
        if witness_hit:
            body["witness"] = {"name": witness_hit[0], "detail": witness_hit[1], "rerun": f".venv/bin/python witnesses/e2e.py {witness_hit[0]}"}
        with open(path, "w") as f:
            json.dump(body, f, indent=1, default=str)
        return ("violation", {"replay_file": path, "oid": o["oid"]})
    if o.get("weakened"):
        return ("undecided", "only a candidate counter-model of weakened hypotheses was found and it did not reproduce on the real code")
    if ledger.get(o["oid"]) == "discharged":
        body["no_failing_input_found"] = True
        body["solver_output"] = o.get("model") or o.get("note")
        with open(path, "w") as f:
            json.dump(body, f, indent=1, default=str)
        return ("violation", {"replay_file": path, "oid": o["oid"], "no_input": True})
    return ("undecided", f"refuted but not reproduced on the real code and not in the ledger: {(rep or {}).get('detail', '')}"[:300])


def write_ledger(pids, specs):
    """explicit maintenance command: record the statuses on the verified tree"""
    path = os.path.join(VERIF, "contracts", "LEDGER.json")
    led = load_json(path, {})
    for pid in pids:
        w = build_world(specs[pid]["modules"])
        fids = [fid for fid, c in w.contracts.items() if pid in c.props and (c.verify or c.kind in ("lemma", "custom"))]
        results = run_pool(fids, min(12, len(fids)))
        led[pid] = {o["oid"]: o["status"] for r in results for o in r["obls"] if not o.get("bounded")}
    with open(path, "w") as f:
        json.dump(led, f, indent=1, sort_keys=True)
    print("ledger written:", {k: len(v) for k, v in led.items()})
