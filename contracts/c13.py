"""C13 — conversion leaves the host process as it found it.

Contracts, for normal AND every exceptional exit, on the restoring context
managers.  The proof is pointwise: k0 is an arbitrary fixed key (object,
attribute); `Hk[j]` is ghost history: the own-dictionary entry of k0 before
acquire step j.
"""
from __future__ import annotations

import z3

from pyvc.vals import *  # noqa
from pyvc.core import *  # noqa
from pyvc.world import Contract, Ctx
from pyvc.stmts import LoopSpec
from specs.pyheap import PyHeap, OBJ, VAL, SPEC, FN

MP = "jax2onnx.plugins._patching"
MS = "jax2onnx.plugins.plugin_system"
MC = "jax2onnx.converter.conversion_api"
MU = "jax2onnx.user_interface"

APPLIED = Seq(Tup(Ref(OBJ), Str, Ref(VAL), Bool))


def register(w):
    H = PyHeap(w)
    w.pyheap = H
    w.fields[(SPEC, "target")] = Dyn("str", "ref:" + OBJ)
    w.fields[(SPEC, "attr")] = Str
    w.fields[(SPEC, "value")] = Ref(VAL)
    w.fields[(SPEC, "make_value")] = Ref(FN)
    w.fields[(SPEC, "delete_if_missing")] = Bool
    w.ref_classes[SPEC] = {f"{MP}.AssignSpec", f"{MP}.MonkeyPatchSpec"}
    is_assign = w.fn("is_assign_spec", ref_sort(SPEC), z3.BoolSort())
    refused = w.fn("setattr_refused", H.Key, z3.BoolSort())
    w.global_overrides[(MP, "_MISSING")] = VRef(VAL, H.MISSING)

    # -- hooks ---------------------------------------------------------------
    def isinstance_hook(ex, v, nm):
        if isinstance(v, VRef) and v.sort == SPEC and nm.endswith("AssignSpec"):
            return is_assign(v.term)
        if isinstance(v, VRef) and v.sort == SPEC and nm.endswith("MonkeyPatchSpec"):
            return z3.Not(is_assign(v.term))
        return None
    w.isinstance_hooks.append(isinstance_hook)

    def getattr_builtin(ex, args):
        return H.b_getattr(ex, args)
    w.getattr_hooks.append(getattr_builtin)

    def b_setattr(ex, args, kw=None):
        obj, attr, v = args
        if not (isinstance(obj, VRef) and obj.sort == OBJ):
            return False
        k = H.key(obj, attr)
        installed = z3.Select(ex.ghost["PSp"], k) if "PSp" in ex.ghost else z3.BoolVal(False)
        if ex.branch(z3.And(refused(k), z3.Not(installed))):
            raise PyRaise("AnyException", "setattr refused by the target")
        if "PSp" in ex.ghost:
            ex.assumptions_used.add("setattr of the saved original onto a target recorded in _PATCH_STATE (its patch was installed successfully) does not raise")
        if not isinstance(v, (VRef, VNone)):
            raise OutOfSubset(f"setattr value {v!r}")
        vt = H.NONEVAL if isinstance(v, VNone) else v.term
        ex.ghost["D"] = z3.Store(H.D(ex), k, vt)
        return True

    def b_vars(ex, args, kw):
        o = args[0]
        if not (isinstance(o, VRef) and o.sort == OBJ):
            raise OutOfSubset(f"vars({o!r})")
        return VPy(obj=("owndict", o))

    def contains_hook(ex, item, cont):
        if isinstance(cont, VPy) and isinstance(cont.obj, tuple) and cont.obj and cont.obj[0] == "owndict" and isinstance(item, VStr):
            return z3.Select(H.D(ex), H.key(cont.obj[1], item)) != H.ABSENT
        return None
    w.contains_hooks.append(contains_hook)

    from pyvc.world import BUILTINS
    BUILTINS["vars"] = VFunc("builtin", "vars", impl=b_vars)
    w.setattr_hooks.append(b_setattr)
    def b_delattr(ex, args, kw=None):
        obj, attr = args
        if not (isinstance(obj, VRef) and obj.sort == OBJ):
            return False
        if "PSp" in ex.ghost and isinstance(obj, VRef) and obj.sort == OBJ:
            k = H.key(obj, attr)
            # a key recorded in _PATCH_STATE had its patch installed with setattr, and nested bodies
            # restore what they change: the own entry is still there
            ex.assume(z3.Implies(z3.Select(ex.ghost["PSp"], k), z3.Select(H.D(ex), k) != H.ABSENT))
            ex.assumptions_used.add("an attribute recorded in _PATCH_STATE is still an own attribute of its target when it is released (installed by setattr; nested bodies are restoring)")
        elif "Hk" in ex.ghost and isinstance(obj, VRef) and obj.sort == OBJ and ex.frames and ex.frames[0]["fid"].endswith(":apply_patches"):
            # the restore loop of apply_patches only deletes keys it recorded in `applied`: installed with setattr, and nested bodies restore what they change
            ex.assume(z3.Select(H.D(ex), H.key(obj, attr)) != H.ABSENT)
            ex.assumptions_used.add("an attribute recorded in apply_patches' `applied` list is still an own attribute of its target when it is restored (installed by setattr; nested bodies are restoring)")
        H.b_delattr(ex, args, kw)
        return True
    w.delattr_hooks.append(b_delattr)

    def call_ref(ex, fn, args, kwargs):
        if fn.sort == FN:
            # an arbitrary user-supplied factory: may raise anything, returns some object
            if ex.branch(z3.Bool(ex.fresh_name("callable_raises"))):
                raise PyRaise("AnyException", "callable raised")
            r = ex.fresh_const("made", ref_sort(VAL))
            ex.assume(z3.And(r != H.ABSENT, r != H.MISSING, r != null_of(VAL)))
            ex.assumptions_used.add("values produced by make_value/patch functions are ordinary objects (never the private _MISSING sentinel)")
            return (VRef(VAL, r),)
        return None
    w.call_ref_hooks.append(call_ref)

    # _resolve: import the dotted path / return the object; may raise
    w.add_contract(Contract(
        f"{MP}:_resolve", params={"target": Dyn("str", "ref:" + OBJ)}, ret=Ref(OBJ), uf=True, assumed=True,
        may_raise=["AnyException"], note="import_module/getattr of a dotted name: pure, may raise", props=[],
    ))

    # -- apply_patches ---------------------------------------------------------
    def Rk(v, k0):
        return z3.If(v != H.ABSENT, v, H.Base(k0))

    def orig_of(v, k0):
        r = Rk(v, k0)
        return z3.If(r == H.ABSENT, H.MISSING, r)

    def ghost_init(ex, env):
        k0 = z3.Const("k0", H.Key)
        ex.ghost["k0"] = k0
        D = H.D(ex)
        hk = z3.Const("Hk0", z3.ArraySort(z3.IntSort(), H.Val))
        ex.ghost["Hk"] = hk
        ex.assume(z3.Select(hk, 0) == z3.Select(D, k0))

    def applied_key(applied: VSeq, j):
        return H.mk_key(z3.Select(applied.arrs[0], j), z3.Select(applied.arrs[1], j))

    def history_facts(ex, applied: VSeq, upto):
        k0, hk = ex.ghost["k0"], ex.ghost["Hk"]
        j = z3.Int("j")
        kj = applied_key(applied, j)
        return z3.ForAll([j], z3.Implies(z3.And(0 <= j, j < upto), z3.And(
            z3.Not(refused(kj)),
            z3.Implies(kj == k0, z3.And(z3.Select(applied.arrs[2], j) == orig_of(z3.Select(hk, j), k0),
                                        # `owned` records whether the attribute was in the target's own dictionary at that moment
                                        z3.Select(applied.arrs[3], j) == z3.And(z3.Select(hk, j) != H.ABSENT, orig_of(z3.Select(hk, j), k0) != H.MISSING))),
            z3.Implies(kj != k0, z3.Select(hk, j + 1) == z3.Select(hk, j)),
            z3.Select(hk, j) != H.MISSING,
        )))

    def inv_acquire(lc):
        ex, i = lc.ex, lc.idx
        applied = lc["applied"]
        k0, hk = ex.ghost["k0"], ex.ghost["Hk"]
        return [
            ("len", applied.length == i),
            ("current_is_history", z3.Select(ex.ghost["D"], k0) == z3.Select(hk, i)),
            ("history", history_facts(ex, applied, i)),
            ("no_sentinel_stored", z3.Select(hk, i) != H.MISSING),
            ("history_origin", z3.Select(hk, 0) == z3.Select(ex.ghost["D0"], k0)),
        ]

    def ghost_acquire(lc):
        ex = lc.ex
        ex.ghost["Hk"] = z3.Store(ex.ghost["Hk"], lc.idx + 1, z3.Select(ex.ghost["D"], ex.ghost["k0"]))

    def inv_restore(lc):
        ex, m = lc.ex, lc.idx
        applied = lc["applied"]
        k0, hk = ex.ghost["k0"], ex.ghost["Hk"]
        n = applied.length
        # exactly the own-dictionary entry of that moment: an attribute that was only inherited must be inherited again
        return [("own_entry_as_at_that_step", z3.Select(ex.ghost["D"], k0) == z3.Select(hk, n - m))]

    def cm_body(ex, cx, value, extra):
        """the with-body: arbitrary effects, but it leaves the own-dictionary as it
        found it at the yield (LIFO nesting); it may raise anything."""
        D = ex.ghost["D"]
        D2 = ex.fresh_const("D_after_body", H.DSort)
        ex.assume(z3.Select(D2, ex.ghost["k0"]) == z3.Select(D, ex.ghost["k0"]))
        ex.ghost["D"] = D2
        ex.assumptions_used.add("with-bodies nested inside a patch context restore every attribute they change before the context exits (LIFO discipline of nested context managers)")
        if ex.branch(z3.Bool(ex.fresh_name("body_raises"))):
            extra["body_raised"] = True
            raise PyRaise("AnyException", "with-body raised")

    def post_resolution_restored(c: Ctx):
        # the own dictionary of every object is EXACTLY as before.  "Resolves as before" is not enough: several patch
        # contexts are active at once, and a subclass left with an own copy of what it inherited *while its parent was
        # patched* keeps the parent's substitute after the parent is restored (D26)
        ex = c.ex
        k0 = ex.ghost["k0"]
        return z3.Select(ex.ghost["D"], k0) == z3.Select(ex.ghost["D0"], k0)

    def post_exc_propagates(c: Ctx):
        return z3.BoolVal(not c.extra.get("body_raised"))

    def ghost_havoc(names):
        def f(ex):
            for nm in names:
                ex.ghost[nm] = ex.fresh_const(nm, ex.ghost[nm].sort())
        return f

    def req_values_not_sentinel(c: Ctx):
        arr = c.ex.heap_arrays(SPEC, "value")[0]
        sp = z3.Const("sp", ref_sort(SPEC))
        c.ex.assumptions_used.add("AssignSpec.value is never the module-private _MISSING sentinel (it cannot be named outside _patching.py)")
        return z3.ForAll([sp], z3.And(z3.Select(arr, sp) != H.MISSING, z3.Select(arr, sp) != H.ABSENT))

    w.add_contract(Contract(
        f"{MP}:apply_patches", kind="contextmanager",
        params={"specs": Seq(Ref(SPEC))},
        requires=[("values_not_private_sentinel", req_values_not_sentinel)],
        local_types={"applied": APPLIED},
        ghost_init=ghost_init, cm_body=cm_body,
        loops={
            0: LoopSpec(invariant=inv_acquire, label="acquire", ghost_update=ghost_acquire, ghost_havoc=ghost_havoc(["D", "Hk"])),
            1: LoopSpec(invariant=inv_restore, label="restore", ghost_havoc=ghost_havoc(["D"])),
        },
        ensures=[("every_own_attribute_dictionary_is_as_before", post_resolution_restored), ("body_exception_propagates", post_exc_propagates)],
        exc_ensures=[("every_own_attribute_dictionary_is_as_before", post_resolution_restored)],
        props=["C13"], witnesses=["C13_apply_patches_restores", "D26"],
    ))
    register_monkey(w)
    register_x64(w)
    register_retrace(w)


def register_retrace(w):
    """What JAX caches about a function traced while the patches were active is outside the contracts' reach (the caches are
    JAX internals).  Bounded stand-ins, never counted as proved."""
    def custom(world, c, out):
        import time
        from pyvc.run import run_witness
        t0 = time.time()
        for oname, wn, bound in (("the_converted_callable_retraces_like_a_never_converted_twin", "C13_retrace_family",
                                  "6 plain functions x {concrete, symbolic, double-precision, failing} conversions; make_jaxpr / jit / eval_shape on the same function object afterwards"),
                                 ("a_jit_compiled_helper_of_the_converted_function_works_afterwards", "D36", "one program: @jax.jit inner(a) = tanh(a) + 1 called by the converted lambda"),
                                 ("the_first_conversion_of_a_process_leaves_jax_numpy_cumsum_as_it_was", "D39", "one fresh interpreter: jnp.cumsum identity and jnp.cumsum(x, 1) before and after the first to_onnx")):
            holds, detail = run_witness(wn, timeout=900)
            d = {"oid": f"jax2onnx.user_interface:to_onnx#bounded:{oname}", "kind": "bounded", "status": "discharged" if holds else ("refuted" if holds is False else "unknown"),
                 "backend": "enumerated", "time": time.time() - t0, "instances": 1, "trivial": 0, "bounded": bound, "note": f"eager JAX after the conversion compared with a never-converted twin; {detail}"[:500]}
            if holds is False:
                d.update(args={"witness": wn}, replay={"reproduced": True, "detail": detail}, formula="", model=detail)
            out["obls"].append(d)
        out["paths"], out["time"] = 1, time.time() - t0
        return out
    w.add_contract(Contract("jax2onnx.user_interface:<retrace-after-conversion>", kind="custom", custom=custom, props=["C13"], witnesses=["C13_retrace_family", "D36", "D39"]))


# =====================================================================
# apply_monkey_patches: reference-counted patches in the global _PATCH_STATE
# =====================================================================
def register_monkey(w):
    H = w.pyheap
    refused = w.fn("setattr_refused", H.Key, z3.BoolSort())
    TOUCHED = Seq(Tup(Ref(OBJ), Str))
    SPECS = Seq(Tup(Ref(FN), Seq(Ref(OBJ)), Str))

    # _PATCH_STATE as ghost maps  present: Key->Bool, orig: Key->Val, count: Key->Int
    def PS(ex):
        if "PSp" not in ex.ghost:
            ex.ghost["PSp"] = z3.Const("PSp0", z3.ArraySort(H.Key, z3.BoolSort()))
            ex.ghost["PSo"] = z3.Const("PSo0", z3.ArraySort(H.Key, H.Val))
            ex.ghost["PSc"] = z3.Const("PSc0", z3.ArraySort(H.Key, z3.IntSort()))
            ex.ghost["PSw"] = z3.Const("PSw0", z3.ArraySort(H.Key, z3.BoolSort()))
            for nm in ("PSp", "PSo", "PSc", "PSw"):
                ex.ghost[nm + "0"] = ex.ghost[nm]
        return ex.ghost["PSp"], ex.ghost["PSo"], ex.ghost["PSc"]

    PATCH_STATE = VPy(obj=("patch_state",))
    w.global_overrides[(MS, "_PATCH_STATE")] = PATCH_STATE

    class StHandle(VPy):
        def __init__(self, key):
            super().__init__(obj=("st", key))
            self.key = key

    def key_of(ex, kv):
        assert isinstance(kv, VTuple) and len(kv.items) == 2, kv
        return H.mk_key(kv.items[0].term, kv.items[1].term)

    def method_hook(ex, recv, name, args, kw):
        if recv is PATCH_STATE:
            p, o, c = PS(ex)
            k = key_of(ex, args[0])
            if name == "get":
                if ex.branch(z3.Select(p, k)):
                    return (StHandle(k),)
                return (args[1] if len(args) > 1 else NONE,)
            if name == "pop":
                if ex.branch(z3.Select(p, k)):
                    ex.ghost["PSp"] = z3.Store(p, k, z3.BoolVal(False))
                    return (StHandle(k),)
                if len(args) > 1:
                    return (args[1],)
                raise PyRaise("KeyError")
        return None
    w.method_hooks.append(method_hook)

    def ps_field(ex, f):
        """ghost array for one field of the per-key state records (count: Int, anything else: object)"""
        PS(ex)
        std = {"count": "PSc", "orig": "PSo", "owned": "PSw"}
        nm = std.get(f, "PSx_" + f)
        if nm not in ex.ghost:
            ex.ghost[nm] = z3.Const(nm + "0", z3.ArraySort(H.Key, H.Val))
            ex.ghost[nm + "0"] = ex.ghost[nm]
        return nm

    def handle_key(base):
        if isinstance(base, StHandle):
            return base.key
        return getattr(base, "handle_key", None)

    def getitem_hook(ex, base, idx):
        k = handle_key(base)
        if k is not None:
            f = z3.simplify(idx.term).as_string()
            nm = ps_field(ex, f)
            if f == "count":
                return VInt(z3.Select(ex.ghost[nm], k))
            if ex.ghost[nm].sort().range() == z3.BoolSort():
                return VBool(z3.Select(ex.ghost[nm], k))
            return VRef(VAL, z3.Select(ex.ghost[nm], k))
        return None
    w.getitem_hooks.append(getitem_hook)

    def store_field(ex, k, f, v):
        nm = ps_field(ex, f)
        if f == "count" or (isinstance(v, VBool) and ex.ghost[nm].sort().range() == z3.BoolSort()):
            ex.ghost[nm] = z3.Store(ex.ghost[nm], k, v.term)
        else:
            if not isinstance(v, (VRef, VNone)):
                raise OutOfSubset(f"_PATCH_STATE record field {f} = {v!r}")
            ex.ghost[nm] = z3.Store(ex.ghost[nm], k, H.NONEVAL if isinstance(v, VNone) else v.term)

    def setitem_hook(ex, base, idx, v):
        PS(ex)
        k = handle_key(base)
        if k is not None:
            store_field(ex, k, z3.simplify(idx.term).as_string(), v)
            return True
        if base is PATCH_STATE:
            k = key_of(ex, idx)
            if not isinstance(v, VDict):
                raise OutOfSubset(f"_PATCH_STATE[key] = {v!r}")
            ex.ghost["PSp"] = z3.Store(ex.ghost["PSp"], k, z3.BoolVal(True))
            for kk, vv in v.entries:
                store_field(ex, k, z3.simplify(kk.term).as_string(), vv)
            v.handle_key = k  # the stored dict object and the local name alias the same record
            return True
        return False
    w.setitem_hooks.append(setitem_hook)

    def truthy_hook(ex, v):
        if isinstance(v, StHandle):
            return z3.BoolVal(True)  # a dict with two keys
        return None
    w.truthy_hooks.append(truthy_hook)

    w.add_contract(Contract(
        f"{MS}:_iter_patch_specs", params={}, ret=SPECS, assumed=True, may_raise=["AnyException"],
        note="plugin registry iteration: yields (patch_fn, targets, attr) triples; may raise", props=[],
    ))

    def Rk(v, k0):
        return z3.If(v != H.ABSENT, v, H.Base(k0))

    def ghost_init(ex, env):
        k0 = z3.Const("k0", H.Key)
        ex.ghost["k0"] = k0
        H.D(ex)
        PS(ex)
        occ = z3.Const("Occ0", z3.ArraySort(z3.IntSort(), z3.IntSort()))
        ex.ghost["Occ"] = occ
        ex.assume(z3.Select(occ, 0) == 0)
        # representation invariant of _PATCH_STATE on entry: an installed patch has count >= 1,
        # its saved original is an ordinary object
        p, o, c = PS(ex)
        k = z3.Const("k!ps", H.Key)
        ex.assume(z3.ForAll([k], z3.Implies(z3.Select(p, k), z3.And(z3.Select(c, k) >= 1, z3.Select(o, k) != H.ABSENT))))

    def touched_key(t: VSeq, j):
        return H.mk_key(z3.Select(t.arrs[0], j), z3.Select(t.arrs[1], j))

    def occ_facts(ex, touched: VSeq):
        occ, k0 = ex.ghost["Occ"], ex.ghost["k0"]
        j = z3.Int("j")
        return z3.And(
            z3.Select(occ, 0) == 0,
            z3.ForAll([j], z3.Implies(z3.And(0 <= j, j < touched.length), z3.Select(occ, j + 1) == z3.Select(occ, j) + z3.If(touched_key(touched, j) == k0, 1, 0))),
            z3.ForAll([j], z3.Implies(z3.And(0 <= j, j <= touched.length), z3.Select(occ, j) >= 0)),
        )

    def state_rel(ex, n_occ):
        """relation between the current (D, PS) at k0 and the entry state, given that
        k0 currently has n_occ outstanding acquisitions from this activation"""
        k0 = ex.ghost["k0"]
        D, D0 = ex.ghost["D"], ex.ghost["D0"]
        p, o, c = ex.ghost["PSp"], ex.ghost["PSo"], ex.ghost["PSc"]
        p0, o0, c0 = ex.ghost["PSp0"], ex.ghost["PSo0"], ex.ghost["PSc0"]
        sel = z3.Select
        was = sel(p0, k0)
        ow, ow0 = ex.ghost["PSw"], ex.ghost["PSw0"]
        return z3.And(
            z3.Implies(was, z3.And(sel(p, k0), sel(o, k0) == sel(o0, k0), sel(ow, k0) == sel(ow0, k0), sel(c, k0) == sel(c0, k0) + n_occ, sel(D, k0) == sel(D0, k0))),
            z3.Implies(z3.And(z3.Not(was), n_occ > 0), z3.And(
                sel(p, k0), sel(o, k0) == Rk(sel(D0, k0), k0), sel(o, k0) != H.ABSENT, sel(c, k0) == n_occ,
                sel(ow, k0) == (sel(D0, k0) != H.ABSENT), sel(D, k0) != H.ABSENT)),
            z3.Implies(z3.And(z3.Not(was), n_occ == 0), z3.And(z3.Not(sel(p, k0)), sel(D, k0) == sel(D0, k0))),
        )

    def inv_acquire(lc):
        ex = lc.ex
        touched = lc["touched"]
        return [("occurrence_count", occ_facts(ex, touched)), ("state", state_rel(ex, z3.Select(ex.ghost["Occ"], touched.length)))]

    def ghost_acquire_inner(lc):
        ex = lc.ex
        touched = lc["touched"]
        n = touched.length  # already appended
        last = touched_key(touched, n - 1)
        ex.ghost["Occ"] = z3.Store(ex.ghost["Occ"], n, z3.Select(ex.ghost["Occ"], n - 1) + z3.If(last == ex.ghost["k0"], 1, 0))

    def inv_restore(lc):
        ex, m = lc.ex, lc.idx
        touched = lc["touched"]
        return [("state", state_rel(ex, z3.Select(ex.ghost["Occ"], touched.length - m)))]

    def cm_body(ex, cx, value, extra):
        k0 = ex.ghost["k0"]
        for nm in ("D", "PSp", "PSo", "PSc", "PSw"):
            old = ex.ghost[nm]
            new = ex.fresh_const(nm + "_after_body", old.sort())
            ex.assume(z3.Select(new, k0) == z3.Select(old, k0))
            ex.ghost[nm] = new
        ex.assumptions_used.add("with-bodies nested inside the patch context leave attributes and _PATCH_STATE as they found them at the yield (nested activations are themselves restoring: this contract)")
        if ex.branch(z3.Bool(ex.fresh_name("body_raises"))):
            extra["body_raised"] = True
            raise PyRaise("AnyException", "with-body raised")

    def post_restored(c: Ctx):
        ex = c.ex
        k0 = ex.ghost["k0"]
        sel = z3.Select
        same_ps = z3.And(sel(ex.ghost["PSp"], k0) == sel(ex.ghost["PSp0"], k0),
                         z3.Implies(sel(ex.ghost["PSp0"], k0), z3.And(sel(ex.ghost["PSo"], k0) == sel(ex.ghost["PSo0"], k0), sel(ex.ghost["PSc"], k0) == sel(ex.ghost["PSc0"], k0))))
        # the own dictionary of every object is EXACTLY as before (so any attribute resolution, with
        # any inheritance between patched objects, gives the same objects as before)
        return z3.And(sel(ex.ghost["D"], k0) == sel(ex.ghost["D0"], k0), same_ps)

    def gh(names):
        def f(ex):
            extra = [n for n in ex.ghost if n.startswith("PSx_") and not n.endswith("0")] if "PSp" in names else []
            for nm in list(names) + extra:
                ex.ghost[nm] = ex.fresh_const(nm, ex.ghost[nm].sort())
        return f

    w.add_contract(Contract(
        f"{MS}:apply_monkey_patches", kind="contextmanager", params={},
        local_types={"touched": TOUCHED},
        ghost_init=ghost_init, cm_body=cm_body,
        loops={
            0: LoopSpec(invariant=inv_acquire, label="acquire-specs", ghost_havoc=gh(["D", "PSp", "PSo", "PSc", "PSw", "Occ"])),
            1: LoopSpec(invariant=inv_acquire, label="acquire-targets", ghost_update=ghost_acquire_inner, ghost_havoc=gh(["D", "PSp", "PSo", "PSc", "PSw", "Occ"])),
            2: LoopSpec(invariant=inv_restore, label="restore", ghost_havoc=gh(["D", "PSp", "PSo", "PSc", "PSw"])),
        },
        ensures=[("attributes_and_patch_state_as_before", post_restored), ("body_exception_propagates", lambda c: z3.BoolVal(not c.extra.get("body_raised")))],
        exc_ensures=[("attributes_and_patch_state_as_before", post_restored)],
        props=["C13"], witnesses=["D8", "D17", "C13_rebinding_between_conversions"],
    ))


# =====================================================================
# the JAX 64-bit flag: _force_jax_x64, _temporary_x64
# =====================================================================
def register_x64(w):
    """Model of the flag: one process-wide cell G (written by jax.config.update) and an optional thread-local override L
    (entered and left by the jax.enable_x64 context manager); every read returns L when one is active, else G."""
    def init(ex):
        if "x64" not in ex.ghost:
            ex.ghost["x64"] = z3.Bool("x64_global_at_entry")
            ex.ghost["x64_0"] = ex.ghost["x64"]
        if "x64_local" not in ex.ghost:
            ex.ghost["x64_local"] = (z3.Bool("x64_override_active_at_entry"), z3.Bool("x64_override_value_at_entry"))
            ex.ghost["x64_local_0"] = ex.ghost["x64_local"]

    def cell(ex):
        init(ex)
        has, val = ex.ghost["x64_local"]
        return z3.If(has, val, ex.ghost["x64"])

    w.path_getters["jax.config.jax_enable_x64"] = lambda ex: VBool(cell(ex))

    def cfg_update(ex, args, kw):
        name = z3.simplify(args[0].term)
        if not (z3.is_string_value(name) and name.as_string() == "jax_enable_x64"):
            raise OutOfSubset("jax.config.update of another option")
        init(ex)
        ex.ghost["x64"] = ex.truthy(args[1])
        ex.events.append(("x64_update", ex.ghost["x64"]))
        return NONE

    def cfg_read(ex, args, kw):
        name = z3.simplify(args[0].term)
        if not (z3.is_string_value(name) and name.as_string() == "jax_enable_x64"):
            raise OutOfSubset("jax.config.read of another option")
        return VBool(cell(ex))

    w.path_models["jax.config.update"] = cfg_update
    w.path_models["jax.config.read"] = cfg_read
    w.trust("jax.config.update('jax_enable_x64', v) writes the process-wide cell; jax.config.jax_enable_x64 / jax.config.read return the thread-local override "
            "when a jax.enable_x64(...) context is active and the process-wide cell otherwise; jax.enable_x64(v) installs the override for its body and "
            "reinstates the previous one on every exit; none of them raises")

    def scope_value(args, kwargs, ex):
        return ex.truthy(args[0]) if args else (ex.truthy(kwargs["new_val"]) if "new_val" in kwargs else z3.BoolVal(True))

    def run_scoped(ex, v, body_thunk):
        init(ex)
        saved = ex.ghost["x64_local"]
        ex.ghost["x64_local"] = (z3.BoolVal(True), v)
        try:
            body_thunk(NONE)
        finally:
            ex.ghost["x64_local"] = saved

    def enable_x64_scope(ex, fn, args, kwargs, body_thunk):
        """with jax.enable_x64(v): ..."""
        if not (isinstance(fn, VPy) and fn.path in ("jax.enable_x64", "jax.experimental.enable_x64")):
            return False
        run_scoped(ex, scope_value(args, kwargs, ex), body_thunk)
        return True
    w.with_call_hooks.append(enable_x64_scope)

    # cm = jax.enable_x64(v) ... with cm: ...   (the object is inert until entered)
    def make_scope(ex, args, kw):
        return VPy(obj=("x64_scope", scope_value(args, kw, ex)))
    w.path_models["jax.enable_x64"] = make_scope
    w.path_models["jax.experimental.enable_x64"] = make_scope

    def enter_scope(ex, cm, body_thunk):
        if isinstance(cm, VPy) and isinstance(cm.obj, tuple) and cm.obj and cm.obj[0] == "x64_scope":
            run_scoped(ex, cm.obj[1], body_thunk)
            return True
        return False
    if not hasattr(w, "with_value_hooks"):
        w.with_value_hooks = []
    w.with_value_hooks.append(enter_scope)

    def hasattr_hook(ex, v, nm):
        if isinstance(v, VPy) and v.path == "jax.config":
            if nm == "read":
                return z3.Bool("jax_config_has_read")  # depends on the installed JAX: both cases proved
            if nm == "jax_enable_x64":
                return z3.Bool("jax_config_has_x64_attr")
        return None
    w.hasattr_hooks.append(hasattr_hook)

    def callable_hook(ex, v):
        if isinstance(v, VFunc):
            return VBool(True)
        if isinstance(v, VNone):
            return VBool(False)
        return None
    w.callable_hooks.append(callable_hook)

    def body_keeps_flag(ex, cx, value, extra):
        new = z3.Bool(ex.fresh_name("x64_after_body"))
        ex.assume(new == ex.ghost["x64"])
        ex.ghost["x64"] = new
        ex.assumptions_used.add("the with-body leaves the x64 flag as it found it at the yield (nested conversions are themselves restoring)")
        extra["flag_inside"] = cell(ex)
        if ex.branch(z3.Bool(ex.fresh_name("body_raises"))):
            extra["body_raised"] = True
            raise PyRaise("AnyException")

    def post_flag(c: Ctx):
        g = c.ex.ghost
        (h1, v1), (h0, v0) = g["x64_local"], g["x64_local_0"]
        return z3.And(g["x64"] == g["x64_0"], h1 == h0, z3.Implies(h0, v1 == v0))

    def post_inside(param):
        def f(c: Ctx):
            fl = c.extra.get("flag_inside")
            if fl is None:
                return z3.BoolVal(True)  # the body never ran (an exception before the yield)
            return fl == c.ex.truthy(c[param])
        return f

    def ginit(ex, env):
        init(ex)

    common = dict(kind="contextmanager", ghost_init=ginit, props=["C13", "C09", "C18"], witnesses=["C13_x64_flag_restored"])
    w.add_contract(Contract(
        f"{MC}:_force_jax_x64", params={"enable_double_precision": Bool}, cm_body=body_keeps_flag,
        requires=[("x64_attr_exists_or_read", lambda c: z3.Or(z3.Bool("jax_config_has_read"), z3.Bool("jax_config_has_x64_attr")))],
        ensures=[("flag_as_before", post_flag), ("flag_inside_is_requested", post_inside("enable_double_precision")), ("body_exception_propagates", lambda c: z3.BoolVal(not c.extra.get("body_raised")))],
        exc_ensures=[("flag_as_before", post_flag), ("flag_inside_is_requested", post_inside("enable_double_precision"))], **common))
    w.add_contract(Contract(
        f"{MU}:_temporary_x64", params={"enabled": Bool}, cm_body=body_keeps_flag,
        ensures=[("flag_as_before", post_flag), ("flag_inside_is_requested", post_inside("enabled")), ("body_exception_propagates", lambda c: z3.BoolVal(not c.extra.get("body_raised")))],
        exc_ensures=[("flag_as_before", post_flag), ("flag_inside_is_requested", post_inside("enabled"))], **common))
