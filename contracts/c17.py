"""C17 — cast elimination removes only value-preserving round trips.
Contracts on the real functions of jax2onnx/converter/ir_optimizations.py."""
from __future__ import annotations

import z3

from pyvc.vals import *  # noqa
from pyvc.world import Contract, Ctx
from specs import dtypes as D

M = "jax2onnx.converter.ir_optimizations"


def pow2(w, t):
    return w.pow2(t)


def in_int(w, v, signed, bits):
    """v ∈ range of the integer type (signed: Bool term, bits: Int term)."""
    return z3.If(signed, z3.And(-pow2(w, bits - 1) <= v, v <= pow2(w, bits - 1) - 1), z3.And(0 <= v, v <= pow2(w, bits) - 1))


def register(w):
    w.trust("pow2 is uninterpreted with axioms: monotone, strictly doubling, >= 1, pow2(0) = 1 (facts of 2^x on integers)")
    for ax in w.pow2_axioms():
        w.add_axiom(ax)
    mp = w.fn("mulpow", z3.IntSort(), z3.IntSort(), z3.IntSort())  # m·2^q, opaque

    def in_float(m, q, fmt):
        p, qmin, emax = fmt
        return z3.And(0 <= m, m < pow2(w, p), q >= qmin, mp(m, q) < pow2(w, emax + 1))

    # ---- _integer_domain_fits_integer
    def post_int_int(c: Ctx):
        (ss, sb), (ts, tb) = c["source"].items, c["target"].items
        v = z3.Int("v")
        return z3.Implies(c.result.term, z3.ForAll([v], z3.Implies(in_int(w, v, ss.term, sb.term), in_int(w, v, ts.term, tb.term))))

    w.add_contract(Contract(
        f"{M}:_integer_domain_fits_integer",
        params={"source": Tup(Bool, Int), "target": Tup(Bool, Int)},
        requires=[("bits_pos", lambda c: z3.And(c["source"].items[1].term >= 1, c["target"].items[1].term >= 1))],
        ensures=[("range_included", post_int_int)],
        raises=set(), ret=Bool, props=["C17", "C02"],
    ))

    # ---- _integer_domain_fits_float
    def post_int_float(c: Ctx):
        ss, sb = c["source"].items
        p, qmin, emax = [x.term for x in c["target"].items]
        b = sb.term
        maxabs = z3.If(ss.term, pow2(w, b - 1), pow2(w, b) - 1)
        return z3.Implies(c.result.term, z3.And(maxabs <= pow2(w, p), maxabs < pow2(w, emax + 1)))

    w.add_contract(Contract(
        f"{M}:_integer_domain_fits_float",
        params={"source": Tup(Bool, Int), "target": Tup(Int, Int, Int)},
        requires=[("sane", lambda c: z3.And(c["source"].items[1].term >= 1, c["target"].items[0].term >= 1, c["target"].items[2].term >= 0))],
        ensures=[("largest_magnitude_representable", post_int_float)],
        raises=set(), ret=Bool, props=["C17", "C02"],
    ))

    # ---- _float_domain_fits_float
    def post_float_float(c: Ctx):
        s = [x.term for x in c["source"].items]
        t = [x.term for x in c["target"].items]
        m, q = z3.Ints("m q")
        return z3.Implies(c.result.term, z3.ForAll([m, q], z3.Implies(in_float(m, q, s), in_float(m, q, t))))

    w.add_contract(Contract(
        f"{M}:_float_domain_fits_float",
        params={"source": Tup(Int, Int, Int), "target": Tup(Int, Int, Int)},
        requires=[("sane", lambda c: z3.And(c["source"].items[0].term >= 1, c["source"].items[2].term >= 0, c["target"].items[0].term >= 1, c["target"].items[2].term >= 0))],
        ensures=[("value_set_included", post_float_float)],
        raises=set(), ret=Bool, props=["C17", "C02"],
    ))

    # ---- format tables against the spec table
    def spec_float_fmt(code, kinds=("float",)):
        rows = {k: v[1] for k, v in D.ONNX.items() if isinstance(v[1], tuple) and v[1][0] in kinds}
        return rows

    def post_fmt(kinds):
        rows = spec_float_fmt(None, kinds)

        def post(c: Ctx):
            code = c["dtype"].term
            r = c.result
            is_row = z3.Or([code == k for k in rows])
            if isinstance(r, VNone):
                return z3.Not(is_row)
            p, qmin, emax = [x.term for x in r.items]
            return z3.Or([z3.And(code == k, p == v[1], qmin == 2 - v[2] - v[1], emax == v[2]) for k, v in rows.items()])
        return post

    valid_code = lambda t: z3.Or([t == k for k in D.ONNX])  # noqa: E731

    w.add_contract(Contract(
        f"{M}:_standard_float_format", params={"dtype": Enum("DataType")},
        requires=[("valid", lambda c: valid_code(c["dtype"].term))],
        ensures=[("equals_ieee_table", post_fmt(("float",)))],
        raises=set(), ret=Opt(Tup(Int, Int, Int)), props=["C17", "C02"],
    ))
    w.add_contract(Contract(
        f"{M}:_complex_component_format", params={"dtype": Enum("DataType")},
        requires=[("valid", lambda c: valid_code(c["dtype"].term))],
        ensures=[("equals_ieee_table", post_fmt(("complex",)))],
        raises=set(), ret=Opt(Tup(Int, Int, Int)), props=["C17", "C02"], inline_callees=True,
    ))

    int_rows = {k: v[1] for k, v in D.ONNX.items() if isinstance(v[1], tuple) and v[1][0] == "int"}

    def post_int_fmt(c: Ctx):
        code = c["dtype"].term
        r = c.result
        is_row = z3.Or([code == k for k in int_rows])
        if isinstance(r, VNone):
            return z3.Not(is_row)
        sg, b = r.items
        return z3.Or([z3.And(code == k, sg.term == z3.BoolVal(v[1]), b.term == v[2]) for k, v in int_rows.items()])

    w.add_contract(Contract(
        f"{M}:_integer_format", params={"dtype": Enum("DataType")},
        requires=[("valid", lambda c: valid_code(c["dtype"].term))],
        ensures=[("equals_onnx_int_table", post_int_fmt)],
        raises=set(), ret=Opt(Tup(Bool, Int)), props=["C17", "C02"],
    ))

    def post_bounds(c: Ctx):
        code = c["dtype_code"].term
        r = c.result
        is_row = z3.Or([code == k for k in int_rows])
        if isinstance(r, VNone):
            return z3.Not(is_row)
        lo, hi = r.items
        return z3.Or([z3.And(code == k, lo.term == D.int_bounds(k)[0], hi.term == D.int_bounds(k)[1]) for k in int_rows])

    w.add_contract(Contract(
        f"{M}:_integer_dtype_bounds", params={"dtype_code": Int},
        ensures=[("equals_onnx_int_range", post_bounds)],
        raises=set(), ret=Opt(Tup(Int, Int)), props=["C17", "C02"], inline_callees=True,
    ))

    # ---- the decision procedure, inlining the helpers (real bodies)
    def post_preserving(c: Ctx):
        s, m = c["source_dtype"].term, c["intermediate_dtype"].term
        return z3.Implies(c.result.term, D.included_term(s, m))

    def replay_preserving(model, args):
        import importlib
        mod = importlib.import_module(M)
        s, m = args["source_dtype"], args["intermediate_dtype"]
        got = mod._cast_roundtrip_is_value_preserving(s, m)
        bad = bool(got) and not D.values_included(s, m)
        nm = lambda k: D.ONNX.get(k, ("?",))[0]  # noqa: E731
        return bad, f"_cast_roundtrip_is_value_preserving({nm(s)}={s}, {nm(m)}={m}) returned {got}; Vals({nm(s)}) ⊆ Vals({nm(m)}) is {D.values_included(s, m)}"

    w.add_contract(Contract(
        f"{M}:_cast_roundtrip_is_value_preserving",
        params={"source_dtype": Int, "intermediate_dtype": Int},
        ensures=[("accepted_pairs_preserve_every_value", post_preserving)],
        raises=set(), ret=Bool, props=["C17", "C02"], inline_callees=True, replay=replay_preserving,
    ))
    register_graph_level(w)


def register_graph_level(w):
    """_known_integer_scalar / _known_integer_value_bounds / _cast_roundtrip_known_values_fit:
    the static range proof that lets a *narrowing* integer round trip be dropped."""
    from specs import graph as GM
    from specs.graph import VALUE, NODE
    G = GM.register(w)

    def sem_axioms(c: Ctx):
        return z3.And(G.axiom_value_preserving_ops(c.ex), G.axiom_range(c.ex))

    # every run-time element of `value` equals the returned scalar
    def post_scalar(c: Ctx):
        r = c.result
        if isinstance(r, VNone):
            return z3.BoolVal(True)
        e = z3.Int("e")
        return z3.ForAll([e], z3.Implies(G.in_vals(c["value"].term, e), e == r.term))

    w.add_contract(Contract(
        f"{M}:_known_integer_scalar",
        params={"nodes": Seq(Ref(NODE)), "value": Ref(VALUE), "seen": Opt(SetT(Int))},
        requires=[("axiom:onnx_semantics", sem_axioms)],
        ensures=[("every_runtime_element_equals_result", post_scalar)],
        raises=set(), ret=Opt(Int), props=["C17", "C02"], witnesses=["C17_range_bounds_family"],
    ))

    def post_bounds(c: Ctx):
        r = c.result
        if isinstance(r, VNone):
            return z3.BoolVal(True)
        lo, hi = r.items
        e = z3.Int("e")
        return z3.ForAll([e], z3.Implies(G.in_vals(c["value"].term, e), z3.And(lo.term <= e, e <= hi.term)))

    w.add_contract(Contract(
        f"{M}:_known_integer_value_bounds",
        params={"nodes": Seq(Ref(NODE)), "value": Ref(VALUE), "seen": Opt(SetT(Int))},
        requires=[("axiom:onnx_semantics", sem_axioms)],
        ensures=[("every_runtime_element_within_bounds", post_bounds)],
        raises=set(), ret=Opt(Tup(Int, Int)), props=["C17", "C02"], witnesses=["C17_range_bounds_family"],
    ))

    int_rows = {k: v[1] for k, v in D.ONNX.items() if isinstance(v[1], tuple) and v[1][0] == "int"}

    def post_fit(c: Ctx):
        s, m = c["source_dtype"].term, c["intermediate_dtype"].term
        e = z3.Int("e")
        in_mid = z3.Or([z3.And(m == k, D.int_bounds(k)[0] <= e, e <= D.int_bounds(k)[1]) for k in int_rows])
        return z3.Implies(c.result.term, z3.And(
            z3.Or([s == k for k in int_rows]), z3.Or([m == k for k in int_rows]),
            z3.ForAll([e], z3.Implies(G.in_vals(c["source"].term, e), in_mid))))

    w.add_contract(Contract(
        f"{M}:_cast_roundtrip_known_values_fit",
        params={"nodes": Seq(Ref(NODE)), "source": Ref(VALUE), "source_dtype": Int, "intermediate_dtype": Int},
        requires=[("axiom:onnx_semantics", sem_axioms)],
        ensures=[("every_runtime_element_fits_intermediate_type", post_fit)],
        raises=set(), ret=Bool, props=["C17", "C02"], witnesses=["C17_range_bounds_family"],
    ))
