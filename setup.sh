#!/bin/sh
# Build the overlay virtualenv used by every check (offline; files on disk only).
set -e
cd "$(dirname "$0")"
V=.venv
if [ -x "$V/bin/python" ] && "$V/bin/python" -c "import z3, cvc5, jsonschema, numpy, onnx_ir, jax2onnx" 2>/dev/null; then
  echo "setup: $V already usable"; exit 0
fi
rm -rf "$V"
/venv/bin/python -m venv "$V"
PIP_NO_INDEX=1 "$V/bin/python" -m pip install -q --no-index --find-links /opt/veriftools/wheels z3-solver cvc5 jsonschema
SP=$("$V/bin/python" -c "import sysconfig; print(sysconfig.get_paths()['purelib'])")
echo "import site; site.addsitedir('/venv/lib/python3.12/site-packages')" > "$SP/_repo.pth"
"$V/bin/python" -c "import z3, cvc5, jsonschema, numpy, onnx_ir, jax2onnx; print('setup: ok', z3.get_version_string(), jax2onnx.__file__)"
