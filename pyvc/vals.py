"""Type descriptors and symbolic values of the pyvc symbolic executor.

A symbolic Python value is a small tagged wrapper around z3 terms.  The
wrappers are Python-side objects; mutable containers (list/set/dict) are
mutable *cells* whose z3 content is replaced on update, so aliasing between
names follows Python semantics.
"""
from __future__ import annotations

import itertools
import z3

# ------------------------------------------------------------------ types


class Ty:
    def __repr__(self):
        return self.__class__.__name__


class _Int(Ty):
    pass


class _Bool(Ty):
    pass


class _Str(Ty):
    pass


class _Real(Ty):
    pass


class _NoneT(Ty):
    pass


Int, Bool, Str, NoneT, Real = _Int(), _Bool(), _Str(), _NoneT(), _Real()


class Opt(Ty):
    def __init__(self, t):
        self.t = t

    def __repr__(self):
        return f"Opt[{self.t}]"


class Tup(Ty):
    def __init__(self, *ts):
        self.ts = ts

    def __repr__(self):
        return "Tup[" + ",".join(map(repr, self.ts)) + "]"


class Seq(Ty):
    def __init__(self, t):
        self.t = t

    def __repr__(self):
        return f"Seq[{self.t}]"


class SetT(Ty):
    def __init__(self, t):
        self.t = t

    def __repr__(self):
        return f"Set[{self.t}]"


class MapT(Ty):
    def __init__(self, k, v):
        self.k, self.v = k, v

    def __repr__(self):
        return f"Map[{self.k},{self.v}]"


class Ref(Ty):
    """Reference to a heap object of an uninterpreted sort (never None)."""

    def __init__(self, sort):
        self.sort = sort

    def __repr__(self):
        return f"Ref[{self.sort}]"


class Enum(Ty):
    """Finite enum represented by its integer code."""

    def __init__(self, name):
        self.name = name

    def __repr__(self):
        return f"Enum[{self.name}]"


class Dyn(Ty):
    """Dynamically typed value: one of a fixed list of kinds, chosen by a
    symbolic tag.  kinds: tuple of 'int' | 'str' | 'none' | 'bool' | 'ref:<Sort>'."""

    def __init__(self, *kinds):
        self.kinds = tuple(kinds)

    def __repr__(self):
        return "Dyn[" + "|".join(self.kinds) + "]"


class Const(Ty):
    """A fixed concrete python object (modules, classes, literal constants)."""

    def __init__(self, obj):
        self.obj = obj


_SORTS: dict[str, z3.SortRef] = {}
_NULLS: dict[str, z3.ExprRef] = {}


def ref_sort(name: str) -> z3.SortRef:
    if name not in _SORTS:
        _SORTS[name] = z3.DeclareSort(name)
        _NULLS[name] = z3.Const(f"null_{name}", _SORTS[name])
    return _SORTS[name]


def null_of(name: str) -> z3.ExprRef:
    ref_sort(name)
    return _NULLS[name]


_KEY_SORTS: dict = {}


def key_sort(k: Ty):
    """z3 sort of a map key: the scalar sort, or a tuple datatype for tuple keys"""
    fs = flat_sorts(k)
    if len(fs) == 1:
        return fs[0]
    sig = tuple(str(s) for s in fs)
    if sig not in _KEY_SORTS:
        _KEY_SORTS[sig] = z3.TupleSort("KeyTup_" + "_".join(x.replace(" ", "") for x in sig), fs)
    return _KEY_SORTS[sig][0]


def key_term(k: Ty, terms: list):
    fs = flat_sorts(k)
    if len(fs) == 1:
        return terms[0]
    sig = tuple(str(s) for s in fs)
    key_sort(k)
    return _KEY_SORTS[sig][1](*terms)


def flat_sorts(t: Ty) -> list:
    """z3 sorts of the flattened components of a value of type t."""
    if isinstance(t, (_Int, Enum)):
        return [z3.IntSort()]
    if isinstance(t, _Bool):
        return [z3.BoolSort()]
    if isinstance(t, _Real):
        return [z3.RealSort()]
    if isinstance(t, _Str):
        return [z3.StringSort()]
    if isinstance(t, _NoneT):
        return []
    if isinstance(t, Ref):
        return [ref_sort(t.sort)]
    if isinstance(t, Opt):
        if isinstance(t.t, Ref):
            return [ref_sort(t.t.sort)]  # null encodes None
        return [z3.BoolSort()] + flat_sorts(t.t)
    if isinstance(t, Tup):
        return list(itertools.chain.from_iterable(flat_sorts(x) for x in t.ts))
    if isinstance(t, Dyn):
        out = [z3.IntSort()]
        for k in t.kinds:
            out += _dyn_kind_sorts(k)
        return out
    if isinstance(t, Seq):
        return [z3.ArraySort(z3.IntSort(), s) for s in flat_sorts(t.t)] + [z3.IntSort()]
    if isinstance(t, SetT):
        fs = flat_sorts(t.t)
        assert len(fs) == 1, "sets of scalars only"
        return [z3.ArraySort(fs[0], z3.BoolSort())]
    if isinstance(t, MapT):
        ks = key_sort(t.k)
        return [z3.ArraySort(ks, z3.BoolSort())] + [z3.ArraySort(ks, s) for s in flat_sorts(t.v)]
    raise TypeError(f"cannot flatten {t}")


def _dyn_kind_sorts(k: str) -> list:
    if k == "int":
        return [z3.IntSort()]
    if k == "bool":
        return [z3.BoolSort()]
    if k == "str":
        return [z3.StringSort()]
    if k == "none":
        return []
    if k.startswith("ref:"):
        return [ref_sort(k[4:])]
    raise TypeError(k)


# ------------------------------------------------------------------ values


class V:
    ty: Ty = None


class VInt(V):
    def __init__(self, term):
        self.term = z3.IntVal(term) if isinstance(term, int) else term

    def __repr__(self):
        return f"VInt({self.term})"


class VBool(V):
    def __init__(self, term):
        self.term = z3.BoolVal(term) if isinstance(term, bool) else term

    def __repr__(self):
        return f"VBool({self.term})"


class VReal(V):
    """python float treated as a mathematical real (no rounding, no NaN/inf)"""

    def __init__(self, term):
        self.term = z3.RealVal(term) if isinstance(term, (int, float)) else term

    def __repr__(self):
        return f"VReal({self.term})"


class VStr(V):
    def __init__(self, term):
        self.term = z3.StringVal(term) if isinstance(term, str) else term

    def __repr__(self):
        return f"VStr({self.term})"


class VNone(V):
    def __repr__(self):
        return "VNone"


NONE = VNone()


class VTuple(V):
    def __init__(self, items):
        self.items = tuple(items)

    def __repr__(self):
        return f"VTuple{self.items}"


class VEnum(V):
    def __init__(self, enum: str, term):
        self.enum = enum
        self.term = z3.IntVal(term) if isinstance(term, int) else term

    def __repr__(self):
        return f"VEnum({self.enum},{self.term})"


class VRef(V):
    """Heap reference; `nullable` says the term may equal null (Python None)."""

    def __init__(self, sort: str, term, nullable=False):
        self.sort, self.term, self.nullable = sort, term, nullable

    def __repr__(self):
        return f"VRef({self.sort},{self.term}{'?' if self.nullable else ''})"


class VOpt(V):
    """Possibly-None value whose None-ness is symbolic; forced (forked) on use."""

    def __init__(self, isnone, val: V):
        self.isnone, self.val = isnone, val


class VDyn(V):
    """Value of a Dyn type: tag selects the kind; payload terms per kind."""

    def __init__(self, ty: Dyn, tag, payloads):
        self.ty, self.tag, self.payloads = ty, tag, list(payloads)  # payloads: list of lists


class VSeq(V):
    """list/tuple of symbolic length: parallel arrays (one per flattened
    component of the element type) + length.  Mutable cell (list.append)."""

    def __init__(self, elem: Ty, arrs, length, mutable=True):
        self.elem, self.arrs, self.length, self.mutable = elem, list(arrs), length, mutable

    def __repr__(self):
        return f"VSeq[{self.elem}](len={self.length})"


class VList(V):
    """python list/sequence of concrete length holding symbolic items (mutable cell)."""

    def __init__(self, items, mutable=True):
        self.items, self.mutable = list(items), mutable

    def __repr__(self):
        return f"VList({self.items})"


class VSet(V):
    def __init__(self, elem: Ty, arr):
        self.elem, self.arr = elem, arr


class VMap(V):
    """dict with symbolic keys: presence array + value arrays (flattened)."""

    def __init__(self, k: Ty, v: Ty, present, arrs):
        self.k, self.v, self.present, self.arrs = k, v, present, list(arrs)


class VDict(V):
    """dict with a concrete list of (key V, value V) entries (literals)."""

    def __init__(self, entries):
        self.entries = list(entries)


class VPy(V):
    """Opaque concrete python-level object: module, class, constant set, …
    `path` is the canonical dotted name when the object is a named thing."""

    def __init__(self, obj=None, path: str | None = None):
        self.obj, self.path = obj, path

    def __repr__(self):
        return f"VPy({self.path or self.obj!r})"


class VPoison(V):
    """a loop-carried variable whose type is unknown: any read is out-of-subset"""

    def __init__(self, name):
        self.name = name


class VFunc(V):
    def __init__(self, kind, name, **kw):
        self.kind, self.name = kind, name
        self.__dict__.update(kw)

    def __repr__(self):
        return f"VFunc({self.kind}:{self.name})"


# ------------------------------------------------------------------ pack / unpack


def pack(v: V, t: Ty) -> list:
    """Flatten value v (of type t) into z3 terms matching flat_sorts(t)."""
    if isinstance(t, _Int):
        if isinstance(v, VBool):
            return [z3.If(v.term, z3.IntVal(1), z3.IntVal(0))]
        assert isinstance(v, VInt), (v, t)
        return [v.term]
    if isinstance(t, Enum):
        assert isinstance(v, VEnum), (v, t)
        return [v.term]
    if isinstance(t, _Bool):
        assert isinstance(v, VBool), (v, t)
        return [v.term]
    if isinstance(t, _Str):
        assert isinstance(v, VStr), (v, t)
        return [v.term]
    if isinstance(t, _Real):
        if isinstance(v, VInt):
            return [z3.ToReal(v.term)]
        assert isinstance(v, VReal), (v, t)
        return [v.term]
    if isinstance(t, _NoneT):
        return []
    if isinstance(t, Ref):
        assert isinstance(v, VRef) and v.sort == t.sort, (v, t)
        return [v.term]
    if isinstance(t, Opt):
        if isinstance(t.t, Ref):
            if isinstance(v, VNone):
                return [null_of(t.t.sort)]
            assert isinstance(v, VRef) and v.sort == t.t.sort, (v, t)
            return [v.term]
        if isinstance(v, VNone):
            return [z3.BoolVal(True)] + [default_term(s) for s in flat_sorts(t.t)]
        if isinstance(v, VOpt):
            return [v.isnone] + pack(v.val, t.t)
        return [z3.BoolVal(False)] + pack(v, t.t)
    if isinstance(t, Tup):
        assert isinstance(v, VTuple) and len(v.items) == len(t.ts), (v, t)
        return list(itertools.chain.from_iterable(pack(x, tt) for x, tt in zip(v.items, t.ts)))
    if isinstance(t, Dyn):
        if isinstance(v, VDyn):
            return [v.tag] + list(itertools.chain.from_iterable(v.payloads))
        terms, tag = [], None
        for i, k in enumerate(t.kinds):
            sorts = _dyn_kind_sorts(k)
            hit = (
                (k == "int" and isinstance(v, VInt))
                or (k == "bool" and isinstance(v, VBool))
                or (k == "str" and isinstance(v, VStr))
                or (k == "none" and isinstance(v, VNone))
                or (k.startswith("ref:") and isinstance(v, VRef) and v.sort == k[4:])
            )
            if hit and tag is None:
                tag = i
                terms += [v.term] if sorts else []
            else:
                terms += [default_term(s) for s in sorts]
        assert tag is not None, (v, t)
        return [z3.IntVal(tag)] + terms
    if isinstance(t, Seq):
        assert isinstance(v, VSeq), (v, t)
        return list(v.arrs) + [v.length]
    if isinstance(t, SetT):
        assert isinstance(v, VSet), (v, t)
        return [v.arr]
    if isinstance(t, MapT):
        assert isinstance(v, VMap), (v, t)
        return [v.present] + list(v.arrs)
    raise TypeError(f"cannot pack {v} as {t}")


def default_term(sort):
    if sort == z3.IntSort():
        return z3.IntVal(0)
    if sort == z3.BoolSort():
        return z3.BoolVal(False)
    if sort == z3.StringSort():
        return z3.StringVal("")
    if sort == z3.RealSort():
        return z3.RealVal(0)
    return z3.FreshConst(sort, "dflt")


def unpack(t: Ty, terms: list) -> V:
    """Inverse of pack; consumes exactly len(flat_sorts(t)) terms."""
    v, rest = _unpack(t, list(terms))
    assert not rest
    return v


def _unpack(t: Ty, terms: list):
    if isinstance(t, _Int):
        return VInt(terms[0]), terms[1:]
    if isinstance(t, Enum):
        return VEnum(t.name, terms[0]), terms[1:]
    if isinstance(t, _Bool):
        return VBool(terms[0]), terms[1:]
    if isinstance(t, _Str):
        return VStr(terms[0]), terms[1:]
    if isinstance(t, _Real):
        return VReal(terms[0]), terms[1:]
    if isinstance(t, _NoneT):
        return NONE, terms
    if isinstance(t, Ref):
        return VRef(t.sort, terms[0], nullable=False), terms[1:]
    if isinstance(t, Opt):
        if isinstance(t.t, Ref):
            return VRef(t.t.sort, terms[0], nullable=True), terms[1:]
        inner, rest = _unpack(t.t, terms[1:])
        return VOpt(terms[0], inner), rest
    if isinstance(t, Tup):
        items = []
        for tt in t.ts:
            x, terms = _unpack(tt, terms)
            items.append(x)
        return VTuple(items), terms
    if isinstance(t, Dyn):
        tag, terms = terms[0], terms[1:]
        payloads = []
        for k in t.kinds:
            n = len(_dyn_kind_sorts(k))
            payloads.append(terms[:n])
            terms = terms[n:]
        return VDyn(t, tag, payloads), terms
    if isinstance(t, Seq):
        n = len(flat_sorts(t.t))
        return VSeq(t.t, terms[:n], terms[n]), terms[n + 1:]
    if isinstance(t, SetT):
        return VSet(t.t, terms[0]), terms[1:]
    if isinstance(t, MapT):
        n = len(flat_sorts(t.v))
        return VMap(t.k, t.v, terms[0], terms[1:1 + n]), terms[1 + n:]
    raise TypeError(f"cannot unpack {t}")


_counter = itertools.count()


def fresh_terms(t: Ty, name: str) -> list:
    return [z3.Const(f"{name}!{i}" if i else name, s) for i, s in enumerate(flat_sorts(t))]
