"""Statement execution, loops with invariants, try/finally, with, calls."""
from __future__ import annotations

import ast
import z3

from .vals import *  # noqa
from .core import *  # noqa
from . import source as S


class LoopSpec:
    def __init__(self, invariant=None, types=None, label=None, havoc_fields=(), variant=None, unroll=None, ghost_update=None, ghost_havoc=None, hints=None, heap_unchanged=False, assumed_summary=None, keep=()):
        # assumed_summary: text.  The loop is NOT executed: it is replaced by the assumed summary "either the loop leaves the heap and the
        # variables in `keep` untouched and falls through, or it fires (paths on which it fires are not checked)".  Reported as an assumption.
        self.assumed_summary, self.keep = assumed_summary, tuple(keep)
        self.heap_unchanged = heap_unchanged  # frame invariant "every iteration starts in the heap of loop entry": no heap havoc; obligation: a continuing iteration leaves the heap terms untouched
        self.hints = hints  # callable(LoopCtx) -> list of formulas: ground instances of assumed (definitional) axioms
        self.ghost_havoc = ghost_havoc  # callable(ex): havoc the ghost state the loop changes
        self.ghost_update = ghost_update  # callable(LoopCtx): runs at the end of each iteration (ghost code)
        self.invariant = invariant  # callable(LoopCtx) -> z3 Bool (or list of (name, Bool))
        self.types = types or {}
        self.label = label
        self.havoc_fields = list(havoc_fields)
        self.unroll = unroll


class LoopCtx:
    """What a loop invariant may talk about: current variables, the ghost
    iteration index (for-loops), the iterated sequence, the heap."""

    def __init__(self, ex, env, idx=None, seq=None, pre=None):
        self.ex, self.env, self.idx, self.seq, self.pre = ex, env, idx, seq, pre or {}
        self.phase = None  # "check" (inv-init / inv-step obligation) or "assume" (after havoc)

    def get(self, name):
        return self.env.lookup(name)

    def __getitem__(self, name):
        v = self.env.lookup(name)
        if v is None:
            raise S.ToolError(f"invariant refers to unbound name {name}")
        return v

    def old(self, name):
        return self.pre[name]


class StmtMixin:
    # ------------------------------------------------------------ blocks
    def ex_block(self, stmts, env):
        for st in stmts:
            self.ex(st, env)

    def ex(self, st, env):
        m = getattr(self, "ex_" + st.__class__.__name__, None)
        if m is None:
            raise OutOfSubset(f"statement {st.__class__.__name__} at line {st.lineno}")
        self.cur_line = getattr(st, "lineno", 0)
        return m(st, env)

    def ex_Pass(self, st, env):
        pass

    def ex_Expr(self, st, env):
        if isinstance(st.value, ast.Constant):
            return  # docstring
        if isinstance(st.value, ast.Yield):
            self.do_yield(st.value, env)
            return
        self.ev(st.value, env)

    def ex_Import(self, st, env):
        pass

    def ex_ImportFrom(self, st, env):
        mod = env.module
        for a in st.names:
            base = mod._abs(st.level, st.module) if mod is not None else (st.module or "")
            env.set(a.asname or a.name, self.world.resolve_path(self, f"{base}.{a.name}"))

    def ex_Global(self, st, env):
        raise OutOfSubset("global statement")

    def ex_Nonlocal(self, st, env):
        env.nonlocals.update(st.names)

    def ex_Return(self, st, env):
        raise ReturnSig(self.ev(st.value, env) if st.value is not None else NONE)

    def ex_Break(self, st, env):
        raise BreakSig()

    def ex_Continue(self, st, env):
        raise ContinueSig()

    def ex_Assert(self, st, env):
        if not self.test(st.test, env):
            raise PyRaise("AssertionError")

    def ex_Raise(self, st, env):
        if st.exc is None:
            if getattr(self, "active_exc", None):
                raise PyRaise(self.active_exc[-1])
            raise PyRaise("RuntimeError")
        e = st.exc
        call_args = None
        if isinstance(e, ast.Call):
            call_args = e
            e = e.func
        name = e.id if isinstance(e, ast.Name) else (e.attr if isinstance(e, ast.Attribute) else None)
        if name is None:
            raise OutOfSubset("raise of a computed exception")
        v = env.lookup(name)
        if isinstance(v, VPy) and isinstance(v.obj, tuple) and v.obj[0] == "exc":
            raise PyRaise(v.obj[1])  # re-raise of a caught exception object
        if call_args is not None:
            for a in call_args.args:  # message expressions may raise themselves
                try:
                    self.ev(a, env)
                except OutOfSubset:
                    pass
        if name not in EXC_PARENT:
            name = self.world.exception_class(env.module, name)
        raise PyRaise(name)

    def ex_If(self, st, env):
        if self.test(st.test, env):
            self.ex_block(st.body, env)
        else:
            self.ex_block(st.orelse, env)

    def ex_FunctionDef(self, st, env):
        # a nested def is addressed as <enclosing function>.<name>: a contract registered under that name is used at its call sites
        outer = self.frames[-1]["fid"].split(":", 1)[1] if self.frames and ":" in self.frames[-1].get("fid", "") else None
        f = VFunc("ast", st.name, node=st, env=env, module=env.module)
        if outer and not outer.startswith("<"):
            f.qual = f"{outer}.{st.name}"
        env.set(st.name, f)

    def ex_Delete(self, st, env):
        raise OutOfSubset("del")

    # ------------------------------------------------------------ assignment
    def ex_Assign(self, st, env):
        v = self.ev(st.value, env)
        lt = self.frames[-1].get("local_types") or {}
        if len(st.targets) == 1 and isinstance(st.targets[0], ast.Name) and st.targets[0].id in lt:
            v = self.coerce_to_annotation(v, lt[st.targets[0].id], declared=True)
        for t in st.targets:
            self.bind_target(t, v, env)

    def ex_AnnAssign(self, st, env):
        if st.value is None:
            return
        v = self.ev(st.value, env)
        lt = self.frames[-1].get("local_types") or {}
        declared = isinstance(st.target, ast.Name) and st.target.id in lt
        if declared:
            ty = lt[st.target.id]
        else:
            ty = self.world.annotation_type(self, st.annotation, env)
        v = self.coerce_to_annotation(v, ty, declared=declared)
        self.bind_target(st.target, v, env)
        if isinstance(st.target, ast.Name) and ty is not None:
            self.decl_types.setdefault(id(env), {})[st.target.id] = ty

    def coerce_to_annotation(self, v: V, ty, declared=False):
        """`x: List[int] = []` -> typed empty symbolic sequence; sets/dicts likewise."""
        if ty is None:
            return v
        if isinstance(v, VRef) and v.sort == "Opaque":
            nv = self.fresh("from_opaque", ty)  # a library result of a declared type: arbitrary value of that type
            self.assume_seq_lengths(nv)
            return self.force(nv)
        t = ty.t if isinstance(ty, Opt) else ty
        if isinstance(v, VList) and isinstance(t, Seq) and (declared or not v.items):
            return self.list_to_seq(v, t.t)
        if isinstance(t, SetT) and isinstance(v, VPy) and isinstance(v.obj, tuple) and v.obj[0] == "set":
            arr = z3.K(flat_sorts(t.t)[0], z3.BoolVal(False))
            for it in v.obj[1]:
                arr = z3.Store(arr, pack(it, t.t)[0], z3.BoolVal(True))
            return VSet(t.t, arr)
        if isinstance(t, MapT) and isinstance(v, VDict):
            m = self.empty_map(t)
            for kk, vv in v.entries:
                self.setitem(m, kk, vv)
            return m
        return v

    def empty_map(self, t: MapT) -> VMap:
        ks = key_sort(t.k)
        return VMap(t.k, t.v, z3.K(ks, z3.BoolVal(False)), [self.fresh_const("map0", z3.ArraySort(ks, s)) for s in flat_sorts(t.v)])

    def ex_AugAssign(self, st, env):
        cur = self.ev(st.target, env)
        rhs = self.ev(st.value, env)
        if isinstance(st.op, ast.Add) and isinstance(cur, VList) and isinstance(rhs, (VList, VTuple)):
            cur.items.extend(rhs.items)
            return
        v = self.binop(st.op, cur, rhs)
        self.bind_target(st.target, v, env)

    def bind_target(self, t, v: V, env):
        if isinstance(t, ast.Name):
            env.set(t.id, v)
        elif isinstance(t, (ast.Tuple, ast.List)):
            n = len(t.elts)
            if any(isinstance(e, ast.Starred) for e in t.elts):
                raise OutOfSubset("starred unpacking")
            if isinstance(v, (VTuple, VList)):
                if len(v.items) != n:
                    raise PyRaise("ValueError", "unpack arity")
                items = v.items
            elif isinstance(v, VSeq):
                if self.branch(v.length != n):
                    raise PyRaise("ValueError", "unpack arity")
                items = [self.seq_get(v, z3.IntVal(i)) for i in range(n)]
            elif isinstance(v, VNone):
                raise PyRaise("TypeError", "cannot unpack None")
            elif isinstance(v, VRef) and v.sort == "Opaque":
                from specs.opaque import fresh_opaque
                items = [fresh_opaque(self) for _ in range(n)]
            else:
                raise OutOfSubset(f"unpacking {v!r}")
            for e, x in zip(t.elts, items):
                self.bind_target(e, x, env)
        elif isinstance(t, ast.Subscript):
            base = self.ev(t.value, env)
            idx = self.ev(t.slice, env)
            self.setitem(base, idx, v)
        elif isinstance(t, ast.Attribute):
            base = self.ev(t.value, env)
            self.setattr(base, t.attr, v)
        else:
            raise OutOfSubset(f"assignment target {t.__class__.__name__}")

    def setitem(self, base: V, idx: V, v: V):
        if isinstance(base, VMap):
            k = self.map_key(base, idx)
            base.present = z3.Store(base.present, k, z3.BoolVal(True))
            base.arrs = [z3.Store(a, k, x) for a, x in zip(base.arrs, pack(v, base.v))]
            owner = getattr(base, "owner", None)
            if owner is not None:
                self.write_field(owner[0], owner[1], base)
            return
        if isinstance(base, VDict):
            for i, (k, _) in enumerate(base.entries):
                if self.branch(self.eq(idx, k)):
                    base.entries[i] = (k, v)
                    return
            base.entries.append((idx, v))
            return
        if isinstance(base, VList):
            it = z3.simplify(self.as_int_term(idx))
            if z3.is_int_value(it):
                base.items[it.as_long()] = v
                return
        if isinstance(base, VSeq):
            i = self.norm_index(self.as_int_term(idx), base.length)
            base.arrs = [z3.Store(a, i, x) for a, x in zip(base.arrs, pack(v, base.elem))]
            return
        if self.world.setitem_hook(self, base, idx, v):
            return
        raise OutOfSubset(f"item assignment on {base!r}")

    def setattr(self, base: V, attr: str, v: V):
        if isinstance(base, VRef):
            return self.world.ref_setattr(self, base, attr, v)
        raise OutOfSubset(f"attribute assignment on {base!r}")

    # ------------------------------------------------------------ loops
    def loop_ordinal(self, st):
        fr = self.frames[-1]
        for i, l in enumerate(fr["loops"]):
            if l is st:
                return i
        return None

    def loop_spec(self, st):
        fr = self.frames[-1]
        o = self.loop_ordinal(st)
        specs = fr.get("loop_specs") or {}
        return o, specs.get(o)

    def havoc_like(self, name: str, v: V, spec, env) -> V:
        ty = (spec.types if spec else {}).get(name)
        if ty is None:
            e = env
            while e is not None and ty is None:
                ty = self.decl_types.get(id(e), {}).get(name)
                e = e.parent
        if ty is not None:
            nv = self.fresh(f"{name}@L", ty)
            self.assume_seq_lengths(nv)
            return nv
        if isinstance(v, VInt):
            return self.fresh(f"{name}@L", Int)
        if isinstance(v, VBool):
            return self.fresh(f"{name}@L", Bool)
        if isinstance(v, VStr):
            return self.fresh(f"{name}@L", Str)
        if isinstance(v, VEnum):
            return self.fresh(f"{name}@L", Enum(v.enum))
        if isinstance(v, VRef):
            return self.fresh(f"{name}@L", Ref(v.sort))
        if isinstance(v, VSeq):
            s = self.fresh(f"{name}@L", Seq(v.elem))
            self.assume(s.length >= 0)
            s.mutable = v.mutable
            return s
        if isinstance(v, VSet):
            return self.fresh(f"{name}@L", SetT(v.elem))
        if isinstance(v, VMap):
            nm = self.fresh_name(f"{name}@L")
            ks = key_sort(v.k)
            return VMap(v.k, v.v, z3.Const(nm + "!p", z3.ArraySort(ks, z3.BoolSort())), [z3.Const(f"{nm}!{i}", z3.ArraySort(ks, s)) for i, s in enumerate(flat_sorts(v.v))])
        if isinstance(v, VTuple):
            return VTuple([self.havoc_like(f"{name}.{i}", x, None, env) for i, x in enumerate(v.items)])
        return VPoison(name)

    def assume_seq_lengths(self, v):
        if isinstance(v, VSeq):
            self.assume(v.length >= 0)
        elif isinstance(v, VTuple):
            for x in v.items:
                self.assume_seq_lengths(x)
        elif isinstance(v, VOpt):
            self.assume_seq_lengths(v.val)

    def havoc_loop_state(self, st, env, spec):
        body = st.body + st.orelse
        assigned = S.assigned_names(body)
        mutated = S.mutated_names(body)
        pre = {}
        if self.track_alloc:
            self.tick()
        for name in sorted(assigned | mutated):
            v = env.lookup(name)
            if v is None:
                continue
            if isinstance(v, (VFunc, VPy)):
                continue
            if isinstance(v, VRef) and name not in assigned:
                continue  # calling a method on an object does not rebind the name; its fields are havocked through the heap
            pre[name] = v
            if name in mutated and name not in assigned and isinstance(v, (VSeq, VSet, VMap)):
                # mutate the cell in place so that aliases see the havoc too
                nv = self.havoc_like(name, v, spec, env)
                if isinstance(v, VSeq):
                    pre[name] = VSeq(v.elem, list(v.arrs), v.length, v.mutable)
                    v.arrs, v.length = nv.arrs, nv.length
                elif isinstance(v, VSet):
                    pre[name] = VSet(v.elem, v.arr)
                    v.arr = nv.arr
                else:
                    pre[name] = VMap(v.k, v.v, v.present, list(v.arrs))
                    v.present, v.arrs = nv.present, nv.arrs
                continue
            if isinstance(v, VList) and name in mutated:
                raise OutOfSubset(f"loop mutates concrete list `{name}`; declare its type (line {st.lineno})")
            nv = self.force(self.havoc_like(name, v, spec, env))
            self.assume_allocated(nv)
            self.set_existing(env, name, nv)
        for (sort, field) in (spec.havoc_fields if spec else []):
            self.havoc_field(sort, field)
        if spec is not None and spec.ghost_havoc is not None:
            spec.ghost_havoc(self)
        if spec is not None and spec.heap_unchanged:
            self.ghost.setdefault("frame_snapshots", {})[id(st)] = (self.snapshot_heap(), self.ghost.get("heap_version"))
        else:
            self.world.havoc_heap_for_loop(self, body)
        return pre

    def check_heap_unchanged(self, st, spec, base):
        if spec is None or not spec.heap_unchanged:
            return
        snap, hv = self.ghost["frame_snapshots"][id(st)]
        same = True
        for key, arrs in self.heap.items():
            old = snap.get(key)
            if old is None:
                t = self.world.field_type(*key)
                old = [z3.Const(f"H0.{key[0]}.{key[1]}" + (f"!{i}" if i else ""), z3.ArraySort(ref_sort(key[0]), so)) for i, so in enumerate(flat_sorts(t))]
            if len(old) != len(arrs) or not all(a.eq(b) for a, b in zip(arrs, old)):
                same = False
        hv2 = self.ghost.get("heap_version")
        if (hv is None) != (hv2 is None) or (hv is not None and not hv.eq(hv2)):
            same = False
        self.oblige(f"{base}#inv-step:heap_untouched_by_continuing_iterations", "inv-step", z3.BoolVal(same))

    def set_existing(self, env, name, v):
        e = env
        while e is not None:
            if name in e.vars:
                e.vars[name] = v
                return
            e = e.parent
        env.vars[name] = v

    def body_may_write_heap(self, body) -> bool:
        for s in body:
            for n in ast.walk(s):
                if isinstance(n, ast.Call):
                    return True
                if isinstance(n, (ast.Assign, ast.AugAssign)):
                    tg = n.targets if isinstance(n, ast.Assign) else [n.target]
                    if any(isinstance(t, ast.Attribute) for t in tg):
                        return True
        return False

    def eval_inv(self, spec, lc):
        try:
            return spec.invariant(lc)
        except (OutOfSubset, Halt, PyRaise):
            raise
        except Exception as e:  # the invariant does not fit this loop's shape (refactored code): undecided, never a violation
            raise OutOfSubset(f"loop invariant `{spec.label}` not evaluable on the loop at line {self.cur_line}: {type(e).__name__}: {e}")

    def add_hints(self, spec, lc):
        if spec is not None and spec.hints is not None:
            for f in spec.hints(lc):
                self.assume(f)

    def check_inv(self, spec, lc, oid_base, kind):
        if spec is None or spec.invariant is None:
            return
        self.add_hints(spec, lc)
        lc.phase = kind
        res = self.eval_inv(spec, lc)
        items = res if isinstance(res, list) else [("inv", res)]
        for nm, f in items:
            self.oblige(f"{oid_base}#{kind}:{nm}", kind, f)

    def assume_inv(self, spec, lc):
        if spec is None or spec.invariant is None:
            return
        self.add_hints(spec, lc)
        lc.phase = "assume"
        res = self.eval_inv(spec, lc)
        items = res if isinstance(res, list) else [("inv", res)]
        for _, f in items:
            self.assume(f)

    def run_body(self, st, env) -> str:
        """returns 'next' | 'break'"""
        try:
            self.ex_block(st.body, env)
        except ContinueSig:
            return "next"
        except BreakSig:
            return "break"
        return "next"

    def summarise_loop(self, st, env, spec, base):
        self.assumptions_used.add(f"{base} is not executed: {spec.assumed_summary}")
        kept = {n: env.lookup(n) for n in spec.keep}
        self.havoc_loop_state(st, env, LoopSpec(heap_unchanged=True, types=spec.types))
        for n, v in kept.items():
            if v is not None:
                self.set_existing(env, n, v)

    def ex_While(self, st, env):
        o, spec = self.loop_spec(st)
        base = f"{self.frames[-1]['fid']}.loop{o}" + (f"[{spec.label}]" if spec and spec.label else "")
        if spec is not None and spec.assumed_summary:
            return self.summarise_loop(st, env, spec, base)
        unroll = spec.unroll if spec and spec.unroll else (self.frames[-1].get("unroll_while") or 0)
        if spec is None and unroll:
            for _ in range(unroll):
                if not self.test(st.test, env):
                    self.ex_block(st.orelse, env)
                    return
                if self.run_body(st, env) == "break":
                    return
            if self.test(st.test, env):
                raise OutOfSubset(f"while loop at line {st.lineno} exceeds unroll bound {unroll}")
            self.ex_block(st.orelse, env)
            return
        self.check_inv(spec, LoopCtx(self, env), base, "inv-init")
        pre = self.havoc_loop_state(st, env, spec)
        lc = LoopCtx(self, env, pre=pre)
        self.assume_inv(spec, lc)
        if self.test(st.test, env):
            if self.run_body(st, env) == "break":
                return
            self.check_inv(spec, LoopCtx(self, env, pre=pre), base, "inv-step")
            raise Halt()
        self.ex_block(st.orelse, env)

    def ex_For(self, st, env):
        o, spec = self.loop_spec(st)
        base = f"{self.frames[-1]['fid']}.loop{o}" + (f"[{spec.label}]" if spec and spec.label else "")
        if spec is not None and spec.assumed_summary:
            return self.summarise_loop(st, env, spec, base)
        it = self.ev_iterable(st.iter, env)
        if isinstance(it, list) and (spec is None or spec.invariant is None or len(it) <= 1):
            for item in it:
                self.bind_target(st.target, item, env)
                if self.run_body(st, env) == "break":
                    return
            self.ex_block(st.orelse, env)
            return
        if isinstance(it, list):
            it = self.to_seq(VList(it))
        if isinstance(it, VSet):
            return self.for_over_set(st, env, it, spec, base)
        seq: VSeq = it
        # snapshot of the iterated sequence (python iterates the object; the
        # repository never mutates a list it is iterating)
        seq = VSeq(seq.elem, list(seq.arrs), seq.length, False)
        self.check_inv(spec, LoopCtx(self, env, idx=z3.IntVal(0), seq=seq), base, "inv-init")
        pre = self.havoc_loop_state(st, env, spec)
        i = self.fresh_const(f"it{o}", z3.IntSort())
        self.assume(z3.And(i >= 0, i <= seq.length))
        self.assume_inv(spec, LoopCtx(self, env, idx=i, seq=seq, pre=pre))
        if self.branch(i < seq.length):
            self.bind_target(st.target, self.seq_get(seq, i), env)
            if self.run_body(st, env) == "break":
                return
            if spec is not None and spec.ghost_update is not None:
                spec.ghost_update(LoopCtx(self, env, idx=i, seq=seq, pre=pre))
            self.check_heap_unchanged(st, spec, base)
            self.check_inv(spec, LoopCtx(self, env, idx=i + 1, seq=seq, pre=pre), base, "inv-step")
            raise Halt()
        self.ex_block(st.orelse, env)

    def for_over_set(self, st, env, s: VSet, spec, base):
        """Iteration over a set: arbitrary order.  Ghost `visited` ⊆ s."""
        es = flat_sorts(s.elem)[0]
        empty = z3.K(es, z3.BoolVal(False))
        frozen = VSet(s.elem, s.arr)
        self.check_inv(spec, LoopCtx(self, env, idx=VSet(s.elem, empty), seq=frozen), base, "inv-init")
        pre = self.havoc_loop_state(st, env, spec)
        visited = self.fresh_const("visited", z3.ArraySort(es, z3.BoolSort()))
        y = z3.Const("y!vis", es)
        self.assume(z3.ForAll([y], z3.Implies(z3.Select(visited, y), z3.Select(frozen.arr, y))))
        self.assume_inv(spec, LoopCtx(self, env, idx=VSet(s.elem, visited), seq=frozen, pre=pre))
        x = self.fresh_const("pick", es)
        more = z3.And(z3.Select(frozen.arr, x), z3.Not(z3.Select(visited, x)))
        if self.branch(more):
            self.bind_target(st.target, self.force(unpack(s.elem, [x])), env)
            if self.run_body(st, env) == "break":
                return
            self.check_inv(spec, LoopCtx(self, env, idx=VSet(s.elem, z3.Store(visited, x, z3.BoolVal(True))), seq=frozen, pre=pre), base, "inv-step")
            raise Halt()
        # exit: nothing left to pick -> visited == s
        self.assume(z3.ForAll([y], z3.Select(visited, y) == z3.Select(frozen.arr, y)))
        self.ex_block(st.orelse, env)

    def ev_iterable(self, node, env):
        """list of items (concrete length) | VSeq | VSet"""
        if isinstance(node, ast.Call) and isinstance(node.func, ast.Name) and env.lookup(node.func.id) is None:
            f = node.func.id
            if f == "range":
                args = [self.as_int_term(self.ev(a, env)) for a in node.args]
                lo, hi = (z3.IntVal(0), args[0]) if len(args) == 1 else (args[0], args[1])
                if len(args) == 3:
                    raise OutOfSubset("range with step")
                n = z3.simplify(hi - lo)
                if z3.is_int_value(n) and n.as_long() <= 16:
                    return [VInt(z3.simplify(lo + k)) for k in range(max(0, n.as_long()))]
                k = z3.Int("k!rg")
                return VSeq(Int, [z3.Lambda([k], lo + k)], z3.If(hi > lo, hi - lo, 0), False)
            if f == "enumerate":
                inner = self.ev_iterable(node.args[0], env)
                if isinstance(inner, list):
                    return [VTuple([VInt(i), x]) for i, x in enumerate(inner)]
                if isinstance(inner, VSeq):
                    k = z3.Int("k!en")
                    return VSeq(Tup(Int, inner.elem), [z3.Lambda([k], k)] + list(inner.arrs), inner.length, False)
            if f == "zip":
                inners = [self.ev_iterable(a, env) for a in node.args]
                if all(isinstance(x, list) for x in inners):
                    return [VTuple(list(t)) for t in zip(*inners)]
                seqs = [self.to_seq(VList(x)) if isinstance(x, list) else x for x in inners]
                ln = seqs[0].length
                for s in seqs[1:]:
                    ln = z3.If(s.length < ln, s.length, ln)
                arrs = [a for s in seqs for a in s.arrs]
                return VSeq(Tup(*[s.elem for s in seqs]), arrs, ln, False)
            if f == "reversed":
                inner = self.ev_iterable(node.args[0], env)
                if isinstance(inner, list):
                    return list(reversed(inner))
                if isinstance(inner, VSeq):
                    k = z3.Int("k!rv")
                    return VSeq(inner.elem, [z3.Lambda([k], z3.Select(a, inner.length - 1 - k)) for a in inner.arrs], inner.length, False)
            if f in ("list", "tuple", "sorted") and len(node.args) == 1 and f != "sorted":
                return self.ev_iterable(node.args[0], env)
        v = self.ev(node, env)
        if isinstance(v, VSet):
            return v
        return self.iter_view(v)

    # ------------------------------------------------------------ try
    def ex_Try(self, st, env):
        outcome = None
        try:
            try:
                self.ex_block(st.body, env)
            except PyRaise as e:
                handled = False
                for h in st.handlers:
                    if self.handler_matches(h, e.cls, env):
                        handled = True
                        if h.name:
                            env.set(h.name, VPy(obj=("exc", e.cls)))
                        self.active_exc.append(e.cls)
                        try:
                            self.ex_block(h.body, env)
                        finally:
                            self.active_exc.pop()
                        break
                if not handled:
                    raise
            else:
                self.ex_block(st.orelse, env)
        except (PyRaise, ReturnSig, BreakSig, ContinueSig) as sig:
            outcome = sig
        if st.finalbody:
            self.ex_block(st.finalbody, env)  # a raise/return inside replaces the outcome
        if outcome is not None:
            raise outcome

    def handler_matches(self, h, cls: str, env) -> bool:
        if h.type is None:
            return True
        names = []
        ts = h.type.elts if isinstance(h.type, ast.Tuple) else [h.type]
        for t in ts:
            names.append(t.id if isinstance(t, ast.Name) else t.attr)
        for nm in names:
            if nm not in EXC_PARENT:
                nm = self.world.exception_class(env.module, nm)
            if exc_is(cls, nm):
                return True
            if cls == "AnyException" and exc_is(nm, "Exception") and nm != "Exception":
                # an arbitrary exception may or may not be an instance of nm
                if self.branch(z3.Bool(self.fresh_name(f"anyexc_is_{nm}"))):
                    return True
        return False

    # ------------------------------------------------------------ with / yield
    def ex_With(self, st, env):
        self.with_items(st.items, st.body, env)

    def with_items(self, items, body, env):
        if not items:
            self.ex_block(body, env)
            return
        item, rest = items[0], items[1:]

        def body_thunk(value):
            if item.optional_vars is not None:
                self.bind_target(item.optional_vars, value, env)
            self.with_items(rest, body, env)

        ce = item.context_expr
        if isinstance(ce, ast.Call):
            fn = self.ev(ce.func, env)
            args = [self.ev(a, env) for a in ce.args]
            kwargs = {k.arg: self.ev(k.value, env) for k in ce.keywords}
            return self.enter_cm(fn, args, kwargs, body_thunk, ce)
        cm = self.ev(ce, env)
        if not self.world.with_value(self, cm, body_thunk):
            raise OutOfSubset(f"with-statement over {cm!r}")

    def enter_cm(self, fn, args, kwargs, body_thunk, node):
        if isinstance(fn, VFunc) and fn.kind == "ast" and self.world.is_contextmanager(fn.node):
            c = self.world.contract_for(fn)
            if c is not None and c.cm_contract and not c.inline:
                return self.world.apply_cm_contract(self, c, fn, args, kwargs, body_thunk)
            # inline the generator: the with-body runs at the yield
            self.yield_handlers.append(lambda v: body_thunk(v))
            try:
                self.call_ast(fn, args, kwargs, generator=True)
            finally:
                self.yield_handlers.pop()
            return
        if self.world.with_call(self, fn, args, kwargs, body_thunk):
            return
        cm = self.call(fn, args, kwargs, node)
        if not self.world.with_value(self, cm, body_thunk):
            raise OutOfSubset(f"with-statement over {fn!r}")

    def do_yield(self, node, env):
        if not self.yield_handlers:
            raise OutOfSubset("yield outside a context-manager generator")
        v = self.ev(node.value, env) if node.value is not None else NONE
        h = self.yield_handlers[-1]
        # the handler runs with the *outer* handler stack (nested withs)
        self.yield_handlers.pop()
        try:
            h(v)
        finally:
            self.yield_handlers.append(h)

    # ------------------------------------------------------------ calls
    def call(self, fn: V, args, kwargs, node=None) -> V:
        if isinstance(fn, VFunc):
            if fn.kind == "builtin":
                return self.force(fn.impl(self, args, kwargs))
            if fn.kind == "method":
                return self.force(self.world.call_method(self, fn.recv, fn.name, args, kwargs))
            if fn.kind == "ast":
                c = self.world.contract_for(fn)
                root = self.frames[0].get("contract") if self.frames else None
                # contracts that hold only while one particular function is verified (e.g. an assumed summary of a helper whose
                # real contract is stated over another model of its argument): declared on the root contract, listed as assumed
                local = getattr(root, "local_contracts", None)
                if local:
                    lc_ = local.get(f"{fn.module.name}:{getattr(fn, 'qual', fn.name)}")
                    if lc_ is not None:
                        c = lc_
                inl = c is not None and (c.inline or (root is not None and root.inline_callees and not c.assumed and c is not root))
                if c is not None and not inl:
                    return self.force(self.world.apply_contract(self, c, args, kwargs, fn))
                if c is not None and c.requires:
                    # inlined callee: its precondition is still a call-site obligation
                    from .world import Ctx
                    bound = self.world.bind_contract_args(self, c, args, kwargs, fn)
                    for nm, f in c.requires:
                        self.oblige(f"{self.frames[-1]['fid']}#pre@{c.qual}:{nm}", "pre@site", f(Ctx(self, bound)), note=f"line {self.cur_line}")
                return self.force(self.call_ast(fn, args, kwargs))
            if fn.kind == "contract":
                return self.force(self.world.apply_contract(self, fn.contract, args, kwargs, fn))
        if isinstance(fn, VPy) and fn.path is not None:
            return self.force(self.world.call_path(self, fn.path, args, kwargs))
        if isinstance(fn, VRef) and hasattr(self.world, "call_ref"):
            r = self.world.call_ref(self, fn, args, kwargs)
            if r is not None:
                return self.force(r[0])
        raise OutOfSubset(f"call of {fn!r}")

    def bind_params(self, a: ast.arguments, args, kwargs, env, defenv, fname):
        pos = list(a.posonlyargs) + list(a.args)
        args = list(args)
        kwargs = dict(kwargs)
        ndef = len(a.defaults)
        for i, p in enumerate(pos):
            if i < len(args):
                env.vars[p.arg] = args[i]
            elif p.arg in kwargs:
                env.vars[p.arg] = kwargs.pop(p.arg)
            else:
                di = i - (len(pos) - ndef)
                if di < 0:
                    raise PyRaise("TypeError", f"{fname}: missing argument {p.arg}")
                env.vars[p.arg] = self.ev(a.defaults[di], defenv)
        extra = args[len(pos):]
        if a.vararg is not None:
            env.vars[a.vararg.arg] = VTuple(extra)
        elif extra:
            raise PyRaise("TypeError", f"{fname}: too many positional arguments")
        for p, d in zip(a.kwonlyargs, a.kw_defaults):
            if p.arg in kwargs:
                env.vars[p.arg] = kwargs.pop(p.arg)
            elif d is not None:
                env.vars[p.arg] = self.ev(d, defenv)
            else:
                raise PyRaise("TypeError", f"{fname}: missing keyword argument {p.arg}")
        if a.kwarg is not None:
            env.vars[a.kwarg.arg] = VDict([(VStr(k), v) for k, v in kwargs.items()])
        elif kwargs:
            raise PyRaise("TypeError", f"{fname}: unexpected keyword {sorted(kwargs)}")

    def call_ast(self, fn: VFunc, args, kwargs, generator=False) -> V:
        node = fn.node
        if len(self.frames) > 40:
            raise OutOfSubset("inlining depth > 40 (recursion without contract?)")
        env = Env(fn.env, module=fn.module)
        if getattr(fn, "self_obj", None) is not None:
            args = [fn.self_obj] + list(args)
        self.bind_params(node.args, args, kwargs, env, fn.env, fn.name)
        if isinstance(node, ast.Lambda):
            return self.ev(node.body, env)
        fid = f"{fn.module.name if fn.module else '?'}:{getattr(fn, 'qual', fn.name)}"
        cc = self.world.contract_for(fn)
        self.frames.append({"module": fn.module, "fid": fid, "loops": S.loops_of(node), "loop_specs": self.world.loop_specs_for(fn), "fn_node": node, "local_types": (cc.local_types if cc else {}), "unroll_while": (cc.unroll_while if cc else 0)})
        try:
            self.ex_block(node.body, env)
        except ReturnSig as r:
            return r.value
        finally:
            self.frames.pop()
        return NONE
