"""Verification of one function against its contract + obligation discharge."""
from __future__ import annotations

import os
import subprocess
import tempfile
import time
import traceback
import z3

from .vals import *  # noqa
from .core import *  # noqa
from .core import has_quantifier
from .world import World, Contract, Ctx, Exec
from . import source as S
from . import builtins as _b  # noqa: F401  (registers builtins)

Z3_TIMEOUT_MS = int(os.environ.get("PYVC_Z3_TIMEOUT_MS", "20000"))
CVC5_TIMEOUT_S = int(os.environ.get("PYVC_CVC5_TIMEOUT_S", "60"))
SLOW_BUDGET_S = int(os.environ.get("PYVC_SLOW_BUDGET_S", "150"))


class FnResult:
    def __init__(self, fid):
        self.fid = fid
        self.obls: list[dict] = []  # dict(oid, kind, status, backend, time, model, note, instances)
        self.paths = 0
        self.feasible_exits = 0
        self.error = None  # OutOfSubset text => UNDECIDED
        self.crash = None
        self.assumptions: list[str] = []
        self.time = 0.0
        self.sha = ""


def make_params(ex: Exec, c: Contract, node) -> dict:
    import ast
    a = node.args
    names = [p.arg for p in list(a.posonlyargs) + list(a.args) + list(a.kwonlyargs)]
    if a.vararg:
        names.append(a.vararg.arg)
    env_mod = S.load_module(c.module)
    out = {}
    anns = {p.arg: p.annotation for p in list(a.posonlyargs) + list(a.args) + list(a.kwonlyargs)}
    for nm in names:
        t = (c.params or {}).get(nm)
        if t is None and nm == "self" and c.self_type is not None:
            t = c.self_type
        if t is None and anns.get(nm) is not None:
            t = ex.world.annotation_type(ex, anns[nm], Env(module=env_mod))
        if t is None:
            raise S.ToolError(f"{c.fid}: no type for parameter {nm}")
        if isinstance(t, Const):
            out[nm] = t.obj
            continue
        v = ex.fresh(nm, t)
        ex.assume_enum_members(v)
        for s in _seqs_in(v):
            ex.assume(s.length >= 0)
        out[nm] = ex.force(v)
        ex.assume_allocated(out[nm])
    return out


def _seqs_in(v):
    if isinstance(v, VSeq):
        yield v
    elif isinstance(v, VTuple):
        for x in v.items:
            yield from _seqs_in(x)
    elif isinstance(v, VOpt):
        yield from _seqs_in(v.val)


def explore(ex: Exec, runner, max_paths=None):
    work = [[]]
    max_paths = max_paths or ex.MAX_PATHS
    while work:
        prefix = work.pop()
        ex.begin_path(prefix)
        ex.pending = []
        try:
            runner()
        except Halt:
            pass
        ex.paths_done += 1
        work.extend(ex.pending)
        if ex.paths_done > max_paths:
            raise OutOfSubset(f"more than {max_paths} paths")


def run_function(world: World, c: Contract) -> tuple[Exec, FnResult]:
    res = FnResult(c.fid)
    mod = S.load_module(c.module)
    res.sha = mod.sha
    node = mod.find(c.qual)
    ex = Exec(world)
    ex.track_alloc = bool(getattr(c, "track_alloc", False))
    ex.deep_feasibility = bool(getattr(c, "deep_feasibility", False))
    is_gen = world.is_contextmanager(node)

    def runner():
        env = Env(module=mod)
        params = make_params(ex, c, node)
        env.vars.update(params)
        ex.cur_params = params
        ex.frames.append({"module": mod, "fid": c.fid, "loops": S.loops_of(node), "loop_specs": c.loops, "fn_node": node, "contract": c, "unroll_while": c.unroll_while, "local_types": c.local_types})
        if c.ghost_init is not None:
            c.ghost_init(ex, env)
        cx = Ctx(ex, params)
        cx.env = env
        for nm, f in c.requires:
            ex.assume(f(cx))
        for nm, f in c.definitions:
            ex.assume(f(cx))
        if c.kind == "setup":
            pass
        old_heap = ex.snapshot_heap()
        if ex.track_alloc:
            ex.now()
        old_ghost = dict(ex.ghost)
        extra = {}
        if is_gen and c.kind == "contextmanager":
            ex.yield_handlers.append(lambda v: c.cm_body(ex, cx, v, extra))
        result, exc = NONE, None
        try:
            ex.ex_block(node.body, env)
        except ReturnSig as r:
            result = r.value
        except PyRaise as e:
            exc = e.cls
        except (BreakSig, ContinueSig):
            raise OutOfSubset("break/continue escaped function")
        res.feasible_exits += 1
        cx2 = Ctx(ex, params, result=result, exc=exc, old_heap=old_heap, old_ghost=old_ghost, extra=extra)
        cx2.env = env
        if exc is None:
            for nm, f in c.ensures:
                r = f(cx2)
                if isinstance(r, list):  # a clause may return several named conjuncts
                    for sub, g in r:
                        ex.oblige(f"{c.fid}#post:{nm}.{sub}", "post", g)
                else:
                    ex.oblige(f"{c.fid}#post:{nm}", "post", r)
        else:
            if c.raises is not None:
                ok = any(exc_is(exc, r) for r in c.raises)
                ex.oblige(f"{c.fid}#raises:only", "safe", z3.BoolVal(ok), note=f"raises {exc} (line {ex.cur_line})")
            for nm, f in c.exc_ensures:
                ex.oblige(f"{c.fid}#post-exc:{nm}", "post", f(cx2))
        ex.path_summaries.append((list(ex.decisions), exc))

    t0 = time.time()
    try:
        explore(ex, runner)
    except OutOfSubset as e:
        res.error = f"out-of-subset: {e}"
        if os.environ.get("PYVC_DEBUG"):
            traceback.print_exc()
    except S.ToolError:
        raise
    except PyRaise as e:
        res.crash = f"uncaught symbolic exception {e.cls} outside a function body"
    except Exception:
        res.crash = traceback.format_exc()
    res.paths = ex.paths_done
    res.time = time.time() - t0
    res.assumptions = sorted(ex.assumptions_used)
    return ex, res


# ------------------------------------------------------------------ discharge


def _check_z3(axioms, pc, goal, timeout_ms, mbqi=True):
    s = z3.Solver()
    s.set("timeout", timeout_ms)
    if not mbqi:
        s.set("smt.mbqi", False)
    for a in axioms:
        s.add(a)
    for p in pc:
        s.add(p)
    s.add(z3.Not(goal))
    r = s.check()
    return r, s


def _check_cvc5(solver: z3.Solver, timeout_s: int):
    smt = solver.to_smt2()
    logic = "(set-logic ALL)\n"
    with tempfile.NamedTemporaryFile("w", suffix=".smt2", delete=False) as f:
        f.write(logic + smt)
        path = f.name
    try:
        p = subprocess.run(["/usr/bin/cvc5", "--strings-exp", f"--tlimit={timeout_s * 1000}", path], capture_output=True, text=True, timeout=timeout_s + 10)
        out = p.stdout.strip().splitlines()
        return out[0] if out else "unknown"
    except Exception:
        return "unknown"
    finally:
        if os.environ.get("PYVC_KEEP_SMT"):
            print("kept", path)
        else:
            os.unlink(path)


def concretize(v, model):
    """python value of a symbolic value under a model (None if not possible)"""
    def ev(t):
        return model.eval(t, model_completion=True)
    if isinstance(v, VInt):
        return ev(v.term).as_long()
    if isinstance(v, VBool):
        return z3.is_true(ev(v.term))
    if isinstance(v, VReal):
        r = ev(v.term)
        try:
            return float(r.numerator_as_long()) / float(r.denominator_as_long())
        except Exception:
            return str(r)
    if isinstance(v, VStr):
        return ev(v.term).as_string()
    if isinstance(v, VNone):
        return None
    if isinstance(v, VEnum):
        return ev(v.term).as_long()
    if isinstance(v, VTuple):
        return tuple(concretize(x, model) for x in v.items)
    if isinstance(v, VList):
        return [concretize(x, model) for x in v.items]
    if isinstance(v, VSeq):
        n = ev(v.length).as_long()
        if n > 64:
            return None
        out = []
        for i in range(max(0, n)):
            out.append(concretize(unpack_concrete(v, i, model), model))
        return out
    if isinstance(v, VRef):
        return ("ref", v.sort, str(ev(v.term)))
    return None


def unpack_concrete(seq, i, model):
    terms = [model.eval(z3.Select(a, i), model_completion=True) for a in seq.arrs]
    x = unpack(seq.elem, terms)
    return _resolve_opt(x, model)


def _resolve_opt(x, model):
    if isinstance(x, VOpt):
        return NONE if z3.is_true(model.eval(x.isnone, model_completion=True)) else _resolve_opt(x.val, model)
    if isinstance(x, VRef) and x.nullable:
        return NONE if z3.is_true(model.eval(x.term == null_of(x.sort), model_completion=True)) else x
    if isinstance(x, VDyn):
        tag = model.eval(x.tag, model_completion=True).as_long()
        k = x.ty.kinds[tag] if 0 <= tag < len(x.ty.kinds) else x.ty.kinds[-1]
        p = x.payloads[min(max(tag, 0), len(x.ty.kinds) - 1)]
        return {"int": lambda: VInt(p[0]), "bool": lambda: VBool(p[0]), "str": lambda: VStr(p[0]), "none": lambda: NONE}.get(k, lambda: VRef(k[4:], p[0]))()
    if isinstance(x, VTuple):
        return VTuple([_resolve_opt(y, model) for y in x.items])
    return x


def _int_leaves(params):
    out = []

    def rec(v):
        if isinstance(v, VInt):
            out.append(v.term)
        elif isinstance(v, VTuple):
            for x in v.items:
                rec(x)
        elif isinstance(v, VSeq):
            out.append(v.length)
    for v in params.values():
        rec(v)
    return out


def ground_pow2_facts(world, upto=130):
    p = world._pow2
    return [p(k) == 2 ** k for k in range(upto + 1)]


def _instances(f, bound):
    """ground instances k = 0..bound-1 of a universally quantified hypothesis over one integer, plus
    `upper <= bound` for the guard `k < upper`.  Instances are implied by the hypothesis, so the result
    over-approximates: a model of it is only a *candidate* counterexample (to be replayed)."""
    if not (z3.is_quantifier(f) and f.is_forall() and f.num_vars() == 1 and f.var_sort(0) == z3.IntSort()):
        return None
    body = f.body()
    out = [z3.substitute_vars(body, z3.IntVal(j)) for j in range(bound)]
    k = z3.Var(0, z3.IntSort())
    stack, seen = [body], 0
    while stack and seen < 200:
        g = stack.pop()
        seen += 1
        if z3.is_app(g):
            if g.decl().kind() == z3.Z3_OP_LE and g.arg(1).eq(k) and not _mentions_var(g.arg(0)):   # upper <= k  (negated guard k < upper)
                out.append(g.arg(0) <= bound)
            elif g.decl().kind() == z3.Z3_OP_LT and g.arg(0).eq(k) and not _mentions_var(g.arg(1)):
                out.append(g.arg(1) <= bound)
            stack.extend(g.children())
    return out


def _mentions_var(t):
    stack = [t]
    while stack:
        g = stack.pop()
        if z3.is_var(g):
            return True
        if z3.is_app(g):
            stack.extend(g.children())
        elif z3.is_quantifier(g):
            return True
    return False


def bounded_candidate(ground, pc, formula, bound=3, timeout_ms=8000):
    hyps = []
    for p in pc:
        conj = p.children() if z3.is_and(p) else [p]
        for q in conj:
            if not has_quantifier(q):
                hyps.append(q)
                continue
            inst = _instances(q, bound)
            if inst is not None:
                hyps.extend(i for i in inst if not has_quantifier(i))
    r, s = _check_z3(ground, hyps, formula, timeout_ms)
    return (s.model() if r == z3.sat else None)


def discharge(world: World, ex: Exec, res: FnResult, use_cvc5=True, params_by_path=None):
    """Group obligation instances by id; an id is discharged iff every path
    instance is unsat.  sat/unknown instances go through a model-finding
    query (ground axioms only) whose model is a *candidate* to be replayed."""
    groups: dict[str, list] = {}
    for o in ex.obligations:
        groups.setdefault(o.oid, []).append(o)
    axioms = world.axioms()
    ground = [a for a in axioms if not z3.is_quantifier(a)] + ground_pow2_facts(world)
    slow_spent = [0.0]
    for oid, insts in groups.items():
        t0 = time.time()
        status, backend, model_info, note = "discharged", "z3", None, ""
        n_trivial = 0
        for o in insts:
            if z3.is_true(o.formula):
                n_trivial += 1
                continue
            quick = min(Z3_TIMEOUT_MS, 3000)
            has_q = len(ground) - 131 != len(axioms) or any(has_quantifier(p) for p in o.pc) or has_quantifier(o.formula)
            # 1. ground query (quantified axioms dropped): unsat here is unsat with them too
            r1, s1 = _check_z3(ground, o.pc, o.formula, quick)
            if r1 == z3.unsat:
                continue
            if r1 == z3.sat:
                # prefer a counter-model with small integers (inside the ground pow2 table)
                small = [z3.And(t >= -128, t <= 128) for t in _int_leaves(o.meta.get("params") or {})]
                if small:
                    rb, sb = _check_z3(ground + small, o.pc, o.formula, quick)
                    if rb == z3.sat:
                        s1 = sb
            # 2. full query, short budget; E-matching only first (z3's model-based quantifier instantiation can overrun its
            #    timeout by minutes on these formulas; `unsat` without it is just as sound)
            if has_q:
                r0, s0 = _check_z3(axioms, o.pc, o.formula, quick, mbqi=False)
                if r0 == z3.unsat:
                    continue
            r, s = _check_z3(axioms, o.pc, o.formula, quick) if len(ground) - 131 != len(axioms) else (r1, s1)
            if r == z3.unsat:
                continue
            if r == z3.sat or (r1 == z3.sat and not has_q):
                status = "refuted"
                model_info = {"model": (s.model() if r == z3.sat else s1.model()), "obl": o, "candidate_only": r != z3.sat}
                note = o.note
                break
            # stages 3-5 are slow; a function gets a fixed total budget for them, so that a broken function (many obligations
            # that no longer discharge) still yields its verdicts within the task deadline
            if slow_spent[0] > SLOW_BUDGET_S:
                status = "unknown"
                note = f"z3: {s.reason_unknown()}; slow-stage budget of {SLOW_BUDGET_S} s for this function exhausted; {o.note}"
                break
            t_slow = time.time()
            # 3. cvc5 on the full query (good at nonlinear integer arithmetic and strings)
            r2 = _check_cvc5(s, CVC5_TIMEOUT_S) if use_cvc5 else "unknown"
            if r2 == "unsat":
                backend = "cvc5"
                slow_spent[0] += time.time() - t_slow
                continue
            # 4. z3 with the full budget
            r3, s3 = _check_z3(axioms, o.pc, o.formula, Z3_TIMEOUT_MS)
            slow_spent[0] += time.time() - t_slow
            if r3 == z3.unsat:
                continue
            if r3 == z3.sat or r1 == z3.sat or r2 == "sat":
                status = "refuted"
                m = s3.model() if r3 == z3.sat else (s1.model() if r1 == z3.sat else None)
                model_info = {"model": m, "obl": o, "candidate_only": r3 != z3.sat}
                backend = "cvc5" if (r2 == "sat" and m is None) else "z3"
                note = o.note
                break
            # 5. candidate search on a bounded weakening of the hypotheses (never a proof, never a verdict by itself)
            t_slow = time.time()
            cm = bounded_candidate(ground, o.pc, o.formula)
            slow_spent[0] += time.time() - t_slow
            if cm is not None:
                status, backend = "refuted", "z3-bounded-candidate"
                model_info = {"model": cm, "obl": o, "candidate_only": True, "weakened": True}
                note = "candidate counter-model of a bounded weakening of the hypotheses; " + o.note
                break
            status = "unknown"
            note = f"z3: {s.reason_unknown()}; cvc5: {r2}; {o.note}"
            break
        res.obls.append({
            "oid": oid, "kind": insts[0].kind, "status": status, "backend": backend, "time": time.time() - t0,
            "instances": len(insts), "trivial": n_trivial, "note": note, "model_info": model_info,
        })


def vacuity_check(world: World, ex: Exec, res: FnResult):
    """At least one exit path must have a satisfiable path condition."""
    if res.feasible_exits == 0 and res.error is None and res.crash is None:
        res.crash = "vacuous: no path reaches an exit (contradictory requires or invariants?)"
