"""Regenerate /verif/MANIFEST.json from props.py (single source of truth)."""
import json, os, sys
sys.path.insert(0, "/verif")
import props

NA_FIXED = {
    "C01": "numerical agreement of two external float runtimes over ~600 plugin lowerings: no contract an integer/sequence VC generator can discharge states it (DESIGN §4.1)",
    "C10": "batching/differentiation rules are higher-order tracer functions; no first-order contract within reach (DESIGN §4.10)",
    "C14": "2-safety over hash seeds and process histories: a contract speaks about one call (DESIGN §4.14)",
    "C15": "equalities between artefacts of onnx_ir.to_proto/onnx.save/onnx.load; a proof would rest only on assumed library contracts (DESIGN §4.15)",
}
ALL = [f"C{i:02d}" for i in range(1, 20)]
checks, na = [], []
for pid in ALL:
    s = props.SPECS.get(pid)
    if s is None:
        na.append({"property_id": pid, "reason": NA_FIXED.get(pid, "claim planned in DESIGN.md but its contracts are not built in this revision; nothing is claimed")})
        continue
    checks.append({
        "property_id": pid,
        "quick_cmd": f"./check {pid} --tier quick",
        "thorough_cmd": f"./check {pid} --tier thorough",
        "evidence_file": f"/verif/evidence/{pid}.json",
        "replay_cmd_template": "./check replay {path}",
        "engine": "pyvc",
        "level_claimed": {"category": "proof", "text": s["level_text"], "design_ref": s.get("design_ref", "DESIGN.md §4")},
        "level_note": s["level_note"],
        "technique": s.get("technique", "contract-based deductive verification: VCs generated from the AST of the real functions, discharged by z3 (cvc5 for unknowns); counter-models replayed on the real code"),
    })
m = {
    "version": 1,
    "setup_cmd": "./setup.sh",
    "hooks": {"guard": "JAX2ONNX_VERIF", "enable": "none needed: contracts are sidecar files under /verif/contracts and the verifier re-reads /repo sources on every run; the guard variable is exported by ./check but no repository code reads it", "baseline_off_cmd": "cd /repo && /venv/bin/python -m pytest -ra -q -p no:cacheprovider --timeout=900 --continue-on-collection-errors", "source_commits": [], "add_only": True},
    "engines": [{"name": "pyvc", "path": "/verif/pyvc", "serves_properties": sorted(props.SPECS), "kind_free_text": "symbolic executor over the Python AST of the real repository functions (re-read from /repo on every run) generating verification conditions from sidecar contracts; z3 4.x/5.x python API with cvc5 CLI fallback; replay of counter-models on the imported real functions"}],
    "checks": checks,
    "not_applicable": na,
    "notes": "Exit codes: 0 held, 1 VIOLATION (replayed, or ledger obligation refuted: no-failing-input-found), 2 UNDECIDED (unknown/out-of-subset; never a violation), 3 checker error. Genuine defects repaired in /repo by fix: commits are recorded in known_findings.json as fixed entries.",
}
json.dump(m, open("/verif/MANIFEST.json", "w"), indent=1)
print("wrote MANIFEST:", [c["property_id"] for c in checks])
