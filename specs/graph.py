"""onnx_ir graph objects and numpy arrays as heap sorts with relational
contracts (DESIGN §3.4/§3.5).  Everything here is *assumed* and listed in the
trusted base; a thorough-tier conformance suite runs the same statements
against the installed onnx_ir / numpy.

Ghost semantics: `in_vals(v, e)` — the integer e is an element of the tensor
that value v holds at run time (for one arbitrary, fixed run of the model).
"""
from __future__ import annotations

import z3

from pyvc.vals import *  # noqa
from pyvc.core import *  # noqa
from pyvc.world import Contract, Ctx

NODE, VALUE, GRAPH, ATTR, ARR, SHAPE, TTYPE, DIM = "Node", "Value", "Graph", "Attr", "NdArray", "Shape", "TensorType", "SymDim"
MO = "jax2onnx.converter.ir_optimizations"
MG = "jax2onnx.converter.optimizer_graph_utils"

PRESERVING_OPS_SPEC = ("Expand", "Flatten", "Identity", "Reshape", "Squeeze", "Transpose", "Unsqueeze")


class GraphModel:
    def __init__(self, w):
        self.w = w
        f = w.fields
        f[(NODE, "op_type")] = Str
        f[(NODE, "domain")] = Str
        f[(NODE, "name")] = Opt(Str)
        f[(NODE, "inputs")] = Seq(Opt(Ref(VALUE)))
        f[(NODE, "outputs")] = Seq(Ref(VALUE))
        f[(VALUE, "name")] = Opt(Str)
        f[(VALUE, "dtype")] = Opt(Enum("DataType"))
        f[(ARR, "size")] = Int
        f[(ARR, "kind")] = Str
        f[(ARR, "ndim")] = Int
        w.ref_classes[NODE] = {"onnx_ir.Node"}
        w.ref_classes[VALUE] = {"onnx_ir.Value"}
        w.ref_classes[GRAPH] = {"onnx_ir.Graph"}
        w.ref_classes[ATTR] = {"onnx_ir.Attr"}
        w.ref_classes[ARR] = {"numpy.ndarray"}
        w.class_sorts.update({"onnx_ir.Node": NODE, "onnx_ir.Value": VALUE, "onnx_ir.Graph": GRAPH, "onnx_ir.Attr": ATTR})
        self.Node, self.Value, self.Arr = ref_sort(NODE), ref_sort(VALUE), ref_sort(ARR)
        self.in_vals = w.fn("in_vals", self.Value, z3.IntSort(), z3.BoolSort())
        self.arr_has = w.fn("arr_has", self.Arr, z3.IntSort(), z3.BoolSort())
        self.arr_first = w.fn("arr_first", self.Arr, z3.IntSort())
        self.arr_min = w.fn("arr_min", self.Arr, z3.IntSort())
        self.arr_max = w.fn("arr_max", self.Arr, z3.IntSort())
        a, e = z3.Const("a!ar", self.Arr), z3.Int("e!ar")
        w.add_axiom(z3.ForAll([a, e], z3.Implies(self.arr_has(a, e), z3.And(self.arr_min(a) <= e, e <= self.arr_max(a))), patterns=[self.arr_has(a, e)]))
        w.trust("numpy: for an integer array, every element lies between .min() and .max(); reshape(-1)[0] of a size-1 array is its only element")
        w.trust("onnx_ir object model: Node.op_type/domain/inputs/outputs, Value.name/dtype are plain attributes (specs/graph.py)")
        self._install_numpy()

    # ---------------------------------------------------------------- numpy
    def _install_numpy(self):
        w = self.w
        w.path_models["numpy.asarray"] = lambda ex, args, kw: args[0]

        def arr_method(ex, recv, name, args, kw):
            if not (isinstance(recv, VRef) and recv.sort == ARR):
                return None
            if name == "reshape":
                return (recv,)  # element multiset unchanged; only `flat` views are used
            if name == "min":
                return (VInt(self.arr_min(recv.term)),)
            if name == "max":
                return (VInt(self.arr_max(recv.term)),)
            if name == "tolist":
                raise OutOfSubset("ndarray.tolist")
            return None
        w.method_hooks.append(arr_method)
        w.known_methods = set(getattr(w, "known_methods", set())) | {(ARR, "reshape"), (ARR, "min"), (ARR, "max"), (ARR, "tolist")}

        def arr_getitem(ex, base, idx):
            if isinstance(base, VRef) and base.sort == ARR:
                it = ex.as_int_term(idx)
                if it is None:
                    return None
                if ex.branch(z3.Or(it < -ex.read_field(base, "size").term, it >= ex.read_field(base, "size").term)):
                    raise PyRaise("IndexError")
                its = z3.simplify(it)
                if z3.is_int_value(its) and its.as_long() == 0:
                    return VInt(self.arr_first(base.term))
                raise OutOfSubset("ndarray index other than [0]")
            return None
        w.getitem_hooks.append(arr_getitem)

        def int_hook(ex, v):
            return None
        w.fields[(ARR, "dtype")] = Ref("NpDtype")
        w.fields[("NpDtype", "kind")] = Str

    # ---------------------------------------------------------------- heap views
    def arrays(self, ex, sort, field):
        return ex.heap_arrays(sort, field)

    def op_type(self, ex, n):
        return z3.Select(self.arrays(ex, NODE, "op_type")[0], n)

    def domain(self, ex, n):
        return z3.Select(self.arrays(ex, NODE, "domain")[0], n)

    def n_inputs(self, ex, n):
        return z3.Select(self.arrays(ex, NODE, "inputs")[1], n)

    def input(self, ex, n, i):
        return z3.Select(z3.Select(self.arrays(ex, NODE, "inputs")[0], n), i)

    def n_outputs(self, ex, n):
        return z3.Select(self.arrays(ex, NODE, "outputs")[1], n)

    def output(self, ex, n, i):
        return z3.Select(z3.Select(self.arrays(ex, NODE, "outputs")[0], n), i)

    def produces(self, ex, n, v):
        i = z3.Int("i!pr")
        return z3.Exists([i], z3.And(0 <= i, i < self.n_outputs(ex, n), self.output(ex, n, i) == v))

    # ---------------------------------------------------------------- semantic axioms (A12, A13)
    def axiom_value_preserving_ops(self, ex):
        """A13: for the shape-only operators of the ONNX default domain, every
        element of the output is an element of input 0."""
        n, v, e = z3.Const("n!a13", self.Node), z3.Const("v!a13", self.Value), z3.Int("e!a13")
        op = self.op_type(ex, n)
        is_pres = z3.Or([op == z3.StringVal(o) for o in PRESERVING_OPS_SPEC])
        return z3.ForAll([n, v, e], z3.Implies(
            z3.And(self.produces(ex, n, v), is_pres, self.domain(ex, n) == z3.StringVal(""), self.n_inputs(ex, n) >= 1, self.in_vals(v, e)),
            self.in_vals(self.input(ex, n, 0), e)))

    def axiom_range(self, ex):
        """A12: Range(start, limit, delta) emits start + i*delta (i >= 0) while the
        value is on the start side of the exclusive limit."""
        n, v, e = z3.Const("n!a12", self.Node), z3.Const("v!a12", self.Value), z3.Int("e!a12")
        i, s, l, d = z3.Ints("i!a12 s!a12 l!a12 d!a12")
        return z3.ForAll([n, v, e], z3.Implies(
            z3.And(self.produces(ex, n, v), self.op_type(ex, n) == z3.StringVal("Range"), self.domain(ex, n) == z3.StringVal(""), self.n_inputs(ex, n) >= 3, self.in_vals(v, e)),
            z3.Exists([i, s, l, d], z3.And(
                i >= 0, self.in_vals(self.input(ex, n, 0), s), self.in_vals(self.input(ex, n, 1), l), self.in_vals(self.input(ex, n, 2), d),
                e == s + i * d, z3.Implies(d > 0, e < l), z3.Implies(d < 0, e > l), d != 0))))


def register(w):
    if getattr(w, "graph", None) is not None:
        return w.graph
    G = GraphModel(w)
    w.graph = G
    w.trust("A12 Range semantics, A13 value-set monotonicity of Expand/Flatten/Identity/Reshape/Squeeze/Transpose/Unsqueeze (ONNX operator documentation)")

    # ---- assumed contracts of graph helpers -------------------------------------
    def post_to_numpy(c: Ctx):
        r, x = c.result, c["x"]
        if isinstance(r, VNone) or not (isinstance(x, VRef) and x.sort == VALUE):
            return z3.BoolVal(True)
        e = z3.Int("e!tn")
        size = c.field(r, "size").term
        return z3.And(
            size >= 0,
            z3.ForAll([e], z3.Implies(G.in_vals(x.term, e), G.arr_has(r.term, e))),
            z3.Implies(size == 1, z3.ForAll([e], z3.Implies(G.arr_has(r.term, e), e == G.arr_first(r.term)))),
        )

    w.add_contract(Contract(
        f"{MO}:_to_numpy_from_any", params={"x": Opt(Ref(VALUE))}, ret=Opt(Ref(ARR)), uf=True, reads_heap=True, assumed=True,
        ensures=[("constant_payload_is_runtime_value", post_to_numpy)],
        note="a Value for which a numpy payload is found is a compile-time constant: its run-time elements are the payload's elements",
    ))

    def post_producer(c: Ctx):
        r, v = c.result, c["value_or_name"]
        if isinstance(v, VNone):
            return z3.BoolVal(isinstance(r, VNone))      # no value: no producer
        if isinstance(r, VNone) and isinstance(v, VRef):
            # None only when no node of `nodes` has the value among its outputs (the fallback scans every node of the list)
            nodes = c["nodes"]
            k = z3.Int("k!pn0")
            return z3.ForAll([k], z3.Implies(z3.And(0 <= k, k < nodes.length), z3.Not(G.produces(c.ex, z3.Select(nodes.arrs[0], k), v.term))))
        if isinstance(r, VNone) or not isinstance(v, VRef):
            return z3.BoolVal(True)
        nodes = c["nodes"]
        k = z3.Int("k!pn")
        in_nodes = z3.Exists([k], z3.And(0 <= k, k < nodes.length, z3.Select(nodes.arrs[0], k) == r.term))
        return z3.And(G.produces(c.ex, r.term, v.term), in_nodes)

    w.add_contract(Contract(
        f"{MG}:_producer_node", params={"nodes": Seq(Ref(NODE)), "value_or_name": Opt(Ref(VALUE))}, ret=Opt(Ref(NODE)), uf=True, reads_heap=True, assumed=True,
        ensures=[("result_produces_value", post_producer)],
        note="returns a node of `nodes` having the value among its outputs (value names are unique after NameFixPass), or None",
    ))
    return G


# =====================================================================
# Mutations of the graph (events) and the helper queries the optimizer passes use
# =====================================================================
def install_mutations(w):
    if getattr(w, "_graph_mut", False):
        return
    w._graph_mut = True
    G = register(w)
    from specs import ctxmodel
    M = ctxmodel.register(w)
    from specs.opaque import OPQ, fresh_opaque
    import specs.opaque as opaque
    opaque.install(w)
    sel = z3.Select
    w.fields[(GRAPH, "nodes")] = Seq(Ref(NODE))
    w.fields[(GRAPH, "outputs")] = Seq(Ref(VALUE))
    w.fields[(GRAPH, "inputs")] = Seq(Ref(VALUE))
    w.fields[(VALUE, "const_value")] = Opt(Ref(OPQ))
    w.lenient_sorts = set(getattr(w, "lenient_sorts", set())) | {NODE, GRAPH}

    def bump(ex):
        ex.ghost["heap_version"] = ex.fresh_const("hv", z3.IntSort())

    def ev(ex, *rec):
        ex.events.append(("mut",) + rec + ({"hv": ex.ghost.get("heap_version", z3.IntVal(0)), "now": (ex.now() if ex.track_alloc else None)}, ex.cur_line))

    # list(graph) / iteration over a graph: its node list
    def iter_hook(ex, it):
        if isinstance(it, VRef) and it.sort == GRAPH:
            s = ex.read_field(it, "nodes")
            ex.assume(s.length >= 0)
            return s
        return None
    w.iter_hooks.append(iter_hook)

    def method_hook(ex, recv, name, args, kw):
        if isinstance(recv, VRef) and recv.sort == NODE and name == "replace_input_with":
            idx, val = args
            ins = ex.read_field(recv, "inputs")
            it = ex.as_int_term(idx)
            if ex.branch(z3.Or(it < 0, it >= ins.length)):
                raise PyRaise("ValueError", "replace_input_with: index out of range")
            ev(ex, "replace_input", recv, it, val, ex.snapshot_heap())
            ins.arrs = [z3.Store(ins.arrs[0], it, val.term if isinstance(val, VRef) else null_of(VALUE))]
            ex.write_field(recv, "inputs", ins)
            bump(ex)
            return (NONE,)
        if isinstance(recv, VRef) and recv.sort == GRAPH and name == "insert_before" and len(args) == 2:
            ev(ex, "insert_before", recv, args[0], args[1], ex.snapshot_heap())
            ex.havoc_field(GRAPH, "nodes")
            bump(ex)
            return (NONE,)
        if isinstance(recv, VRef) and recv.sort == GRAPH and name == "remove":
            nodes = args[0]
            items = ex.as_concrete_items(nodes) if isinstance(nodes, (VList, VTuple)) else ([nodes] if isinstance(nodes, VRef) else None)
            if items is None:
                ev(ex, "remove_many", recv, nodes, ex.snapshot_heap())
            else:
                for n in items:
                    ev(ex, "remove", recv, n, ex.snapshot_heap())
            ex.havoc_field(GRAPH, "nodes")
            bump(ex)
            return (NONE,)
        return None
    w.method_hooks.append(method_hook)
    w.known_methods = set(getattr(w, "known_methods", set())) | {(NODE, "replace_input_with"), (GRAPH, "remove"), (GRAPH, "insert_before")}
    w.method_effects = dict(getattr(w, "method_effects", {}))
    w.method_effects.update({"replace_input_with": [(NODE, "inputs")], "remove": [(GRAPH, "nodes")], "insert_before": [(GRAPH, "nodes")]})

    def hv(ex):
        return ex.ghost.get("heap_version", z3.IntVal(0))

    def rauw(ex, args, kw):
        a, b = args[0], args[1]
        flag = kw.get("replace_graph_outputs", VBool(False))
        ev(ex, "rauw", a, b, flag, ex.snapshot_heap())
        # every use of a (node inputs, graph outputs when asked) now reads b
        arrs = ex.heap_arrays(NODE, "inputs")
        n, i = z3.Const("n!rw", ref_sort(NODE)), z3.Int("i!rw")
        new = z3.Lambda([n], z3.Lambda([i], z3.If(sel(sel(arrs[0], n), i) == a.term, b.term, sel(sel(arrs[0], n), i))))
        ex.heap[(NODE, "inputs")] = [new, arrs[1]]
        o = ex.heap_arrays(GRAPH, "outputs")
        g = z3.Const("g!rw", ref_sort(GRAPH))
        newo = z3.Lambda([g], z3.Lambda([i], z3.If(z3.And(ex.truthy(flag), sel(sel(o[0], g), i) == a.term), b.term, sel(sel(o[0], g), i))))
        ex.heap[(GRAPH, "outputs")] = [newo, o[1]]
        hv_old = hv(ex)
        bump(ex)
        for h in getattr(w, "rauw_frame_hooks", ()):
            h(ex, a, b, hv_old, hv(ex))
        return NONE
    w.path_models["onnx_ir.convenience.replace_all_uses_with"] = rauw
    w.method_effects["replace_all_uses_with"] = [(NODE, "inputs"), (GRAPH, "outputs")]

    # node.attributes: reads through the assumed helper contracts, writes are events
    def attrs_getattr(ex, base, attr):
        if base.sort == NODE and attr == "attributes":
            return VPy(obj=("node_attributes", base))
        if base.sort == GRAPH and attr == "initializers":
            return VPy(obj=("graph_initializers", base))
        return None
    w.ref_getattr_hooks.insert(0, attrs_getattr)

    def setitem_hook(ex, base, idx, v):
        if isinstance(base, VPy) and isinstance(base.obj, tuple) and base.obj and base.obj[0] == "node_attributes":
            ev(ex, "set_attr", base.obj[1], idx, v, ex.snapshot_heap())
            bump(ex)
            return True
        return False
    w.setitem_hooks.append(setitem_hook)

    def method_hook2(ex, recv, name, args, kw):
        if isinstance(recv, VPy) and isinstance(recv.obj, tuple) and recv.obj and recv.obj[0] == "graph_initializers" and name == "add":
            ev(ex, "add_initializer", recv.obj[1], args[0], ex.snapshot_heap())
            return (NONE,)
        return None
    w.method_hooks.append(method_hook2)

    w.path_models["onnx_ir.tensor"] = lambda ex, args, kw: _tensor_of(ex, args[0])
    w.path_models["numpy.array"] = lambda ex, args, kw: args[0]

    def _tensor_of(ex, payload):
        t = fresh_opaque(ex)
        t.payload = payload
        return t

    # metadata writes are events too (C08)
    orig_setattr = w.ref_setattr

    def ref_setattr(ex, base, attr, v):
        if base.sort == VALUE and attr in ("shape", "type", "const_value"):
            ev(ex, "set_meta", base, attr, v, ex.snapshot_heap())
            if attr == "const_value":
                base_payload = getattr(v, "payload", None)
                ex.ghost.setdefault("const_payloads", {})[str(base.term)] = base_payload
        return orig_setattr(ex, base, attr, v)
    w.ref_setattr = ref_setattr

    # ---- helper queries: assumed relational contracts (pure functions of the heap at call time)
    V, N = ref_sort(VALUE), ref_sort(NODE)
    perm_len = w.fn("perm_len", N, z3.IntSort(), z3.IntSort())          # (node, heap version)
    perm_at = w.fn("perm_at", N, z3.IntSort(), z3.IntSort(), z3.IntSort())

    def hv(ex):
        return ex.ghost.get("heap_version", z3.IntVal(0))
    w.graph_hv = hv

    def post_perm(c: Ctx):
        r = c.result
        if isinstance(r, VNone):
            return z3.BoolVal(True)
        n = c["node"].term
        k = z3.Int("k!pm")
        h = hv(c.ex)
        return z3.And(r.length == perm_len(n, h), r.length >= 0,
                      z3.ForAll([k], z3.Implies(z3.And(0 <= k, k < r.length), z3.And(sel(r.arrs[0], k) == perm_at(n, h, k), 0 <= sel(r.arrs[0], k), sel(r.arrs[0], k) < r.length))))
    for nm in ("_transpose_perm", "_get_perm_attr"):
        w.add_contract(Contract(f"{MO}:{nm}", params={"node": Ref(NODE)}, ret=Opt(Seq(Int)), assumed=True, ensures=[("is_the_perm_attribute", post_perm)],
                                note="the INTS attribute `perm` of the node: a valid permutation of 0..rank-1 (ONNX validity of input graphs), or None"))
    w.graph_perm = (perm_len, perm_at)

    consumers_in = w.fn("is_consumer_in_nodes", N, V, z3.IntSort(), z3.BoolSort())

    def reads(ex, n, v):
        i = z3.Int("i!rd")
        arrs = ex.heap_arrays(NODE, "inputs")
        return z3.Exists([i], z3.And(0 <= i, i < sel(arrs[1], n), sel(sel(arrs[0], n), i) == v))
    w.graph_reads = reads

    def post_consumers(c: Ctx):
        v = c["value_or_name"]
        r = c.result
        if isinstance(v, VNone):
            return r.length == 0
        ex = c.ex
        nodes = c["nodes"]
        n, k = z3.Const("n!cs", N), z3.Int("k!cs")
        j = z3.Int("j!cs")
        in_nodes = lambda t: z3.Exists([j], z3.And(0 <= j, j < nodes.length, sel(nodes.arrs[0], j) == t))  # noqa: E731
        # "exactly the nodes of `nodes` reading the value", written with a Skolem function (position of a consumer in the
        # result) so that instantiation is triggered by ground terms: equivalent to  forall n. (n in result) == (n in nodes and n reads v)
        pos = z3.Function(ex.fresh_name("consumer_pos"), N, z3.IntSort())
        ins_len = ex.heap_arrays(NODE, "inputs")[1]
        rr = z3.Const(ex.fresh_name("consumers"), r.arrs[0].sort())      # alias: the result term may contain ite, which z3 rejects in patterns
        ex.assume(rr == r.arrs[0])
        r_k = sel(rr, k)
        def forall(vs, body, pats):
            try:
                return z3.ForAll(vs, body, patterns=pats)
            except z3.Z3Exception:      # a pattern z3 rejects (e.g. over a lambda-defined array): let it choose
                return z3.ForAll(vs, body)
        return z3.And(r.length >= 0,
                      forall([k], z3.Implies(z3.And(0 <= k, k < r.length), z3.And(in_nodes(r_k), reads(ex, r_k, v.term))), [r_k]),
                      forall([n], z3.Implies(z3.And(in_nodes(n), reads(ex, n, v.term)), z3.And(0 <= pos(n), pos(n) < r.length, sel(rr, pos(n)) == n)), [sel(ins_len, n), pos(n)]))
    w.add_contract(Contract(f"{MG}:_consumer_nodes", params={"nodes": Seq(Ref(NODE)), "value_or_name": Opt(Ref(VALUE))}, ret=Seq(Ref(NODE)), assumed=True, uf=True, reads_heap=True,
                            ensures=[("exactly_the_nodes_reading_the_value", post_consumers)],
                            note="the nodes of `nodes` that have the value among their inputs (value names are unique after NameFixPass, so the name-based fallback agrees)"))

    attr_int = w.fn("attr_as_int", ref_sort(ATTR), z3.IntSort())
    attr_of = w.fn("attr_of", N, z3.StringSort(), z3.IntSort(), ref_sort(ATTR))     # (node, name, heap version); null when absent
    w.add_contract(Contract(f"{MO}:_get_attr", params={"node": Ref(NODE), "name": Str}, ret=Opt(Ref(ATTR)), assumed=True,
                            ensures=[("is_the_named_attribute", lambda c: (attr_of(c["node"].term, c["name"].term, hv(c.ex)) == null_of(ATTR)) if isinstance(c.result, VNone) else (c.result.term == attr_of(c["node"].term, c["name"].term, hv(c.ex))))],
                            note="node.attributes.get(name) if it is an ir.Attr, else None"))
    w.graph_attr_of = attr_of
    w.add_contract(Contract(f"{MO}:_attr_to_int", params={"attr": Opt(Ref(ATTR))}, ret=Opt(Int), assumed=True,
                            ensures=[("is", lambda c: z3.BoolVal(isinstance(c.result, VNone)) if isinstance(c["attr"], VNone) else (z3.BoolVal(True) if isinstance(c.result, VNone) else c.result.term == attr_int(c["attr"].term)))],
                            note="integer payload of an INT/INTS attribute"))
    w.fields[(ATTR, "type")] = Enum("AttributeType")
    attr_ints_len = w.fn("attr_ints_len", ref_sort(ATTR), z3.IntSort())
    attr_ints_at = w.fn("attr_ints_at", ref_sort(ATTR), z3.IntSort(), z3.IntSort())

    def attr_methods(ex, recv, name, args, kw):
        if isinstance(recv, VRef) and recv.sort == ATTR and name == "as_ints" and not args:
            r = ex.fresh("as_ints", Seq(Int))
            k = z3.Int("k!ai")
            ex.assume(z3.And(r.length == attr_ints_len(recv.term), r.length >= 0))
            ex.assume(z3.ForAll([k], z3.Implies(z3.And(0 <= k, k < r.length), sel(r.arrs[0], k) == attr_ints_at(recv.term, k))))
            return (r,)
        return None
    w.method_hooks.append(attr_methods)
    w.known_methods = set(getattr(w, "known_methods", set())) | {(ATTR, "as_ints")}
    w.graph_attr_ints = (attr_ints_len, attr_ints_at)
    w.trust("onnx_ir.Attr: .type is the AttributeType tag, .as_ints() returns the INTS payload (a pure function of the attribute object)")
    const_len = w.fn("const_ints_len", V, z3.IntSort(), z3.IntSort())
    const_at = w.fn("const_ints_at", V, z3.IntSort(), z3.IntSort(), z3.IntSort())

    def post_const_ints(c: Ctx):
        r, v = c.result, c["val"]
        if isinstance(v, VNone):
            return z3.BoolVal(isinstance(r, VNone))
        if isinstance(r, VNone):
            return z3.BoolVal(True)
        k = z3.Int("k!ci")
        h = hv(c.ex)
        return z3.And(r.length == const_len(v.term, h), r.length >= 0, z3.ForAll([k], z3.Implies(z3.And(0 <= k, k < r.length), sel(r.arrs[0], k) == const_at(v.term, h, k))))
    w.add_contract(Contract(f"{MO}:_value_const_ints", params={"val": Opt(Ref(VALUE))}, ret=Opt(Seq(Int)), assumed=True, ensures=[("is_the_constant_payload", post_const_ints)],
                            note="the integer payload of a compile-time constant value, flattened; None for non-constants"))
    w.graph_const = (const_len, const_at)
    w.graph_attr_int = attr_int
