"""module-level @onnx_function definitions used by witnesses (the decorator needs importable, module-level targets)"""
import jax
from flax import nnx
from jax2onnx import onnx_function


@onnx_function
class NormBlock(nnx.Module):
    def __init__(self):
        self.norm = nnx.RMSNorm(4, rngs=nnx.Rngs(0))

    def __call__(self, x):
        return self.norm(x) * 2.0


@onnx_function
def silu_act(x):
    return jax.nn.silu(x) + 1.0


@onnx_function
def scale_by_tenth(x):
    return x * 0.1 + 0.3

import numpy as _np
_W64 = _np.asarray([0.1, 0.2, 0.3], dtype=_np.float64)


@onnx_function
def add_np64_const(x):
    return x + _W64


@onnx_function
class Project(nnx.Module):
    def __init__(self, din, dout):
        self.lin = nnx.Linear(din, dout, rngs=nnx.Rngs(0))

    def __call__(self, x):
        return self.lin(x)


@onnx_function
class Outer(nnx.Module):
    def __init__(self):
        self.p = Project(3, 4)

    def __call__(self, x):
        return self.p(x) * 2.0


import jax.numpy as jnp


def leaky(slope):
    def act(x):
        return jnp.where(x > 0, x, slope * x)
    return act


@onnx_function(unique=True)
class UniqueBlock(nnx.Module):
    def __init__(self, act, scale=1.0):
        self.linear = nnx.Linear(4, 4, rngs=nnx.Rngs(0))
        self.act = act
        self.scale = scale

    def __call__(self, x):
        return self.act(self.linear(x)) * self.scale


@onnx_function
def scaled(x, *, k=2.0):
    return x * k


@onnx_function
def poly_cfg(x, *, cfg):
    return x * cfg[0][0] + cfg[0][1] + cfg[1][0]


@onnx_function
def ident_fn(x):
    return x


# two different targets given the same display name (documented `type=` override)
@onnx_function(type="Block")
def block_scale(x):
    return x * 3.0 + 1.0


@onnx_function(type="Block")
def block_mix(x, y):
    return x * y - 2.0


@onnx_function
def near_equal_literals(x):
    return (x + 1.0) * 1.000000001 - 3.14159265 + 3.141592653589793


@onnx_function
def scale_by_count(y, *, n):
    # `n` is a (possibly symbolic) dimension handed in by value: no input of this function carries it
    import jax.numpy as jnp
    return y * jnp.arange(3, dtype=y.dtype) * n


@onnx_function
def batch_cond_then_zeros(x):
    """a cond whose branches reduce the batch axis away, then a use of the batch size in the function body"""
    s = jax.lax.cond(jnp.sum(x) > 0.0, lambda a: a.max(), lambda a: a.min(), x)
    return jnp.zeros((x.shape[0], 2), dtype=x.dtype) + s


@onnx_function
def batch_while_then_broadcast(x):
    s = jax.lax.while_loop(lambda c: c[0] < 2, lambda c: (c[0] + 1, c[1] + x.sum()), (jnp.int32(0), jnp.float32(0.0)))[1]
    return jnp.broadcast_to(s, (x.shape[0],))


# ---- targets whose keyword defaults are not None (C19: an explicit None must not be treated as "not given")
@onnx_function
def total(x, axis=-1):
    return jnp.sum(x, axis=axis)


@onnx_function
def bounded(x, lo=0.0, hi=1.0):
    return jnp.clip(x, lo, hi)


@onnx_function
def scaled(x, scale=None, flip=False):
    y = x + 1.0 if scale is None else x * scale
    return -y if flip else y


@onnx_function
class Affine(nnx.Module):
    def __call__(self, x, shift=1.0):
        return x * 2.0 + (0.0 if shift is None else shift)


# ---- two tensor arguments with dynamic extents, dimension arithmetic on both inside the body (C04)
@onnx_function
def outer_sum(u, v):
    return jnp.zeros((u.shape[0], v.shape[0]), dtype=u.dtype) + u.sum(axis=1)[:, None] + v.sum(axis=1)[None, :]


@onnx_function
def index_grid(u, v):
    shape = (u.shape[0], v.shape[0])
    return jax.lax.broadcasted_iota(jnp.float32, shape, 1) * 2.0 + jax.lax.broadcasted_iota(jnp.float32, shape, 0) + u.sum() - v.sum()


# ---- unique=True module whose instances are compared by content (C07: the comparison must see in-place updates)
@onnx_function(unique=True)
class ScaleShift(nnx.Module):
    def __init__(self, scale, k=1.0):
        self.w = nnx.Param(jnp.asarray(scale, dtype=jnp.float32))
        self.k = k

    def __call__(self, x):
        return x * self.w.value + self.k


class Tower(nnx.Module):
    def __init__(self):
        self.a = ScaleShift([1.0, 2.0, 3.0])
        self.b = ScaleShift([1.0, 2.0, 3.0])

    def __call__(self, x):
        return self.a(x) * 10.0 + self.b(x)
