#!/bin/sh
# usage: suite_at.sh <commit-ish|WORKTREE>   -- run the pinned suite on a scratch copy of /repo at <commit>
# and compare with BASELINE.json stable_pass.  Scratch copy is removed afterwards.
set -e
C=${1:-HEAD}
D=$(mktemp -d /tmp/suite-XXXXXX)
trap 'rm -rf "$D"' EXIT
if [ "$C" = "WORKTREE" ]; then
  rsync -a --exclude .git /repo/ "$D/r/"
else
  mkdir -p "$D/r" && git -C /repo archive "$C" | tar -x -C "$D/r"
fi
cd "$D/r"
PYTHONPATH="$D/r" /venv/bin/python -m pytest -q -p no:cacheprovider --timeout=900 --continue-on-collection-errors -n ${SUITE_N:-16} --junitxml="$D/j.xml" >"$D/log" 2>&1 || true
tail -1 "$D/log"
python3 - "$D/j.xml" <<'PY'
import sys, json, xml.etree.ElementTree as ET
base = set(json.load(open('/root/.vp/BASELINE.json'))['stable_pass'])
passed = set()
for tc in ET.parse(sys.argv[1]).getroot().iter('testcase'):
    if not any(c.tag in ('failure','error','skipped') for c in tc):
        passed.add(f"{tc.get('classname')}::{tc.get('name')}")
miss = sorted(base - passed)
print(f"SUITE baseline={len(base)} passed_now={len(passed)} baseline_missing={len(miss)}")
for m in miss[:20]: print("  MISSING", m)
sys.exit(1 if miss else 0)
PY
