"""Value sets of ONNX element types — written from the ONNX specification
(TensorProto.DataType) and IEEE-754, *not* from the code under verification
and not from onnx_ir.  DESIGN §3.2.

kinds: 'bool' | ('int', signed, bits) | ('float', p, emax) | ('complex', p, emax)
       | 'other' (strings, 8/4-bit floats: no value-set claim is made)
binary float(p, emax): finite values ±m·2^q with 0<=m<2^p, q>=2-emax-p, m·2^q<2^(emax+1),
plus ±0, ±inf, NaN.
"""
import z3

ONNX = {
    0: ("UNDEFINED", "other"),
    1: ("FLOAT", ("float", 24, 127)),
    2: ("UINT8", ("int", False, 8)),
    3: ("INT8", ("int", True, 8)),
    4: ("UINT16", ("int", False, 16)),
    5: ("INT16", ("int", True, 16)),
    6: ("INT32", ("int", True, 32)),
    7: ("INT64", ("int", True, 64)),
    8: ("STRING", "other"),
    9: ("BOOL", "bool"),
    10: ("FLOAT16", ("float", 11, 15)),
    11: ("DOUBLE", ("float", 53, 1023)),
    12: ("UINT32", ("int", False, 32)),
    13: ("UINT64", ("int", False, 64)),
    14: ("COMPLEX64", ("complex", 24, 127)),
    15: ("COMPLEX128", ("complex", 53, 1023)),
    16: ("BFLOAT16", ("float", 8, 127)),
    17: ("FLOAT8E4M3FN", "other"),
    18: ("FLOAT8E4M3FNUZ", "other"),
    19: ("FLOAT8E5M2", "other"),
    20: ("FLOAT8E5M2FNUZ", "other"),
    21: ("UINT4", ("int", False, 4)),
    22: ("INT4", ("int", True, 4)),
    23: ("FLOAT4E2M1", "other"),
    24: ("FLOAT8E8M0", "other"),
    25: ("UINT2", ("int", False, 2)),
    26: ("INT2", ("int", True, 2)),
}


def kind(code):
    return ONNX[code][1]


def int_bounds(code):
    k = kind(code)
    assert isinstance(k, tuple) and k[0] == "int"
    _, signed, bits = k
    return (-(2 ** (bits - 1)), 2 ** (bits - 1) - 1) if signed else (0, 2 ** bits - 1)


def float_params(code):
    k = kind(code)
    assert isinstance(k, tuple) and k[0] in ("float", "complex")
    return k[1], k[2]


def values_included(s, m) -> bool:
    """Vals(s) ⊆ Vals(m) for two ONNX codes, from the definitions above.
    Facts used (validated exhaustively in the thorough tier against numpy):
      * every integer v with |v| <= 2^p and |v| < 2^(emax+1) is in float(p,emax);
        2^p + 1 is not (so an integer interval fits iff its largest magnitude does);
      * float(p1,emax1) ⊆ float(p2,emax2) iff p1<=p2, emax1<=emax2 and
        2-emax1-p1 >= 2-emax2-p2;
      * a real x embeds into complex as (x, 0)."""
    if s not in ONNX or m not in ONNX:
        return False
    if s == m:
        return True
    ks, km = kind(s), kind(m)
    if ks == "other" or km == "other":
        return False
    if ks == "bool":
        if km == "bool":
            return True
        if km[0] == "int":
            lo, hi = int_bounds(m)
            return lo <= 0 and hi >= 1
        return True  # 0.0 and 1.0 are in every binary float format
    if km == "bool":
        return False
    if ks[0] == "int":
        lo, hi = int_bounds(s)
        if km[0] == "int":
            lo2, hi2 = int_bounds(m)
            return lo2 <= lo and hi <= hi2
        p, emax = float_params(m)
        mx = max(abs(lo), abs(hi))
        return mx <= 2 ** p and mx < 2 ** (emax + 1)
    if ks[0] == "float":
        if km[0] == "int":
            return False
        p1, e1 = float_params(s)
        p2, e2 = float_params(m)
        return p1 <= p2 and e1 <= e2 and (2 - e1 - p1) >= (2 - e2 - p2)
    if ks[0] == "complex":
        if km[0] != "complex":
            return False
        p1, e1 = float_params(s)
        p2, e2 = float_params(m)
        return p1 <= p2 and e1 <= e2 and (2 - e1 - p1) >= (2 - e2 - p2)
    return False


def included_term(s, m):
    """z3 Bool: SpecPreserving(s, m) for symbolic codes (finite table)."""
    disj = []
    for a in ONNX:
        row = [b for b in ONNX if values_included(a, b)]
        if row:
            disj.append(z3.And(s == a, z3.Or([m == b for b in row])))
    return z3.Or(disj)
