"""Property registry: which contract modules serve which property, and what
each claim leaves unverified (text copied into every evidence file)."""

ALL_MODULES = ["contracts.c17"]

SPECS = {
    "C17": {
        "modules": ALL_MODULES,
        "level_text": "Every function of the cast-elimination decision procedure is executed symbolically from its real source and proved against a value-set specification written from the ONNX/IEEE-754 tables (not from the code): for all integer arguments (unbounded) and all 27x27 dtype pairs at once. A weakened comparison or table entry fails a named postcondition and the counter-model (a dtype pair) is replayed on the imported function.",
        "level_note": "Trusted: z3/cvc5; the VC generator (guarded by replay, vacuity checks, mutation self-test); onnx_ir.DataType predicates tabulated at run time; pow2 axioms; Cast axiom 'a value representable in the target is cast to itself'.",
        "design_ref": "DESIGN.md §4.17",
        "unverified_part": "ONNX Runtime's Cast kernels (axiomatised: a value representable in the target type is cast to itself); float8/float4 formats (the code never accepts them, so no claim is needed).",
    },
}
