"""developer driver: run one or several contracts and print their obligations
usage: PYTHONPATH=/repo:/verif .venv/bin/python tools/drive.py contracts.c02_txn [fid-substring] [oid-substring-for-detail]"""
import sys, json, os
os.environ.setdefault("JAX2ONNX_VERIF", "1")
import z3
from pyvc import run, verify
mods = sys.argv[1].split(",")
w = run.build_world(mods)
pat = sys.argv[2] if len(sys.argv) > 2 else ""
detail = sys.argv[3] if len(sys.argv) > 3 else None
for fid in list(w.contracts):
    c = w.contracts[fid]
    if c.assumed or pat not in fid:
        continue
    if c.kind != "function":
        out = run._worker(fid)
        for o in out["obls"]:
            print("  ", o["status"], o["backend"], o["oid"].split("#", 1)[-1], o.get("note") or "")
        continue
    ex, res = verify.run_function(w, c)
    verify.vacuity_check(w, ex, res)
    verify.discharge(w, ex, res)
    print("==", fid, "paths", res.paths, "time", round(res.time, 1), "exits", res.feasible_exits)
    if res.error: print("  ERROR", res.error)
    if res.crash: print("  CRASH", res.crash)
    for o in res.obls:
        print("  ", o["status"], o["backend"], o["instances"], round(o["time"], 1), o["oid"].split("#", 1)[-1], (o.get("note") or "")[:200])
        mi = o.get("model_info")
        if o["status"] == "refuted" and mi and detail and detail in o["oid"]:
            m, ob = mi["model"], mi["obl"]
            print("      candidate_only", mi.get("candidate_only"), "line", getattr(ob, "line", None))
            f = ob.formula
            parts = f.children() if z3.is_and(f) else [f]
            for p in parts:
                v = m.eval(p, model_completion=True) if m is not None else "?"
                if not z3.is_true(v):
                    print("      FALSE:", str(p)[:1500])
            if os.environ.get("PC"):
                for p in ob.pc:
                    print("      pc:", str(p)[:400])
