"""Operator classification used by the rewrite laws (DESIGN §3.3).  Written
from the ONNX operator documentation, NOT from the code; cross-checked
mechanically against onnx.defs of the installed ONNX where that is possible
(number of outputs, number of inputs)."""

# f(Tr(p, x)) = Tr(p, f(x)) and f(Reshape(x)) = Reshape(f(x)); one tensor input, one output, same shape
UNARY_POINTWISE = {
    "Abs", "Neg", "Exp", "Log", "Sqrt", "Relu", "Sigmoid", "Tanh", "Elu", "LeakyRelu", "Gelu", "Swish", "Identity", "Cast", "Not",
    "Erf", "Sign", "Floor", "Ceil", "Reciprocal", "Softplus", "Softsign", "HardSigmoid", "HardSwish", "Mish", "Selu", "Celu",
    "ThresholdedRelu", "Round", "Sin", "Cos", "Tan", "Asin", "Acos", "Atan", "Sinh", "Cosh", "Asinh", "Acosh", "Atanh", "IsNaN", "IsInf", "BitwiseNot",
}
# pointwise in ALL tensor inputs with numpy broadcasting; one output
NARY_POINTWISE = {
    "Add", "Sub", "Mul", "Div", "Pow", "Max", "Min", "Mean", "Sum", "And", "Or", "Xor", "Equal", "Greater", "GreaterOrEqual", "Less", "LessOrEqual",
    "Where", "Mod", "PRelu", "BitShift", "BitwiseAnd", "BitwiseOr", "BitwiseXor",
}
# pointwise in the data input (input 0); the other inputs are scalars / carry only a type
POINTWISE_IN_INPUT0 = {"Clip": "min/max are scalar tensors by the operator definition", "CastLike": "input 1 only supplies the target element type"}
# output 0 has the shape of input 0 (C08)
SHAPE_PRESERVING_IN_INPUT0 = UNARY_POINTWISE | {"Dropout", "CastLike", "Clip"}
# ... and the element type of input 0
DTYPE_PRESERVING_IN_INPUT0 = (UNARY_POINTWISE - {"Cast", "Not", "IsNaN", "IsInf"}) | {"Dropout", "Clip"}


def single_output_in_every_version(op: str, since: int = 13) -> bool:
    """mechanical: every schema version of `op` (default domain) from opset `since` on has exactly one output"""
    import onnx.defs as D
    found = False
    for s in D.get_all_schemas_with_history():
        if s.name == op and s.domain == "":
            if s.since_version >= since or _latest_before(op, since) == s.since_version:
                found = True
                if s.max_output != 1 or s.min_output != 1:
                    return False
    return found


def _latest_before(op, since):
    import onnx.defs as D
    vs = [s.since_version for s in D.get_all_schemas_with_history() if s.name == op and s.domain == "" and s.since_version <= since]
    return max(vs) if vs else None


def exists(op: str) -> bool:
    import onnx.defs as D
    return any(s.name == op and s.domain == "" for s in D.get_all_schemas_with_history())
