"""C02 level 3 — rewrite transactions of ir_optimizations.py (DESIGN §4.2, Appendix A.2).

A pass is `while changed: ... find one match, mutate, break`.  "Every
transaction preserves all observable denotations" is the invariant of the
outer loop; it is checked at the end of each loop-body path on which
mutation events were recorded:
    txn-effect  the recorded mutation events are exactly the declared effect
    txn-facts   the facts the rewrite law needs hold in the pre-transaction
                state (proved from the path condition = the guards the code
                actually evaluated, through the contracts of the helpers)
    lemma       facts + effect  =>  observables unchanged  (tensor algebra, once)
"""
from __future__ import annotations

import z3

from pyvc.vals import *  # noqa
from pyvc.core import *  # noqa
from pyvc.world import Contract, Ctx
from pyvc.stmts import LoopSpec
from specs import graph as GM
from specs import ctxmodel
from specs.graph import NODE, VALUE, GRAPH, ATTR
from specs.ctxmodel import SHAPE, TT

MO = "jax2onnx.converter.ir_optimizations"


class Pre:
    """view of the heap at a given snapshot"""

    def __init__(self, ex, snap):
        self.ex, self.snap = ex, snap

    def arrays(self, sort, field):
        key = (sort, field)
        if key in self.snap:
            return self.snap[key]
        cur = self.ex.heap
        self.ex.heap = dict(self.snap)
        try:
            a = self.ex.heap_arrays(sort, field)
            self.snap[key] = a
            for k, v in self.ex.heap.items():
                cur.setdefault(k, v)
            return a
        finally:
            self.ex.heap = cur

    def op(self, n):
        return z3.Select(self.arrays(NODE, "op_type")[0], n)

    def domain(self, n):
        return z3.Select(self.arrays(NODE, "domain")[0], n)

    def n_in(self, n):
        return z3.Select(self.arrays(NODE, "inputs")[1], n)

    def inp(self, n, i):
        return z3.Select(z3.Select(self.arrays(NODE, "inputs")[0], n), i)

    def n_out(self, n):
        return z3.Select(self.arrays(NODE, "outputs")[1], n)

    def out(self, n, i):
        return z3.Select(z3.Select(self.arrays(NODE, "outputs")[0], n), i)

    def produces(self, n, v):
        i = z3.Int("i!ppr")
        return z3.Exists([i], z3.And(0 <= i, i < self.n_out(n), self.out(n, i) == v))

    def reads(self, n, v):
        i = z3.Int("i!prd")
        return z3.Exists([i], z3.And(0 <= i, i < self.n_in(n), self.inp(n, i) == v))

    def graph_nodes(self, g):
        a = self.arrays(GRAPH, "nodes")
        return z3.Select(a[0], g), z3.Select(a[1], g)

    def in_graph(self, g, n):
        arr, ln = self.graph_nodes(g)
        k = z3.Int("k!ig")
        return z3.Exists([k], z3.And(0 <= k, k < ln, z3.Select(arr, k) == n))


def structurally_valid(ex):
    """assumed at the start of every pass iteration (not re-proved after a transaction; listed as an assumption):
    single assignment - a value is the output of at most one node, at one position - and no node reads its own output"""
    sel = z3.Select
    N = ref_sort(NODE)
    n1, n2, i, j = z3.Const("n1!sv", N), z3.Const("n2!sv", N), z3.Int("i!sv"), z3.Int("j!sv")
    outs, ins = ex.heap_arrays(NODE, "outputs"), ex.heap_arrays(NODE, "inputs")
    o = lambda n, k: sel(sel(outs[0], n), k)  # noqa: E731
    ssa = z3.ForAll([n1, n2, i, j], z3.Implies(z3.And(0 <= i, i < sel(outs[1], n1), 0 <= j, j < sel(outs[1], n2), o(n1, i) == o(n2, j)), z3.And(n1 == n2, i == j)), patterns=[z3.MultiPattern(o(n1, i), o(n2, j))])
    noself = z3.ForAll([n1, i, j], z3.Implies(z3.And(0 <= i, i < sel(ins[1], n1), 0 <= j, j < sel(outs[1], n1)), sel(sel(ins[0], n1), i) != o(n1, j)), patterns=[z3.MultiPattern(sel(sel(ins[0], n1), i), o(n1, j))])
    nonnull = z3.ForAll([n1, j], z3.Implies(z3.And(0 <= j, j < sel(outs[1], n1)), o(n1, j) != null_of(VALUE)), patterns=[o(n1, j)])
    V = ref_sort(VALUE)
    v1, v2 = z3.Const("v1!sv", V), z3.Const("v2!sv", V)
    na = ex.heap_arrays(VALUE, "name")
    named = lambda t: z3.And(z3.Not(sel(na[0], t)), z3.Length(sel(na[1], t)) > 0)  # noqa: E731
    uniq = z3.ForAll([v1, v2], z3.Implies(z3.And(named(v1), named(v2), sel(na[1], v1) == sel(na[1], v2)), v1 == v2), patterns=[z3.MultiPattern(sel(na[1], v1), sel(na[1], v2))])
    ex.assumptions_used.add("the graph at the start of every pass iteration is structurally valid: single assignment, no node reads its own output, value names are unique (NameFixPass); not re-proved after a transaction")
    return [ssa, noself, nonnull, uniq]


def muts(ex):
    return [e for e in ex.events if e and e[0] == "mut"]


def register(w):
    G = GM.register(w)
    GM.install_mutations(w)
    M = ctxmodel.register(w)
    from contracts import c08
    C8 = c08.register(w)
    sel = z3.Select
    perm_len, perm_at = w.graph_perm
    attr_int = w.graph_attr_int
    nested_ref, scalar_const = w.c02_preds["nested_ref"], w.c02_preds["scalar_const"]
    observed_as_output = w.c02_observed_as_output

    def unobserved_except(ex, P: Pre, graph, v, allowed_nodes, hv_pre):
        """in the pre-state no node of the graph other than `allowed_nodes` reads v, v is no graph output, no nested body refers to it"""
        n = z3.Const("n!uo", ref_sort(NODE))
        allowed = z3.Or([n == a for a in allowed_nodes] + [z3.BoolVal(False)])
        cur = ex.heap
        ex.heap = dict(P.snap)
        try:
            out_obs = observed_as_output(ex, graph, v)
        finally:
            ex.heap = cur
        return z3.And(z3.ForAll([n], z3.Implies(z3.And(P.in_graph(graph, n), P.reads(n, v)), allowed)), z3.Not(out_obs), z3.Not(nested_ref(v, hv_pre)))

    # ==================================================================== T3
    # Transpose(p1) -> ReduceMean(keepdims=1) -> Transpose(p2), p2 = p1^-1   ==>   ReduceMean(p1[axes])
    def wf(ex, graph):
        n = z3.Const("n!wf", ref_sort(NODE))
        single = z3.Or([sel(ex.heap_arrays(NODE, "op_type")[0], n) == z3.StringVal(op) for op in ("Transpose", "ReduceMean")])
        return [("every_node_has_an_output", z3.ForAll([n], sel(ex.heap_arrays(NODE, "outputs")[1], n) >= 1)),
                ("transpose_and_reducemean_nodes_have_one_output", z3.ForAll([n], z3.Implies(single, sel(ex.heap_arrays(NODE, "outputs")[1], n) == 1)))]

    w.txn_unobserved_except, w.txn_wf = unobserved_except, wf

    def t3_hook(lc):
        ex = lc.ex
        graph = lc["graph"].term
        if lc.phase == "assume":
            ex.events[:] = [e for e in ex.events if not (e and e[0] == "mut")]
            return wf(ex, graph)
        E = muts(ex)
        obl = wf(ex, graph)
        if lc.phase != "inv-step" or not E:
            return obl
        kinds = [e[1] for e in E]
        node, reducer, t1 = lc.get("node"), lc.get("reducer"), lc.get("t1")
        hv0, now0 = E[0][-2]["hv"], E[0][-2]["now"]     # heap version / clock when the first mutation happened
        P = Pre(ex, E[0][-3])
        # ---- effect
        core = [k for k in kinds if k != "set_meta"]
        ok_shape = core in (["replace_input", "rauw", "remove"], ["replace_input", "add_initializer", "replace_input", "rauw", "remove"], ["replace_input", "set_attr", "rauw", "remove"])
        obl.append(("txn-effect:T3.events_are_rewire_axes_bypass_remove", z3.BoolVal(ok_shape)))
        if not ok_shape or not all(isinstance(x, VRef) for x in (node, reducer, t1)):
            return obl
        ev = {k: [e for e in E if e[1] == k] for k in set(kinds)}
        ri0 = ev["replace_input"][0]
        rauw, rem = ev["rauw"][0], ev["remove"][0]
        R, X = ri0[2].term, ri0[4].term
        a_old, b_new = rauw[2].term, rauw[3].term
        obl.append(("txn-effect:T3.rewires_reducer_input_0_to_the_source_of_T1", z3.And(R == reducer.term, ri0[3] == 0, X == P.inp(t1.term, 0), P.n_in(t1.term) >= 1)))
        obl.append(("txn-effect:T3.second_transpose_output_replaced_by_reducer_output_everywhere", z3.And(a_old == P.out(node.term, 0), b_new == P.out(reducer.term, 0), ex.truthy(rauw[4]), rem[3].term == node.term, rem[2].term == graph)))
        # ---- facts (pre-state)
        obl.append(("txn-facts:T3.pattern_is_transpose_reducemean_transpose", z3.And(
            P.op(node.term) == z3.StringVal("Transpose"), P.n_in(node.term) == 1, P.inp(node.term, 0) == P.out(reducer.term, 0),
            P.op(reducer.term) == z3.StringVal("ReduceMean"), P.n_in(reducer.term) >= 1, P.op(t1.term) == z3.StringVal("Transpose"),
            P.produces(t1.term, P.inp(reducer.term, 0)), P.n_out(t1.term) == 1, P.n_out(reducer.term) == 1, P.n_out(node.term) == 1)))
        perm1, perm2 = lc.get("perm1"), lc.get("perm2")
        k = z3.Int("k")
        if isinstance(perm1, VSeq) and isinstance(perm2, VSeq):
            obl.append(("txn-facts:T3.permutations_are_mutually_inverse", z3.And(
                perm1.length == perm2.length, perm1.length == perm_len(t1.term, hv0), perm2.length == perm_len(node.term, hv0),
                z3.ForAll([k], z3.Implies(z3.And(0 <= k, k < perm2.length), z3.And(sel(perm1.arrs[0], k) == perm_at(t1.term, hv0, k), sel(perm2.arrs[0], k) == perm_at(node.term, hv0, k),
                                                                                sel(perm1.arrs[0], sel(perm2.arrs[0], k)) == k))))))
        else:
            obl.append(("txn-facts:T3.permutations_are_mutually_inverse", z3.BoolVal(False)))
        keep = lc.get("keepdims")
        obl.append(("txn-facts:T3.keepdims_is_1", keep.term == 1 if isinstance(keep, VInt) else z3.BoolVal(False)))
        # the reducer output changes its layout: nothing but the removed transpose may observe it
        obl.append(("txn-facts:T3.reducer_output_not_observed_elsewhere", unobserved_except(ex, P, graph, b_new, [node.term], hv0)))
        # ---- axes are mapped through perm1 (as a set; ReduceMean does not depend on their order)
        axes, new_axes = lc.get("axes"), lc.get("new_axes")
        if isinstance(axes, VNone):
            obl.append(("txn-facts:T3.axes_mapped_through_perm1", z3.BoolVal(isinstance(new_axes, VNone) and "set_attr" not in kinds and "add_initializer" not in kinds)))
        elif isinstance(axes, VSeq) and isinstance(new_axes, VSeq) and isinstance(perm1, VSeq):
            j, x = z3.Int("j"), z3.Int("x")
            rank = perm1.length
            norm = lambda a: z3.If(a < 0, a + rank, a)  # noqa: E731
            img = lambda a: sel(perm1.arrs[0], norm(a))  # noqa: E731
            obl.append(("txn-facts:T3.axes_mapped_through_perm1", z3.And(
                z3.ForAll([j], z3.Implies(z3.And(0 <= j, j < axes.length), z3.And(0 <= norm(sel(axes.arrs[0], j)), norm(sel(axes.arrs[0], j)) < rank,
                                                                             z3.Exists([x], z3.And(0 <= x, x < new_axes.length, sel(new_axes.arrs[0], x) == img(sel(axes.arrs[0], j))))))),
                z3.ForAll([x], z3.Implies(z3.And(0 <= x, x < new_axes.length), z3.Exists([j], z3.And(0 <= j, j < axes.length, sel(new_axes.arrs[0], x) == img(sel(axes.arrs[0], j)))))),
                z3.BoolVal(("set_attr" in kinds) != ("add_initializer" in kinds)))))
            # and the new axes really are what is stored
            if "add_initializer" in kinds:
                ai, ri1 = ev["add_initializer"][0], ev["replace_input"][1]
                payload = getattr(ex.ghost.get("const_payload_objs", {}).get(str(ri1[4].term)), "payload", None) if False else ex.ghost.get("const_payloads", {}).get(str(ri1[4].term))
                obl.append(("txn-effect:T3.axes_input_is_an_initializer_holding_the_new_axes", z3.And(ri1[2].term == reducer.term, ri1[3] == 1, ai[3].term == ri1[4].term, ai[2].term == graph,
                                                                                                     z3.BoolVal(payload is new_axes or (isinstance(payload, VSeq) and payload.arrs[0].eq(new_axes.arrs[0]) and payload.length.eq(new_axes.length))))))
            else:
                sa = ev["set_attr"][0]
                obl.append(("txn-effect:T3.axes_attribute_holds_the_new_axes", z3.And(sa[2].term == reducer.term, sa[3].term == z3.StringVal("axes"), z3.BoolVal(getattr(sa[4], "payload", None) is not None and same_seq(getattr(sa[4], "payload", None), new_axes)))))
        else:
            obl.append(("txn-facts:T3.axes_mapped_through_perm1", z3.BoolVal(False)))
        # ---- metadata (C08): the reducer output now holds what the removed transpose's output held; it must declare that value's dims and type
        shp, dims, ty = ex.heap_arrays(VALUE, "shape")[0], ex.heap_arrays(SHAPE, "dims"), ex.heap_arrays(VALUE, "type")[0]
        pshp, pdims, pty = P.arrays(VALUE, "shape")[0], P.arrays(SHAPE, "dims"), P.arrays(VALUE, "type")[0]
        s_new, s_old = sel(shp, b_new), sel(pshp, a_old)
        obl.append(("txn-effect:T3.reducer_output_declares_the_dims_of_the_removed_transpose_output", z3.Implies(s_old != null_of(SHAPE), z3.And(s_new != null_of(SHAPE), C8.same_keys(ex, dims, s_new, pdims, s_old)))))
        obl.append(("txn-effect:T3.reducer_output_keeps_no_stale_dims_when_the_removed_output_declared_none", z3.Implies(s_old == null_of(SHAPE), s_new == null_of(SHAPE))))
        dt1, dt0 = ex.heap_arrays(TT, "dtype")[0], P.arrays(TT, "dtype")[0]
        t_new = sel(ty, b_new)
        # Transpose keeps the element type, so (annotations being true before) either declaration is right; a fresh TensorType object is fine
        obl.append(("txn-effect:T3.reducer_output_declares_the_element_type_of_the_removed_transpose_output", z3.Or(
            t_new == null_of(TT),
            z3.And(sel(pty, a_old) != null_of(TT), sel(dt1, t_new) == sel(dt0, sel(pty, a_old))),
            z3.And(sel(pty, b_new) != null_of(TT), sel(dt1, t_new) == sel(dt0, sel(pty, b_new))))))
        v = z3.Const("v!md", ref_sort(VALUE))
        born = ex.born(VALUE)
        obl.append(("txn-effect:T3.no_other_existing_value_changes_its_declared_shape_or_type", z3.ForAll([v], z3.Implies(z3.And(born(v) < now0, v != b_new), z3.And(sel(shp, v) == sel(pshp, v), sel(ty, v) == sel(pty, v))))))
        return obl

    def same_seq(a, b):
        if isinstance(a, VSeq) and isinstance(b, VSeq):
            return all(x.eq(y) for x, y in zip(a.arrs, b.arrs)) and a.length.eq(b.length)
        return False

    def inv_axes(lc):
        """for a in axes: new_axes_list collects perm1[normalised a]"""
        new_list, perm1, axes = lc.get("new_axes_list"), lc.get("perm1"), lc.get("axes")
        if not (isinstance(new_list, VSeq) and isinstance(perm1, VSeq) and isinstance(axes, VSeq)):
            return []
        k = z3.Int("k")
        rank = lc["rank"].term
        norm = lambda a: z3.If(a < 0, a + rank, a)  # noqa: E731
        return [("valid", ex_truth(lc, "valid_axes")), ("len", new_list.length == lc.idx),
                ("prefix_mapped", z3.ForAll([k], z3.Implies(z3.And(0 <= k, k < lc.idx), z3.And(
                    0 <= norm(sel(axes.arrs[0], k)), norm(sel(axes.arrs[0], k)) < rank, sel(new_list.arrs[0], k) == sel(perm1.arrs[0], norm(sel(axes.arrs[0], k)))))))]

    def ex_truth(lc, name):
        v = lc.get(name)
        return lc.ex.truthy(v) if v is not None else z3.BoolVal(True)

    w.add_contract(Contract(
        f"{MO}:remove_redundant_transpose_reduce_ir", params={"graph": Ref(GRAPH)},
        requires=[("valid_graph", lambda c: z3.And([f for _, f in wf(c.ex, c["graph"].term)]))],
        loops={0: LoopSpec(invariant=t3_hook, label="transactions"), 1: LoopSpec(heap_unchanged=True, label="scan"), 2: LoopSpec(invariant=inv_axes, label="axes")},
        track_alloc=True,
        local_types={"new_axes_list": Seq(Int)},
        ret=NoneT, props=["C02", "C08", "C12"], opaque_externals=True, witnesses=["D3c", "C02_reduce_family"],
        modifies=[(NODE, "inputs"), (GRAPH, "nodes"), (GRAPH, "outputs"), (VALUE, "shape"), (VALUE, "type")],
    ))

    # ---- law of T3 in the tensor algebra: Tr(q, RM(A, Tr(p, x))) = RM(p[A], x) when q = p^-1 (keepdims = 1)
    def lemma_t3(world):
        T, Pm, Ax = z3.DeclareSort("TensorL"), z3.DeclareSort("PermL"), z3.DeclareSort("AxesL")
        Tr = z3.Function("TrL", Pm, T, T)
        RM = z3.Function("ReduceMeanKeepdimsL", Ax, T, T)
        img = z3.Function("imageL", Pm, Ax, Ax)
        inv = z3.Function("inverseL", Pm, Pm, z3.BoolSort())
        p, q, x, A = z3.Const("p", Pm), z3.Const("q", Pm), z3.Const("x", T), z3.Const("A", Ax)
        A1 = z3.ForAll([p, q, x], z3.Implies(inv(p, q), Tr(q, Tr(p, x)) == x))
        A5 = z3.ForAll([p, A, x], RM(A, Tr(p, x)) == Tr(p, RM(img(p, A), x)))
        goal = z3.Implies(inv(p, q), Tr(q, RM(A, Tr(p, x))) == RM(img(p, A), x))
        return ([A1, A5], goal)
    w.add_contract(Contract(f"{MO}:<law-T3>", kind="lemma", ensures=[("transpose_reducemean_transpose_equals_reducemean_over_mapped_axes", lemma_t3)], props=["C02", "C12"]))
    register_t11(w)
    register_casts(w)
    w.trust("A1 Tr(q,Tr(p,x)) = x for mutually inverse p,q; A5 ReduceMean(keepdims=1) commutes with Transpose when the axes are mapped through the permutation (ONNX operator definitions; numerically validated by the witness families)")


# =====================================================================
# T11  remove_identity_reshapes_ir:  Reshape(x, s) with s = declared all-integer shape of x   ==>   x
# =====================================================================
def register_t11(w):
    sel = z3.Select
    G, C8 = w.graph, w.c08
    const_len, const_at = w.graph_const
    unobserved_except, wf = w.txn_unobserved_except, w.txn_wf

    # _shapes_match_exact(src_dims, target): True only if same length and every declared dim is the integer target[k]
    def post_match(c: Ctx):
        s, t, r = c["src_dims"], c["target_dims"], c.result
        if isinstance(s, VNone):
            return z3.Not(r.term)
        k = z3.Int("k")
        tag, iv = s.arrs[0], s.arrs[1]
        return z3.Implies(r.term, z3.And(s.length == t.length, z3.ForAll([k], z3.Implies(z3.And(0 <= k, k < t.length), z3.And(sel(tag, k) == 0, sel(iv, k) == sel(t.arrs[0], k))))))

    def inv_match(lc):
        s, t = lc["src_dims"], lc["target_dims"]
        k = z3.Int("k")
        return [("prefix_equal_ints", z3.ForAll([k], z3.Implies(z3.And(0 <= k, k < lc.idx), z3.And(sel(s.arrs[0], k) == 0, sel(s.arrs[1], k) == sel(t.arrs[0], k)))))]

    def replay_match(model, args):
        import importlib
        import itertools
        import onnx_ir as ir
        mod = importlib.import_module(MO)
        pool = [0, 1, 2, 3, ir.SymbolicDim("B"), ir.SymbolicDim(None)]
        for n in range(0, 4):
            for src in itertools.product(pool, repeat=n):
                for m in range(0, 4):
                    for tgt in itertools.product((0, 1, 2, 3), repeat=m):
                        if mod._shapes_match_exact(tuple(src), tuple(tgt)) and not (n == m and all(isinstance(a, int) and a == b for a, b in zip(src, tgt))):
                            return True, f"_shapes_match_exact({src}, {tgt}) returned True"
        if mod._shapes_match_exact(None, (1,)):
            return True, "_shapes_match_exact(None, (1,)) returned True"
        return False, "all dim tuples up to length 3 over {0..3, B, unknown} consistent"

    w.add_contract(Contract(
        f"{MO}:_shapes_match_exact", replay=replay_match, params={"src_dims": Opt(Seq(ctxmodel.IRDIM)), "target_dims": Seq(Int)}, ret=Bool, raises=set(),
        ensures=[("true_only_for_equal_integer_dims", post_match)], loops={0: LoopSpec(invariant=inv_match, label="dims")}, props=["C02", "C08"], witnesses=["C02_identity_reshape_family"],
    ))

    def hook(lc):
        ex = lc.ex
        graph = lc["graph"].term
        if lc.phase == "assume":
            ex.events[:] = [e for e in ex.events if not (e and e[0] == "mut")]
            return wf(ex, graph)
        E = muts(ex)
        obl = wf(ex, graph)
        if lc.phase != "inv-step" or not E:
            return obl
        kinds = [e[1] for e in E]
        node = lc.get("node")
        hv0 = E[0][-2]["hv"]
        P = Pre(ex, E[0][-3])
        ok = kinds == ["rauw", "remove"] and isinstance(node, VRef)
        obl.append(("txn-effect:T11.events_are_bypass_remove", z3.BoolVal(ok)))
        if not ok:
            return obl
        rauw, rem = E
        a_old, b_new = rauw[2].term, rauw[3].term
        obl.append(("txn-effect:T11.reshape_output_replaced_by_its_data_input_everywhere", z3.And(a_old == P.out(node.term, 0), b_new == P.inp(node.term, 0), b_new != null_of(VALUE), ex.truthy(rauw[4]), rem[3].term == node.term, rem[2].term == graph)))
        # facts: a Reshape whose constant target is exactly the declared (hence, by C08, the run-time) shape of its input
        shp, dims = P.arrays(VALUE, "shape")[0], P.arrays(SHAPE, "dims")
        s_in = sel(shp, b_new)
        tag, iv, ln = sel(dims[0], s_in), sel(dims[1], s_in), sel(dims[-1], s_in)
        tv = P.inp(node.term, 1)
        k = z3.Int("k")
        obl.append(("txn-facts:T11.node_is_a_reshape_to_the_declared_integer_shape_of_its_input", z3.And(
            P.op(node.term) == z3.StringVal("Reshape"), P.n_in(node.term) >= 2, s_in != null_of(SHAPE), tv != null_of(VALUE),
            ln == const_len(tv, hv0), ln >= 1,
            z3.ForAll([k], z3.Implies(z3.And(0 <= k, k < ln), z3.And(sel(tag, k) == 0, sel(iv, k) == const_at(tv, hv0, k), const_at(tv, hv0, k) != 0, const_at(tv, hv0, k) != -1))))))
        return obl

    w.add_contract(Contract(
        f"{MO}:remove_identity_reshapes_ir", params={"graph": Ref(GRAPH)},
        requires=[("valid_graph", lambda c: z3.And([f for _, f in wf(c.ex, c["graph"].term)]))],
        loops={0: LoopSpec(invariant=hook, label="transactions"), 1: LoopSpec(heap_unchanged=True, label="scan")},
        track_alloc=True, ret=NoneT, props=["C02", "C08"], opaque_externals=True, witnesses=["C02_identity_reshape_family"],
        modifies=[(NODE, "inputs"), (GRAPH, "nodes"), (GRAPH, "outputs")],
    ))

    def lemma(world):
        T, S = z3.DeclareSort("TensorL"), z3.DeclareSort("ShapeL")
        Reshape = z3.Function("ReshapeL", T, S, T)
        shape_of = z3.Function("shapeL", T, S)
        x = z3.Const("x", T)
        A7 = z3.ForAll([x], Reshape(x, shape_of(x)) == x)
        return ([A7], Reshape(x, shape_of(x)) == x)
    w.add_contract(Contract(f"{MO}:<law-T11>", kind="lemma", ensures=[("reshape_to_own_shape_is_identity", lemma)], props=["C02"]))
    w.trust("A7 Reshape(x, shape(x)) = x for a target without 0/-1 entries (ONNX Reshape definition); declared integer dims are the run-time dims (C08 before the pass)")


# =====================================================================
# T1 / T2  remove_redundant_casts_ir
#   T1  Cast(x, to = element type of x)                         ==>  x
#   T2  Cast(Cast(x : S, to = M), to = S), round trip harmless   ==>  x      (the first Cast goes too when nothing else observes it)
# =====================================================================
def register_casts(w):
    from specs import dtypes as D
    sel = z3.Select
    G = w.graph
    V = ref_sort(VALUE)
    attr_of, attr_int = w.graph_attr_of, w.graph_attr_int
    unobserved_except = w.txn_unobserved_except
    rt_dtype = w.fn("runtime_dtype", V, z3.IntSort())      # ghost: the element type the value has at run time (ONNX code)
    w.txn_rt_dtype = rt_dtype
    w.trust("declared element types are the run-time element types when a pass starts (C08 for the lowering), value names are unique (NameFixPass runs first)")

    def truthful(ex):
        """every declared element type (Value.dtype, Value.type.dtype) is the run-time one"""
        v = z3.Const("v!tr", V)
        d = ex.heap_arrays(VALUE, "dtype")
        ty = ex.heap_arrays(VALUE, "type")[0]
        tdt = ex.heap_arrays(TT, "dtype")
        code = lambda arrs, x: sel(arrs[-1], x)  # noqa: E731
        isnone = lambda arrs, x: sel(arrs[0], x) if len(arrs) > 1 else z3.BoolVal(False)  # noqa: E731
        return z3.ForAll([v], z3.And(z3.Implies(z3.Not(isnone(d, v)), code(d, v) == rt_dtype(v)),
                                     z3.Implies(z3.And(sel(ty, v) != null_of(TT), z3.Not(isnone(tdt, sel(ty, v)))), code(tdt, sel(ty, v)) == rt_dtype(v))))

    def post_collect(c: Ctx):
        r = c.result
        v = z3.Const("v!cm", V)
        na = c.ex.heap_arrays(VALUE, "name")
        nm = sel(na[1], v)
        return z3.ForAll([v], z3.Implies(z3.And(z3.Not(sel(na[0], v)), z3.Length(nm) > 0, sel(r.present, nm)), sel(r.arrs[0], nm) == rt_dtype(v)))
    w.add_contract(Contract(f"{MO}:_collect_value_dtypes", params={"graph": Ref(GRAPH), "nodes": Seq(Ref(NODE))}, ret=MapT(Str, Int), assumed=True,
                            ensures=[("recorded_codes_are_the_declared_types_of_the_named_values", post_collect)],
                            note="name -> declared element type code of the value carrying that name (names are unique; declarations are truthful)"))

    def wf(ex, graph):
        n = z3.Const("n!wf", ref_sort(NODE))
        op = sel(ex.heap_arrays(NODE, "op_type")[0], n)
        return [("every_node_has_an_output", z3.ForAll([n], sel(ex.heap_arrays(NODE, "outputs")[1], n) >= 1)),
                ("cast_nodes_have_one_input_and_one_output", z3.ForAll([n], z3.Implies(op == z3.StringVal("Cast"), z3.And(sel(ex.heap_arrays(NODE, "outputs")[1], n) == 1, sel(ex.heap_arrays(NODE, "inputs")[1], n) == 1)))),
                ("declared_element_types_are_truthful", truthful(ex))]

    def std_cast(P, n):
        return z3.And(P.op(n) == z3.StringVal("Cast"), P.domain(n) == z3.StringVal(""))

    def hook(lc):
        ex = lc.ex
        graph = lc["graph"].term
        if lc.phase == "assume":
            ex.events[:] = [e for e in ex.events if not (e and e[0] == "mut")]
            for f in structurally_valid(ex):
                ex.pc.append(f)
            return wf(ex, graph)
        E = muts(ex)
        obl = wf(ex, graph)
        if lc.phase != "inv-step" or not E:
            return obl
        kinds = [e[1] for e in E]
        n = lc.get("n")
        hv0 = E[0][-2]["hv"]
        P = Pre(ex, E[0][-3])
        ok = kinds in (["rauw", "remove"], ["rauw", "remove", "remove"]) and isinstance(n, VRef)
        obl.append(("txn-effect:T1T2.events_are_bypass_remove", z3.BoolVal(ok)))
        if not ok:
            return obl
        rauw = E[0]
        a_old, b_new = rauw[2].term, rauw[3].term
        to = lambda node: attr_int(attr_of(node, z3.StringVal("to"), hv0))  # noqa: E731
        has_to = lambda node: attr_of(node, z3.StringVal("to"), hv0) != null_of(ATTR)  # noqa: E731
        x = P.inp(n.term, 0)
        removed = [e[3].term for e in E[1:]]
        nxt = lc.get("next_node")
        is_t2 = isinstance(nxt, VRef) and any(r.eq(nxt.term) for r in removed)
        if not is_t2:
            # ---- T1
            obl.append(("txn-effect:T1.cast_output_replaced_by_its_input_everywhere", z3.And(z3.BoolVal(len(removed) == 1), a_old == P.out(n.term, 0), b_new == x, x != null_of(VALUE), ex.truthy(rauw[4]), removed[0] == n.term, E[1][2].term == graph)))
            obl.append(("txn-facts:T1.standard_cast_to_the_element_type_its_input_already_has", z3.And(std_cast(P, n.term), P.n_in(n.term) >= 1, has_to(n.term), to(n.term) == rt_dtype(x))))
            return obl
        # ---- T2
        n2 = nxt.term
        obl.append(("txn-effect:T2.second_cast_output_replaced_by_the_original_value_everywhere", z3.And(a_old == P.out(n2, 0), b_new == x, x != null_of(VALUE), ex.truthy(rauw[4]), z3.And([e[2].term == graph for e in E[1:]]),
                                                                                                       z3.Or([r == n2 for r in removed]), z3.And([z3.Or(r == n2, r == n.term) for r in removed]))))
        S, M_ = rt_dtype(x), to(n.term)
        e = z3.Int("e!t2")
        int_rows = {k: v[1] for k, v in D.ONNX.items() if isinstance(v[1], tuple) and v[1][0] == "int"}
        fits = z3.And(z3.Or([S == k for k in int_rows]), z3.Or([M_ == k for k in int_rows]),
                      z3.ForAll([e], z3.Implies(G.in_vals(x, e), z3.Or([z3.And(M_ == k, D.int_bounds(k)[0] <= e, e <= D.int_bounds(k)[1]) for k in int_rows]))))
        obl.append(("txn-facts:T2.cast_to_M_then_back_to_the_original_type_S", z3.And(std_cast(P, n.term), std_cast(P, n2), has_to(n.term), has_to(n2), P.inp(n2, 0) == P.out(n.term, 0), to(n2) == S)))
        obl.append(("txn-facts:T2.round_trip_through_M_changes_no_value", z3.Or(D.included_term(S, M_), fits)))
        if len(removed) == 2:
            obl.append(("txn-facts:T2.first_cast_removed_only_when_nothing_else_observes_it", unobserved_except(ex, P, graph, P.out(n.term, 0), [n2], hv0)))
        return obl

    def axioms(c):
        return z3.And(G.axiom_value_preserving_ops(c.ex), G.axiom_range(c.ex))

    w.add_contract(Contract(
        f"{MO}:remove_redundant_casts_ir", params={"graph": Ref(GRAPH)},
        requires=[("valid_graph", lambda c: z3.And([f for _, f in wf(c.ex, c["graph"].term)])), ("axiom:onnx_semantics", axioms)],
        loops={0: LoopSpec(invariant=hook, label="transactions"), 1: LoopSpec(heap_unchanged=True, label="scan")},
        track_alloc=True, ret=NoneT, props=["C02", "C08", "C17"], opaque_externals=True, witnesses=["C02_cast_family"],
        modifies=[(NODE, "inputs"), (GRAPH, "nodes"), (GRAPH, "outputs")],
    ))
    w.trust("A8 Cast(x, to) = x when to is the element type of x; A.1 Cast(S, Cast(M, x)) = x for x of type S when every value of x is representable in M (ONNX Cast: a representable value is cast to itself)")
