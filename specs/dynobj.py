"""Dynamically attributed python objects (`ctx: Any` with getattr/setattr of ad-hoc attributes).
Attributes live in a per-path python-side store keyed by (object term, name), so container values keep their
python identity (needed for 'the child shares the SAME dict as the parent')."""
from __future__ import annotations

import z3

from pyvc.vals import *  # noqa
from pyvc.core import *  # noqa

DYN = "DynObj"


def store(ex):
    return ex.ghost.setdefault("dynattrs", {})


def key(obj: VRef, name: str):
    return (str(obj.term), name)


def install(w):
    if getattr(w, "_dynobj", False):
        return
    w._dynobj = True
    ref_sort(DYN)

    def getattr_hook(ex, args):
        obj = args[0]
        if not (isinstance(obj, VRef) and obj.sort == DYN):
            return None
        nm = z3.simplify(args[1].term).as_string()
        st = store(ex)
        if key(obj, nm) in st:
            v = st[key(obj, nm)]
            if v is None:  # attribute known to be absent
                if len(args) > 2:
                    return args[2]
                raise PyRaise("AttributeError")
            return v
        raise OutOfSubset(f"attribute {nm} of a dynamic object was not declared by the contract")
    w.getattr_hooks.append(getattr_hook)

    def setattr_hook(ex, args):
        obj = args[0]
        if not (isinstance(obj, VRef) and obj.sort == DYN):
            return False
        nm = z3.simplify(args[1].term).as_string()
        store(ex)[key(obj, nm)] = args[2]
        return True
    w.setattr_hooks.append(setattr_hook)

    def ref_getattr(ex, base, attr):
        if base.sort != DYN:
            return None
        st = store(ex)
        if key(base, attr) in st and st[key(base, attr)] is not None:
            return st[key(base, attr)]
        if key(base, attr) in st:
            raise PyRaise("AttributeError")
        raise OutOfSubset(f"attribute {attr} of a dynamic object was not declared by the contract")
    w.ref_getattr_hooks.append(ref_getattr)
