"""C05 / C12 / C02(T16) — `prune_unused_graph_inputs_ir`: positional inputs survive pruning.

The binder names positional graph inputs `in_<i>` (add_input_for_invar) and `in_<i>_nchw` (_LayoutAdapter.bind_input);
both facts are proved in contracts/c05.py.  The property says every positional argument stays an input of the model:
    L( in_[0-9]+(_nchw)? )  is a subset of  { s | _should_always_keep(s) }           (z3 regular-expression theory)
and the pruning loop keeps every value whose name is kept, every value that is used, and invents nothing.
"""
from __future__ import annotations

import ast
import z3

from pyvc.vals import *  # noqa
from pyvc.core import *  # noqa
from pyvc.world import Contract, Ctx
from pyvc.stmts import LoopSpec
from pyvc import source as S
from specs import graph as GM
from specs.graph import NODE, VALUE, GRAPH

MO = "jax2onnx.converter.ir_optimizations"
MU = "jax2onnx.user_interface"


def positional_re():
    digits = z3.Plus(z3.Range("0", "9"))
    return z3.Concat(z3.Re("in_"), digits, z3.Option(z3.Re("_nchw")))


def register(w):
    G = GM.register(w)
    GM.install_mutations(w)
    sel = z3.Select
    V = ref_sort(VALUE)
    hv = w.graph_hv
    w.global_overrides[(MO, "DEBUG")] = VBool(z3.BoolVal(False))

    # positional(name): the name has the form the binder gives positional inputs.  An uninterpreted predicate everywhere except
    # inside the verification of the naming decision itself, where it is *defined* as membership in in_[0-9]+(_nchw)?
    # (keeps the string theory out of the quantified loop obligations)
    positional = w.fn("is_positional_input_name", z3.StringSort(), z3.BoolSort())

    def def_positional(c: Ctx):
        nm = c["name"]
        if isinstance(nm, VNone):
            return z3.BoolVal(True)
        t = nm.val.term if isinstance(nm, VOpt) else nm.term
        return positional(t) == z3.InRe(t, positional_re())

    # ---- the naming decision
    def post_keep(c: Ctx):
        nm, r = c["name"], c.result
        if isinstance(nm, VNone):
            return r.term
        t = nm.val.term if isinstance(nm, VOpt) else nm.term
        isnone = nm.isnone if isinstance(nm, VOpt) else z3.BoolVal(False)
        return z3.And(z3.Implies(isnone, r.term), z3.Implies(z3.And(z3.Not(isnone), positional(t)), r.term))

    def replay_keep(model, args):
        import importlib
        import inspect
        import textwrap
        mod = importlib.import_module(MO)
        src = inspect.getsource(mod.prune_unused_graph_inputs_ir)
        tree = ast.parse(textwrap.dedent(src))
        fn = next(n for n in ast.walk(tree) if isinstance(n, ast.FunctionDef) and n.name == "_should_always_keep")
        ns: dict = {"Optional": __import__("typing").Optional}
        exec(compile(ast.Module(body=[fn], type_ignores=[]), "<keep>", "exec"), ns)
        keep = ns["_should_always_keep"]
        for i in (0, 1, 7, 10, 123):
            for suf in ("", "_nchw"):
                if not keep(f"in_{i}{suf}"):
                    return True, f"_should_always_keep('in_{i}{suf}') is False: an unused positional input of that name is pruned"
        return False, "in_<i> and in_<i>_nchw kept for i in {0,1,7,10,123}"

    w.add_contract(Contract(
        f"{MO}:prune_unused_graph_inputs_ir._should_always_keep", params={"name": Opt(Str)}, ret=Bool, raises=set(),
        ensures=[("every_positional_input_name_is_kept", post_keep)], definitions=[("positional_means_in_digits_optionally_nchw", def_positional)],
        props=["C05", "C12", "C02"], replay=replay_keep, witnesses=["D7"],
    ))

    def lemma_re(world):
        st = S.load_module(MU).toplevel.get("_POSITIONAL_INPUT_NAME_RE")
        if st is None:
            raise S.ToolError(f"{MU}._POSITIONAL_INPUT_NAME_RE not found")
        pat = st.value.args[0].value if isinstance(st.value, ast.Call) and st.value.args and isinstance(st.value.args[0], ast.Constant) else None
        return z3.BoolVal(pat == r"^in_(\d+)(?:_nchw)?$")
    w.add_contract(Contract(f"{MU}:<positional-name-pattern>", kind="lemma", props=["C05"], ensures=[("the_renaming_code_recognises_exactly_the_binder_names", lemma_re)]))

    # ---- the pruning loop
    has_uses = w.fn("value_has_uses", V, z3.IntSort(), z3.BoolSort())
    is_out = w.fn("value_is_graph_output", V, z3.IntSort(), z3.BoolSort())

    def only_here(ex):
        return bool(ex.frames) and ex.frames[0]["fid"].endswith(":prune_unused_graph_inputs_ir")

    def inputs_proxy(ex, base, attr):
        if base.sort == GRAPH and attr == "inputs" and only_here(ex):
            return VPy(obj=("graph_inputs", base))
        return None
    w.ref_getattr_hooks.insert(0, inputs_proxy)

    def proxy_iter(ex, it):
        if isinstance(it, VPy) and isinstance(it.obj, tuple) and it.obj and it.obj[0] == "graph_inputs":
            s_ = ex.read_field(it.obj[1], "inputs")
            ex.assume(s_.length >= 0)
            return VSeq(s_.elem, list(s_.arrs), s_.length, False)
        return None
    w.iter_hooks.append(proxy_iter)

    def proxy_methods(ex, recv, name, args, kw):
        if isinstance(recv, VPy) and isinstance(recv.obj, tuple) and recv.obj and recv.obj[0] == "graph_inputs":
            g = recv.obj[1]
            cur = ex.read_field(g, "inputs")
            if name == "clear" and not args:
                ex.write_field(g, "inputs", VSeq(cur.elem, list(cur.arrs), z3.IntVal(0), True))
                return (NONE,)
            if name == "extend" and len(args) == 1 and isinstance(args[0], VSeq):
                ex.write_field(g, "inputs", ex.seq_concat(cur, args[0]))
                return (NONE,)
            raise OutOfSubset(f"graph.inputs.{name}")
        return None
    w.method_hooks.append(proxy_methods)

    def value_methods(ex, recv, name, args, kw):
        if isinstance(recv, VRef) and recv.sort == VALUE and not args:
            if name == "uses":
                return (VBool(has_uses(recv.term, hv(ex))),)       # only its truthiness is used
            if name == "is_graph_output":
                return (VBool(is_out(recv.term, hv(ex))),)
        return None
    w.method_hooks.append(value_methods)
    w.known_methods = set(getattr(w, "known_methods", set())) | {(VALUE, "uses"), (VALUE, "is_graph_output")}
    w.trust("onnx_ir.Value.uses() is non-empty iff some node input refers to the value; Value.is_graph_output(); graph.inputs is the list of graph inputs (clear/extend replace its content)")

    def name_of(ex, v):
        na = ex.heap_arrays(VALUE, "name")
        return sel(na[0], v), sel(na[1], v)

    def in_seq(seq, x, upto=None):
        k = z3.Int("k!pi")
        return z3.Exists([k], z3.And(0 <= k, k < (seq.length if upto is None else upto), sel(seq.arrs[0], k) == x))

    def inv_prune(lc):
        ex = lc.ex
        keep, orig = lc["keep"], lc.seq
        k = z3.Int("k")
        x = sel(orig.arrs[0], k)
        isnone, nm = name_of(ex, x)
        must = z3.Or(isnone, positional(nm), has_uses(x, hv(ex)))
        items = [("kept_so_far_come_from_the_inputs", z3.ForAll([k], z3.Implies(z3.And(0 <= k, k < keep.length), in_seq(orig, sel(keep.arrs[0], k), lc.idx)))),
                 ("keep_is_no_longer_than_the_prefix", z3.And(keep.length >= 0, keep.length <= lc.idx))]
        if lc.phase == "inv-step":
            # (forall k < i+1. phi(k))  ==  (forall k < i. phi(k)) and phi(i)
            i = z3.simplify(lc.idx - 1)
            xi = sel(orig.arrs[0], i)
            isnone_i, nm_i = name_of(ex, xi)
            items += [("positional_and_used_earlier_inputs_are_still_kept", z3.ForAll([k], z3.Implies(z3.And(0 <= k, k < i, must), in_seq(keep, x)))),
                      ("this_input_is_kept_if_positional_or_used", z3.Implies(z3.Or(isnone_i, positional(nm_i), has_uses(xi, hv(ex))), in_seq(keep, xi)))]
        else:
            items.append(("positional_and_used_inputs_so_far_are_kept", z3.ForAll([k], z3.Implies(z3.And(0 <= k, k < lc.idx, must), in_seq(keep, x)))))
        return items

    def post_prune(c: Ctx):
        ex = c.ex
        g = c["graph"]
        new = ex.read_field(g, "inputs")
        old = c.old_field(g, "inputs")
        k = z3.Int("k")
        x = sel(old.arrs[0], k)
        isnone, nm = name_of(ex, x)
        hv_old = c.old_ghost.get("heap_version", z3.IntVal(0))
        return [("every_positional_input_is_still_an_input", z3.ForAll([k], z3.Implies(z3.And(0 <= k, k < old.length, z3.Not(isnone), positional(nm)), in_seq(new, x)))),
                ("every_used_input_is_still_an_input", z3.ForAll([k], z3.Implies(z3.And(0 <= k, k < old.length, has_uses(x, hv_old)), in_seq(new, x)))),
                ("no_input_is_invented", z3.ForAll([k], z3.Implies(z3.And(0 <= k, k < new.length), in_seq(old, sel(new.arrs[0], k)))))]

    w.add_contract(Contract(
        f"{MO}:prune_unused_graph_inputs_ir", params={"graph": Ref(GRAPH)}, ret=NoneT,
        ensures=[("interface", post_prune)], loops={0: LoopSpec(invariant=inv_prune, heap_unchanged=True, label="inputs")},
        local_types={"keep": Seq(Ref(VALUE)), "removed": Seq(Str), "original_inputs": Seq(Ref(VALUE))},
        modifies=[(GRAPH, "inputs")], props=["C05", "C12", "C02"], opaque_externals=True, witnesses=["D7"],
    ))

    # ---- bounded stand-in (labelled bounded, never counted as proved): custom input/output names
    def bounded_names(world, c, out):
        import time
        from pyvc.run import run_witness
        t0 = time.time()
        holds, detail = run_witness("C05_custom_names_family", timeout=900)
        d = {"oid": f"{MU}:_resolve_positional_inputs+_apply_custom_io_names_on_ir#bounded:custom_names_land_on_the_positional_argument_of_the_same_index", "kind": "bounded",
             "status": "discharged" if holds else ("refuted" if holds is False else "unknown"), "backend": "enumerated", "time": time.time() - t0, "instances": 1, "trivial": 0,
             "bounded": "n = 1..13 positional inputs named in_<i> / in_<i>_nchw, listed in order / reversed / shuffled, with and without two non-positional inputs; <= 3 outputs; duplicate and colliding names",
             "note": f"the regex / dict / sort code of the renaming is outside the VC generator's string subset (re.fullmatch groups, int()); the real functions are run on an enumerated family; {detail}"[:600]}
        if holds is False:
            d.update(args={"witness": "C05_custom_names_family"}, replay={"reproduced": True, "detail": detail}, formula="", model=detail)
        out["obls"].append(d)
        out["paths"], out["time"] = 1, time.time() - t0
        return out
    w.add_contract(Contract(f"{MU}:<bounded-custom-names>", kind="custom", custom=bounded_names, props=["C05"], witnesses=["C05_custom_names_family"]))

    # ---- bounded stand-in: the element-type reconciliation of add_outputs_from_vars (which output gets a Cast back to the JAX type)
    def bounded_out_types(world, c, out):
        import time
        from pyvc.run import run_witness
        t0 = time.time()
        holds, detail = run_witness("C05_output_integer_types_family", timeout=1500)
        d = {"oid": "jax2onnx.converter.ir_context:IRContext.add_outputs_from_vars#bounded:declared_integer_and_bool_output_types_are_the_jax_type_or_int64", "kind": "bounded",
             "status": "discharged" if holds else ("refuted" if holds is False else "unknown"), "backend": "enumerated", "time": time.time() - t0, "instances": 1, "trivial": 0,
             "bounded": "12 programs (scan with narrow-integer carries/stacked outputs, argmax, comparisons, int8/uint16/int16 arithmetic, clip, where, float16, casts) x host x64 flag off/on x enable_double_precision off/on; compared with jax.eval_shape at the export's precision",
             "note": f"the dtype branch of add_outputs_from_vars is not under contract (only order / one output per leaf is); the real export is run on an enumerated family; {detail}"[:500]}
        if holds is False:
            d.update(args={"witness": "C05_output_integer_types_family"}, replay={"reproduced": True, "detail": detail}, formula="", model=detail)
        out["obls"].append(d)
        out["paths"], out["time"] = 1, time.time() - t0
        return out
    w.add_contract(Contract("jax2onnx.converter.ir_context:<bounded-output-types>", kind="custom", custom=bounded_out_types, props=["C05"], witnesses=["C05_output_integer_types_family"]))
