"""Object-heap model for C13 (DESIGN §3.5).

D : Key(obj, attr) -> Val   own-dictionary entry, `ABSENT` when there is none
Base : Key -> Val           what attribute resolution finds further up the MRO
R(D,k) = D[k] if D[k] != ABSENT else Base(k)      (ABSENT again when nothing is found)

getattr(o,a,default) reads R; setattr writes D; delattr needs an own entry.
Base is whatever resolution finds above the object; nothing is assumed about inheritance between patched
objects: the contracts demand that the own dictionary D is exactly restored (an earlier revision assumed that
no patched key inherits from another patched key - false on the real specs, see DESIGN 11.3 D26).
"""
from __future__ import annotations

import z3

from pyvc.vals import *  # noqa
from pyvc.core import *  # noqa

OBJ, VAL, SPEC, FN = "PyObj", "PyVal", "PatchSpec", "PyCallable"


class PyHeap:
    def __init__(self, w):
        self.w = w
        self.Obj, self.Val = ref_sort(OBJ), ref_sort(VAL)
        self.Key, self.mk_key, (self.key_obj, self.key_attr) = z3.TupleSort("Key", [self.Obj, z3.StringSort()])
        self.DSort = z3.ArraySort(self.Key, self.Val)
        self.ABSENT = z3.Const("ABSENT", self.Val)       # no own entry / nothing found
        self.MISSING = z3.Const("_MISSING", self.Val)    # the module's private sentinel object
        self.NONEVAL = z3.Const("NoneVal", self.Val)     # python None stored as an attribute value
        self.Base = w.fn("Base", self.Key, self.Val)
        w.add_axiom(z3.Distinct(self.ABSENT, self.MISSING, self.NONEVAL, null_of(VAL)))
        k = z3.Const("k!b", self.Key)
        # attribute values found by resolution are real objects, never the private sentinel
        w.add_axiom(z3.ForAll([k], z3.And(self.Base(k) != self.MISSING, self.Base(k) != null_of(VAL)), patterns=[self.Base(k)]))
        w.trust("python attribute model: getattr reads own dict then a fixed inherited layer; setattr writes the own dict; delattr requires an own entry (DESIGN §3.5)")

    def D(self, ex):
        if "D" not in ex.ghost:
            ex.ghost["D"] = z3.Const("D0", self.DSort)
            ex.ghost["D0"] = ex.ghost["D"]
            k = z3.Const("k!d", self.Key)
            # no stored attribute value is the private sentinel or null
            ex.assume(z3.ForAll([k], z3.And(z3.Select(ex.ghost["D"], k) != self.MISSING, z3.Select(ex.ghost["D"], k) != null_of(VAL))))
        return ex.ghost["D"]

    def R(self, D, key):
        own = z3.Select(D, key)
        return z3.If(own != self.ABSENT, own, self.Base(key))

    def key(self, obj: VRef, attr: VStr):
        return self.mk_key(obj.term, attr.term)

    # ---- builtins on PyObj
    def b_getattr(self, ex, args):
        if not (isinstance(args[0], VRef) and args[0].sort == OBJ):
            return None
        obj, attr = args[0], args[1]
        r = self.R(self.D(ex), self.key(obj, attr))
        if ex.branch(r == self.ABSENT):
            if len(args) > 2:
                return args[2]
            raise PyRaise("AttributeError")
        return VRef(VAL, r)

    def b_setattr(self, ex, args, kw):
        obj, attr, v = args
        if not (isinstance(obj, VRef) and obj.sort == OBJ):
            raise OutOfSubset(f"setattr on {obj!r}")
        # extension types / read-only descriptors may refuse: no state change then
        if ex.branch(z3.Bool(ex.fresh_name("setattr_refused"))):
            raise PyRaise("AnyException", "setattr refused")
        vt = self.NONEVAL if isinstance(v, VNone) else v.term
        ex.ghost["D"] = z3.Store(self.D(ex), self.key(obj, attr), vt)
        ex.events.append(("setattr", obj, attr, v))
        return NONE

    def b_delattr(self, ex, args, kw):
        obj, attr = args
        D = self.D(ex)
        k = self.key(obj, attr)
        if ex.branch(z3.Select(D, k) == self.ABSENT):
            raise PyRaise("AttributeError", "delattr of non-own attribute")
        ex.ghost["D"] = z3.Store(D, k, self.ABSENT)
        return NONE
