"""numpy arrays over extended reals for C18 (DESIGN §3.4).

An array `a` has size(a), shape(a) (an uninterpreted shape value; equal shapes
have equal sizes), dkind(a) in {bool,int,uint,float,complex,other}, and per
flat index i an element (cls, val):  cls 0 finite, 1 NaN, 2 +inf, 3 -inf.
Elementwise numpy functions create a fresh array whose elements are defined
pointwise with IEEE-754 rules for NaN/inf; finite arithmetic is over the reals
(rounding is not modelled: assumption A-real).
"""
from __future__ import annotations

import z3

from pyvc.vals import *  # noqa
from pyvc.core import *  # noqa

FARR, SHP, DT = "FArr", "ShapeV", "NpDT"
FIN, NAN, PINF, NINF = 0, 1, 2, 3
K_BOOL, K_INT, K_UINT, K_FLOAT, K_COMPLEX, K_OTHER = range(6)


class NpModel:
    def __init__(self, w):
        self.w = w
        A = self.A = ref_sort(FARR)
        self.S = ref_sort(SHP)
        self.cls = w.fn("el_cls", A, z3.IntSort(), z3.IntSort())
        self.val = w.fn("el_val", A, z3.IntSort(), z3.RealSort())
        self.size = w.fn("arr_size", A, z3.IntSort())
        self.shape = w.fn("arr_shape", A, self.S)
        self.ndim = w.fn("arr_ndim", A, z3.IntSort())
        self.dkind = w.fn("arr_dkind", A, z3.IntSort())
        self.shape_size = w.fn("shape_size", self.S, z3.IntSort())
        a, i = z3.Const("a!np", A), z3.Int("i!np")
        w.add_axiom(z3.ForAll([a], z3.And(self.size(a) >= 0, self.size(a) == self.shape_size(self.shape(a)), self.dkind(a) >= 0, self.dkind(a) <= 5), patterns=[self.size(a)]))
        w.add_axiom(z3.ForAll([a, i], z3.And(self.cls(a, i) >= 0, self.cls(a, i) <= 3), patterns=[self.cls(a, i)]))
        # only floating/complex arrays hold NaN/inf
        w.add_axiom(z3.ForAll([a, i], z3.Implies(z3.And(self.dkind(a) != K_FLOAT, self.dkind(a) != K_COMPLEX), self.cls(a, i) == FIN), patterns=[self.cls(a, i)]))
        w.trust("numpy array model of specs/nparr.py: elementwise ops follow IEEE-754 for NaN/inf, finite arithmetic over the reals (A-real: rounding not modelled); np.allclose/np.array_equal by their documented element-wise definitions")
        w.ref_classes[FARR] = {"numpy.ndarray"}
        w.fields[(FARR, "size")] = Int
        self._install()

    # ------------------------------------------------------------ elements
    def el(self, a, i):
        return self.cls(a, i), self.val(a, i)

    @staticmethod
    def e_abs(x):
        c, v = x
        return z3.If(c == NINF, z3.IntVal(PINF), c), z3.If(v >= 0, v, -v)

    @staticmethod
    def e_neg(x):
        c, v = x
        return z3.If(c == PINF, z3.IntVal(NINF), z3.If(c == NINF, z3.IntVal(PINF), c)), -v

    @classmethod
    def e_add(cls, x, y):
        (c1, v1), (c2, v2) = x, y
        nan = z3.Or(c1 == NAN, c2 == NAN, z3.And(c1 == PINF, c2 == NINF), z3.And(c1 == NINF, c2 == PINF))
        c = z3.If(nan, z3.IntVal(NAN), z3.If(z3.Or(c1 == PINF, c2 == PINF), z3.IntVal(PINF), z3.If(z3.Or(c1 == NINF, c2 == NINF), z3.IntVal(NINF), z3.IntVal(FIN))))
        return c, v1 + v2

    @classmethod
    def e_sub(cls, x, y):
        return cls.e_add(x, cls.e_neg(y))

    @staticmethod
    def e_mul(x, y):
        (c1, v1), (c2, v2) = x, y
        inf1, inf2 = z3.Or(c1 == PINF, c1 == NINF), z3.Or(c2 == PINF, c2 == NINF)
        zero1, zero2 = z3.And(c1 == FIN, v1 == 0), z3.And(c2 == FIN, v2 == 0)
        nan = z3.Or(c1 == NAN, c2 == NAN, z3.And(inf1, zero2), z3.And(inf2, zero1))
        neg1 = z3.Or(c1 == NINF, z3.And(c1 == FIN, v1 < 0))
        neg2 = z3.Or(c2 == NINF, z3.And(c2 == FIN, v2 < 0))
        c = z3.If(nan, z3.IntVal(NAN), z3.If(z3.Or(inf1, inf2), z3.If(neg1 != neg2, z3.IntVal(NINF), z3.IntVal(PINF)), z3.IntVal(FIN)))
        return c, v1 * v2

    @staticmethod
    def e_lt(x, y):
        """x < y in the extended order; False if either is NaN"""
        (c1, v1), (c2, v2) = x, y
        return z3.And(c1 != NAN, c2 != NAN, z3.Or(
            z3.And(c1 == NINF, c2 != NINF), z3.And(c2 == PINF, c1 != PINF), z3.And(c1 == FIN, c2 == FIN, v1 < v2)))

    @staticmethod
    def e_eq(x, y):
        (c1, v1), (c2, v2) = x, y
        return z3.And(c1 != NAN, c2 != NAN, c1 == c2, z3.Implies(c1 == FIN, v1 == v2))

    def scalar(self, v):
        """python scalar -> element"""
        if isinstance(v, VReal):
            return z3.IntVal(FIN), v.term
        if isinstance(v, (VInt, VBool)):
            t = v.term if isinstance(v, VInt) else z3.If(v.term, 1, 0)
            return z3.IntVal(FIN), z3.ToReal(t)
        if isinstance(v, VPy) and isinstance(v.obj, float):
            f = v.obj
            return z3.IntVal(NAN if f != f else (PINF if f > 0 else NINF)), z3.RealVal(0)
        return None

    # ------------------------------------------------------------ array construction
    def new_like(self, ex, a, elem_fn, kind=None, name="arr"):
        """fresh array with shape of `a` and elements elem_fn(i)"""
        r = ex.fresh_const(name, self.A)
        i = z3.Int("i!nl")
        c, v = elem_fn(i)
        ex.assume(z3.And(r != null_of(FARR), self.shape(r) == self.shape(a), self.size(r) == self.size(a), self.ndim(r) == self.ndim(a)))
        if kind is not None:
            ex.assume(self.dkind(r) == kind)
        ex.assume(z3.ForAll([i], z3.Implies(z3.And(0 <= i, i < self.size(a)), z3.And(self.cls(r, i) == c, self.val(r, i) == v)), patterns=[self.cls(r, i), self.val(r, i)]))
        return VRef(FARR, r)

    def unknown(self, ex, name="arr_unknown"):
        r = ex.fresh_const(name, self.A)
        ex.assume(r != null_of(FARR))
        return VRef(FARR, r)

    def is_arr(self, v):
        return isinstance(v, VRef) and v.sort == FARR

    def operand(self, v):
        """(array term or None, element function i -> (cls,val))"""
        if self.is_arr(v):
            return v.term, (lambda i, a=v.term: self.el(a, i))
        s = self.scalar(v)
        if s is not None:
            return None, (lambda i, s=s: s)
        return None, None

    def binary(self, ex, a, b, f, kind=None):
        ta, fa = self.operand(a)
        tb, fb = self.operand(b)
        if fa is None or fb is None or (ta is None and tb is None):
            return None
        base = ta if ta is not None else tb
        if ta is not None and tb is not None:
            # numpy broadcasting of unequal shapes is not modelled: the result is unknown then
            if ex.branch(self.shape(ta) != self.shape(tb)):
                return self.unknown(ex)
        return self.new_like(ex, base, lambda i: f(fa(i), fb(i)), kind)

    def bool_elem(self, cond):
        return z3.IntVal(FIN), z3.If(cond, z3.RealVal(1), z3.RealVal(0))

    def truth(self, x):
        c, v = x
        return z3.Or(c != FIN, v != 0)

    # ------------------------------------------------------------ installation
    def _install(self):
        import ast
        w = self.w
        N = self

        def binop_hook(ex, op, a, b):
            if not (N.is_arr(a) or N.is_arr(b)):
                return None
            r = None
            if isinstance(op, ast.Sub):
                r = N.binary(ex, a, b, N.e_sub)
            elif isinstance(op, ast.Add):
                r = N.binary(ex, a, b, N.e_add)
            elif isinstance(op, ast.Mult):
                r = N.binary(ex, a, b, N.e_mul)
            if r is not None:
                return r
            if isinstance(op, (ast.Sub, ast.Add, ast.Mult)):
                return N.unknown(ex)
            if isinstance(op, ast.BitAnd):
                return N.binary(ex, a, b, lambda x, y: N.bool_elem(z3.And(N.truth(x), N.truth(y))), K_BOOL)
            if isinstance(op, ast.BitOr):
                return N.binary(ex, a, b, lambda x, y: N.bool_elem(z3.Or(N.truth(x), N.truth(y))), K_BOOL)
            return N.unknown(ex)
        w.binop_hooks.append(binop_hook)

        def compare_hook(ex, op, a, b):
            if not (N.is_arr(a) or N.is_arr(b)):
                return None
            table = {
                ast.Gt: lambda x, y: N.e_lt(y, x), ast.Lt: N.e_lt,
                ast.GtE: lambda x, y: z3.Or(N.e_lt(y, x), N.e_eq(x, y)), ast.LtE: lambda x, y: z3.Or(N.e_lt(x, y), N.e_eq(x, y)),
                ast.Eq: N.e_eq, ast.NotEq: lambda x, y: z3.Not(N.e_eq(x, y)),
            }
            f = table.get(type(op))
            if f is None:
                return None
            r = N.binary(ex, a, b, lambda x, y: N.bool_elem(f(x, y)), K_BOOL)
            return r
        w.compare_hooks.append(compare_hook)

        def unary_hook(ex, op, v):
            if not N.is_arr(v):
                return None
            if isinstance(op, ast.Invert):
                return N.new_like(ex, v.term, lambda i: N.bool_elem(z3.Not(N.truth(N.el(v.term, i)))), K_BOOL)
            if isinstance(op, ast.USub):
                return N.new_like(ex, v.term, lambda i: N.e_neg(N.el(v.term, i)))
            return None
        w.unary_hooks.append(unary_hook)

        def np_fn(name):
            def deco(f):
                w.path_models["numpy." + name] = f
                return f
            return deco

        @np_fn("asarray")
        def _asarray(ex, args, kw):
            if N.is_arr(args[0]) or (isinstance(args[0], VRef) and args[0].sort == "NdArray"):
                return args[0]
            if isinstance(args[0], (VList, VTuple, VSeq, VInt)):
                return args[0]  # a python list/int converted to an array of the same elements
            return N.unknown(ex, "asarray")

        @np_fn("abs")
        def _abs(ex, args, kw):
            a = args[0]
            return N.new_like(ex, a.term, lambda i: N.e_abs(N.el(a.term, i))) if N.is_arr(a) else N.unknown(ex)
        w.path_models["numpy.absolute"] = _abs

        @np_fn("isnan")
        def _isnan(ex, args, kw):
            a = args[0]
            return N.new_like(ex, a.term, lambda i: N.bool_elem(N.cls(a.term, i) == NAN), K_BOOL)

        @np_fn("isinf")
        def _isinf(ex, args, kw):
            a = args[0]
            return N.new_like(ex, a.term, lambda i: N.bool_elem(z3.Or(N.cls(a.term, i) == PINF, N.cls(a.term, i) == NINF)), K_BOOL)

        @np_fn("isfinite")
        def _isfinite(ex, args, kw):
            a = args[0]
            return N.new_like(ex, a.term, lambda i: N.bool_elem(N.cls(a.term, i) == FIN), K_BOOL)

        @np_fn("logical_not")
        def _lnot(ex, args, kw):
            a = args[0]
            return N.new_like(ex, a.term, lambda i: N.bool_elem(z3.Not(N.truth(N.el(a.term, i)))), K_BOOL)

        @np_fn("logical_and")
        def _land(ex, args, kw):
            return N.binary(ex, args[0], args[1], lambda x, y: N.bool_elem(z3.And(N.truth(x), N.truth(y))), K_BOOL)

        @np_fn("logical_or")
        def _lor(ex, args, kw):
            return N.binary(ex, args[0], args[1], lambda x, y: N.bool_elem(z3.Or(N.truth(x), N.truth(y))), K_BOOL)

        @np_fn("where")
        def _where(ex, args, kw):
            if len(args) != 3 or not N.is_arr(args[0]):
                return N.unknown(ex)
            c = args[0]
            _, fa = N.operand(args[1])
            _, fb = N.operand(args[2])
            if fa is None or fb is None:
                return N.unknown(ex)
            def el(i):
                t = N.truth(N.el(c.term, i))
                (c1, v1), (c2, v2) = fa(i), fb(i)
                return z3.If(t, c1, c2), z3.If(t, v1, v2)
            return N.new_like(ex, c.term, el)

        def isclose_elem(x, y, rtol, atol, equal_nan):
            (c1, v1), (c2, v2) = x, y
            d = v1 - v2
            absd = z3.If(d >= 0, d, -d)
            absb = z3.If(v2 >= 0, v2, -v2)
            return z3.If(z3.And(c1 == FIN, c2 == FIN), absd <= atol + rtol * absb,
                         z3.If(z3.Or(c1 == NAN, c2 == NAN), z3.And(equal_nan, c1 == NAN, c2 == NAN), c1 == c2))
        self.isclose_elem = isclose_elem

        def tol(ex, kw, name, dflt):
            v = kw.get(name)
            if v is None:
                return z3.RealVal(dflt)
            r = ex.as_real_term(v)
            if r is None:
                raise OutOfSubset(f"np.allclose {name}={v!r}")
            return r

        @np_fn("allclose")
        def _allclose(ex, args, kw):
            a, b = args[0], args[1]
            if not (N.is_arr(a) and N.is_arr(b)):
                raise OutOfSubset("np.allclose on non-arrays")
            rtol, atol = tol(ex, kw, "rtol", "1e-05"), tol(ex, kw, "atol", "1e-08")
            en = ex.truthy(kw["equal_nan"]) if "equal_nan" in kw else z3.BoolVal(False)
            if ex.branch(N.shape(a.term) != N.shape(b.term)):
                return VBool(z3.Bool(ex.fresh_name("allclose_broadcast")))  # broadcasting case not modelled: unconstrained
            r = ex.fresh_const("allclose", z3.BoolSort())
            i = z3.Int("i!ac")
            ex.assume(r == z3.ForAll([i], z3.Implies(z3.And(0 <= i, i < N.size(a.term)), isclose_elem(N.el(a.term, i), N.el(b.term, i), rtol, atol, en))))
            return VBool(r)

        @np_fn("array_equal")
        def _array_equal(ex, args, kw):
            a, b = args[0], args[1]
            if not (N.is_arr(a) and N.is_arr(b)):
                raise OutOfSubset("np.array_equal on non-arrays")
            r = ex.fresh_const("array_equal", z3.BoolSort())
            i = z3.Int("i!ae")
            ex.assume(r == z3.And(N.shape(a.term) == N.shape(b.term), z3.ForAll([i], z3.Implies(z3.And(0 <= i, i < N.size(a.term)), N.e_eq(N.el(a.term, i), N.el(b.term, i))))))
            return VBool(r)

        @np_fn("issubdtype")
        def _issubdtype(ex, args, kw):
            dt, cls = args
            if not (isinstance(dt, VRef) and dt.sort == DT and isinstance(cls, VPy) and cls.path):
                return VBool(z3.Bool(ex.fresh_name("issubdtype")))
            k = N.dt_kind(dt.term)
            table = {"numpy.floating": k == K_FLOAT, "numpy.complexfloating": k == K_COMPLEX, "numpy.integer": z3.Or(k == K_INT, k == K_UINT),
                     "numpy.signedinteger": k == K_INT, "numpy.unsignedinteger": k == K_UINT, "numpy.bool_": k == K_BOOL,
                     "numpy.inexact": z3.Or(k == K_FLOAT, k == K_COMPLEX), "numpy.number": z3.And(k != K_BOOL, k != K_OTHER)}
            t = table.get(cls.path)
            return VBool(t if t is not None else z3.Bool(ex.fresh_name("issubdtype")))

        @np_fn("transpose")
        def _transpose(ex, args, kw):
            a = args[0]
            r = N.unknown(ex, "transposed")
            if N.is_arr(a):
                ex.assume(z3.And(N.size(r.term) == N.size(a.term), N.ndim(r.term) == N.ndim(a.term), N.dkind(r.term) == N.dkind(a.term)))
            return r

        def errstate(ex, fn, args, kwargs, body_thunk):
            if isinstance(fn, VPy) and fn.path == "numpy.errstate":
                body_thunk(NONE)
                return True
            return False
        w.with_call_hooks.append(errstate)

        self.dt_kind = w.fn("dt_kind", ref_sort(DT), z3.IntSort())
        self.dt_of = w.fn("dt_of", self.A, ref_sort(DT))
        a = z3.Const("a!dt", self.A)
        w.add_axiom(z3.ForAll([a], self.dt_kind(self.dt_of(a)) == self.dkind(a), patterns=[self.dt_of(a)]))

        def getattr_arr(ex, base, attr):
            if not N.is_arr(base):
                return None
            t = base.term
            if attr == "shape":
                return VRef(SHP, N.shape(t))
            if attr == "ndim":
                return VInt(N.ndim(t))
            if attr == "size":
                return VInt(N.size(t))
            if attr == "dtype":
                return VRef(DT, N.dt_of(t))
            if attr in ("any", "all", "max", "min", "astype", "sum", "reshape", "item", "real", "imag", "copy"):
                return VFunc("method", attr, recv=base)
            return None
        w.ref_getattr_hooks.append(getattr_arr)

        def method_hook(ex, recv, name, args, kw):
            if not N.is_arr(recv):
                return None
            t = recv.term
            i = z3.Int("i!m")
            rng = z3.And(0 <= i, i < N.size(t))
            if name == "any":
                r = ex.fresh_const("any", z3.BoolSort())
                ex.assume(r == z3.Exists([i], z3.And(rng, N.truth(N.el(t, i)))))
                return (VBool(r),)
            if name == "all":
                r = ex.fresh_const("all", z3.BoolSort())
                ex.assume(r == z3.ForAll([i], z3.Implies(rng, N.truth(N.el(t, i)))))
                return (VBool(r),)
            if name in ("max", "min", "sum", "item"):
                if name in ("max", "min") and ex.branch(N.size(t) <= 0):
                    raise PyRaise("ValueError", "zero-size array reduction")
                return (VReal(ex.fresh_const("reduced", z3.RealSort())),)
            if name in ("astype", "reshape", "copy"):
                return (N.unknown(ex, name),)  # content after a cast/reshape is not modelled (over-approximation)
            return None
        w.method_hooks.append(method_hook)

        def getitem_hook(ex, base, idx):
            if N.is_arr(base):
                return N.unknown(ex, "indexed")  # masked / fancy / ellipsis indexing: content unknown, size unknown
            if isinstance(base, VRef) and base.sort == SHP:
                from specs.opaque import fresh_opaque
                return fresh_opaque(ex)
            return None
        w.getitem_hooks.append(getitem_hook)

        def truthy_hook(ex, v):
            if N.is_arr(v):
                raise OutOfSubset("truth value of an array")
            return None
        w.truthy_hooks.append(truthy_hook)


def register(w):
    if getattr(w, "npmodel", None) is None:
        from specs import opaque
        opaque.install(w)
        w.npmodel = NpModel(w)
    return w.npmodel
