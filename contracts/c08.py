"""C08 — metadata kernels of the optimizer (DESIGN §4.8).

Declared dims are compared through their *key* (the function the code itself
uses to decide whether two declarations differ):
    dimkey(int i)            = "int:" + str(i)
    dimkey(SymbolicDim(v))   = "repr:" + repr(SymbolicDim(v))    (a pure function of v)
`_copy_shape_only/_copy_shape_dtype(dst, src)`: when src declares a shape, dst
afterwards declares exactly the same dims, key by key (a fresh clone, or its
own shape when it already had the same key); otherwise dst's shape is untouched.
"""
from __future__ import annotations

import z3

from pyvc.vals import *  # noqa
from pyvc.core import *  # noqa
from pyvc.world import Contract, Ctx
from pyvc.stmts import LoopSpec
from specs import graph as GM
from specs import ctxmodel
from specs.graph import NODE, VALUE, GRAPH
from specs.ctxmodel import SHAPE, IRSYM, IRDIM, TT

MO = "jax2onnx.converter.ir_optimizations"


def register(w):
    if getattr(w, "c08", None) is not None:
        return w.c08
    G = GM.register(w)
    M = ctxmodel.register(w)
    sel = z3.Select
    sym_repr = w.fn("SymbolicDim_repr", z3.BoolSort(), z3.StringSort(), z3.StringSort())
    w.trust("repr(ir.SymbolicDim(v)) is a pure function of v")

    def repr_hook(ex, v):
        if isinstance(v, VRef) and v.sort == IRSYM:
            a = ex.heap_arrays(IRSYM, "value")
            return VStr(sym_repr(sel(a[0], v.term), sel(a[1], v.term)))
        return None
    prev = getattr(w, "repr_hook", None)
    w.repr_hook = (lambda ex, v: repr_hook(ex, v) or (prev(ex, v) if prev else None))

    def dimkey(ex, tag, i, s):
        a = ex.heap_arrays(IRSYM, "value")
        return z3.If(tag == 0, z3.Concat(z3.StringVal("int:"), ex.to_str(VInt(i)).term), z3.Concat(z3.StringVal("repr:"), sym_repr(sel(a[0], s), sel(a[1], s))))

    def dims_at(arrs, shape_term):
        """(tag, int, sym, len) arrays of one shape object"""
        return [sel(x, shape_term) for x in arrs]

    def same_keys(ex, arrs_a, sa, arrs_b, sb):
        ta, ia, ya, na = dims_at(arrs_a, sa)
        tb, ib, yb, nb = dims_at(arrs_b, sb)
        k = z3.Int("k")
        return z3.And(na == nb, z3.ForAll([k], z3.Implies(z3.And(0 <= k, k < na), dimkey(ex, sel(ta, k), sel(ia, k), sel(ya, k)) == dimkey(ex, sel(tb, k), sel(ib, k), sel(yb, k)))))

    class C08:
        pass
    api = C08()
    api.dimkey, api.same_keys, api.sym_repr = dimkey, same_keys, sym_repr
    w.c08 = api

    # ---- _shape_dims_key(shape): None for None, else the tuple of keys
    def post_key(c: Ctx):
        s, r = c["shape"], c.result
        if isinstance(s, VNone):
            return z3.BoolVal(isinstance(r, VNone))
        if isinstance(r, VNone):
            return z3.BoolVal(False)
        ta, ia, ya, na = dims_at(c.ex.heap_arrays(SHAPE, "dims"), s.term)
        k = z3.Int("k")
        return z3.And(r.length == na, z3.ForAll([k], z3.Implies(z3.And(0 <= k, k < na), sel(r.arrs[0], k) == dimkey(c.ex, sel(ta, k), sel(ia, k), sel(ya, k)))))

    def inv_key(lc):
        key = lc["key"]
        s = lc["shape"]
        ta, ia, ya, na = dims_at(lc.ex.heap_arrays(SHAPE, "dims"), s.term)
        k = z3.Int("k")
        return [("len", key.length == lc.idx),
                ("prefix", z3.ForAll([k], z3.Implies(z3.And(0 <= k, k < lc.idx), sel(key.arrs[0], k) == dimkey(lc.ex, sel(ta, k), sel(ia, k), sel(ya, k)))))]

    w.add_contract(Contract(
        f"{MO}:_shape_dims_key", params={"shape": Opt(Ref(SHAPE))}, ret=Opt(Seq(Str)), raises=set(),
        ensures=[("is_the_tuple_of_dim_keys", post_key)], loops={0: LoopSpec(invariant=inv_key, label="dims")},
        local_types={"key": Seq(Str)}, props=["C08"],
        note="call sites pass value.shape (an ir.Shape or None); the Sequence branch of the Union is not exercised by the optimizer",
    ))

    # ---- _copy_shape_only / _copy_shape_dtype
    def shape_part(c: Ctx):
        ex = c.ex
        dst, src = c["dst"], c["src"]
        shp1 = ex.heap_arrays(VALUE, "shape")[0]
        shp0 = c.old_arrays(VALUE, "shape")[0]
        d1, d0 = ex.heap_arrays(SHAPE, "dims"), c.old_arrays(SHAPE, "dims")
        v, sh = z3.Const("v!fr", ref_sort(VALUE)), z3.Const("s!fr", ref_sort(SHAPE))
        frame = z3.ForAll([v], z3.Implies(v != (dst.term if isinstance(dst, VRef) else null_of(VALUE)), sel(shp1, v) == sel(shp0, v)))
        if isinstance(dst, VNone) or isinstance(src, VNone):
            return [("nothing_written_without_both_values", z3.ForAll([v], sel(shp1, v) == sel(shp0, v)))]
        s_src = sel(shp0, src.term)
        new, old = sel(shp1, dst.term), sel(shp0, dst.term)
        return [
            ("only_dst_is_written", frame),
            ("dst_declares_the_dims_of_src_when_src_has_a_shape", z3.Implies(s_src != null_of(SHAPE), z3.And(new != null_of(SHAPE), same_keys(ex, d1, new, d0, s_src)))),
            ("dst_shape_untouched_when_src_has_none", z3.Implies(s_src == null_of(SHAPE), new == old)),
            ("existing_shape_objects_are_not_mutated", z3.ForAll([sh], z3.Implies(c.existed_at_entry(sh, SHAPE), z3.And([sel(a, sh) == sel(b, sh) for a, b in zip(d1, d0)])))),
        ]

    def type_part(c: Ctx):
        ex = c.ex
        dst, src = c["dst"], c["src"]
        t1, t0 = ex.heap_arrays(VALUE, "type")[0], c.old_arrays(VALUE, "type")[0]
        v = z3.Const("v!fr", ref_sort(VALUE))
        if isinstance(dst, VNone) or isinstance(src, VNone):
            return [("no_type_written_without_both_values", z3.ForAll([v], sel(t1, v) == sel(t0, v)))]
        s = sel(t0, src.term)
        return [("only_dst_type_is_written", z3.ForAll([v], z3.Implies(v != dst.term, sel(t1, v) == sel(t0, v)))),
                ("dst_type_is_src_type_when_present", sel(t1, dst.term) == z3.If(s != null_of(TT), s, sel(t0, dst.term)))]

    def type_untouched(c: Ctx):
        t1, t0 = c.ex.heap_arrays(VALUE, "type")[0], c.old_arrays(VALUE, "type")[0]
        v = z3.Const("v!fr", ref_sort(VALUE))
        return [("type_untouched", z3.ForAll([v], sel(t1, v) == sel(t0, v)))]

    pre_len = ("shape_lengths_nonnegative", lambda c: z3.And([z3.BoolVal(True)] + [sel(c.ex.heap_arrays(SHAPE, "dims")[-1], sel(c.ex.heap_arrays(VALUE, "shape")[0], x.term)) >= 0 for x in (c["dst"], c["src"]) if isinstance(x, VRef)]))
    w.add_contract(Contract(
        f"{MO}:_copy_shape_only", params={"dst": Opt(Ref(VALUE)), "src": Opt(Ref(VALUE))}, ret=Bool, raises=set(),
        ensures=[("shape", shape_part), ("type", type_untouched)], modifies=[(VALUE, "shape"), (SHAPE, "dims")], props=["C08"], witnesses=["C08_copy_family"], track_alloc=True,
    ))
    w.add_contract(Contract(
        f"{MO}:_copy_shape_dtype", params={"dst": Opt(Ref(VALUE)), "src": Opt(Ref(VALUE))}, ret=Bool, raises=set(),
        ensures=[("shape", shape_part), ("type", type_part)], modifies=[(VALUE, "shape"), (VALUE, "type"), (SHAPE, "dims")], props=["C08"], witnesses=["C08_copy_family"], track_alloc=True,
    ))
    # ---- bounded stand-ins (never counted as proved): functions outside the reach of the VC generator
    def bounded(target, name, witness, bound, why):
        def custom(world, c, out):
            import time
            from pyvc.run import run_witness
            t0 = time.time()
            holds, detail = run_witness(witness, timeout=900)
            d = {"oid": f"{target}#bounded:{name}", "kind": "bounded", "status": "discharged" if holds else ("refuted" if holds is False else "unknown"), "backend": "enumerated",
                 "time": time.time() - t0, "instances": 1, "trivial": 0, "bounded": bound, "note": f"{why}; {detail}"[:600]}
            if holds is False:
                d.update(args={"witness": witness}, replay={"reproduced": True, "detail": detail}, formula="", model=detail)
            out["obls"].append(d)
            out["paths"], out["time"] = 1, time.time() - t0
            return out
        w.add_contract(Contract(f"{target.split(chr(58))[0]}:<bounded-{name}>", kind="custom", custom=custom, props=["C08"], witnesses=[witness]))

    bounded(f"{MO}:_refresh_elementwise_output_shape", "declared_dims_of_a_refreshed_elementwise_output_hold_at_run_time", "C08_elementwise_refresh_family",
            "binary operator, operand ranks <= 3, extents in {1,3}, symbols B/C/unknown bound to 1 or 3, size-1 constants of rank <= 2",
            "_broadcast_shape_dims/_refresh_elementwise_output_shape work on heterogeneous tuples of int|SymbolicDim with nested loops over a list of tuples; not within the VC generator's subset")
    bounded("jax2onnx.converter.ir_postprocess:postprocess_ir_model", "post_processing_only_forgets_dims_and_leaves_inputs_and_outputs_untouched", "C08_postprocess_family",
            "110 models: one chain + one Loop body, declared dims from {int, named symbol, unknown}^rank for ranks 0..3, with and without promotion to double",
            "ir_postprocess works on heterogeneous dim lists (int | SymbolicDim | None | str) and on nested graph attributes; not within the VC generator's subset")
    bounded("jax2onnx.plugins.jax.numpy.arange:ArangePlugin", "different_data_dependent_extents_do_not_share_one_dimension_name", "D38",
            "one program: two outputs jnp.arange(T*T) and jnp.arange(T*S), run with T=3, S=1",
            "the naming of data-dependent output dimensions is not under contract")
    bounded("jax2onnx.plugins.jax.numpy.concatenate:JnpConcatenatePlugin.abstract_eval", "the_declared_extent_of_a_concatenation_along_a_symbolic_axis_holds_at_run_time", "D40",
            "3 programs: concatenate along a symbolic axis (two operands, with a following reshape, along axis 1)",
            "abstract evaluation of plugins is not under contract")
    return api
