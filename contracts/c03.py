"""C03 — every export is well formed (partial): fresh names, function identifiers, function imports."""
from __future__ import annotations

import ast
import glob
import time
import z3

from pyvc.vals import *  # noqa
from pyvc.core import *  # noqa
from pyvc.world import Contract, Ctx
from pyvc.stmts import LoopSpec
from pyvc import source as S
from specs import ctxmodel
from specs.ctxmodel import CTX, BLD

MB = "jax2onnx.converter.ir_builder"
MIC = "jax2onnx.converter.ir_context"
MPS = "jax2onnx.plugins.plugin_system"
MCA = "jax2onnx.converter.conversion_api"
IRB = "IRBuilderObj"


def int_str(t):
    return z3.If(t >= 0, z3.IntToStr(t), z3.Concat(z3.StringVal("-"), z3.IntToStr(-t)))


def register(w):
    M = ctxmodel.register(w)
    sel = z3.Select
    w.fields[(BLD, "_counters")] = MapT(Str, Int)
    w.fields[(CTX, "_name_counters")] = MapT(Str, Int)
    w.repo_classes = dict(getattr(w, "repo_classes", {}))
    w.repo_classes[BLD] = (MB, "IRBuilder")

    def counter_post(field, sort, with_sep_rule):
        def post(c: Ctx):
            ex = c.ex
            me = c["self"].term
            base = c["base"].term
            cur = ex.heap_arrays(sort, field)
            old = c.old_arrays(sort, field)
            p0, v0 = sel(old[0], me), sel(old[1], me)
            p1, v1 = sel(cur[0], me), sel(cur[1], me)
            i = z3.If(sel(p0, base), sel(v0, base), 0)
            s_ = z3.String("s!fn")
            sep = z3.StringVal("_")
            return [
                ("name_is_base_sep_counter", c.result.term == z3.Concat(base, sep, int_str(i))),
                ("counter_incremented", z3.And(sel(p1, base), sel(v1, base) == i + 1)),
                ("other_counters_untouched", z3.ForAll([s_], z3.Implies(s_ != base, z3.And(sel(p1, s_) == sel(p0, s_), sel(v1, s_) == sel(v0, s_))))),
            ]
        return post

    w.add_contract(Contract(
        f"{MB}:IRBuilder.fresh_name", params={"self": Ref(BLD), "base": Str},
        ensures=[("fresh", counter_post("_counters", BLD, False))], raises=set(), ret=Str, modifies=[(BLD, "_counters")], props=["C03"],
    ))
    # verify the context version under its own name (the assumed stub used elsewhere is replaced)
    w.add_contract(Contract(
        f"{MIC}:IRContext.fresh_name", params={"self": Ref(CTX), "base": Str},
        requires=[("base_does_not_end_in_separator", lambda c: z3.And(z3.Not(z3.SuffixOf(z3.StringVal("_"), c["base"].term)), z3.Not(z3.SuffixOf(z3.StringVal("/"), c["base"].term))))],
        ensures=[("fresh", counter_post("_name_counters", CTX, True))], raises=set(), ret=Str, modifies=[(CTX, "_name_counters")], props=["C03"],
        note="D12 (latent): for a base ending in '_' or '/' the separator is dropped and fresh_name('a_') collides with fresh_name('a'); no literal call site passes such a base",
    ))

    # injectivity of base + '_' + digits: two different (base, counter) pairs never give the same name
    def lemma_inj(world):
        b1, b2, d1, d2 = z3.Strings("b1 b2 d1 d2")
        digits = z3.Plus(z3.Range("0", "9"))
        # S6: str(i) for i >= 0 is a non-empty digit string, injective in i
        return z3.Implies(z3.And(z3.InRe(d1, digits), z3.InRe(d2, digits), z3.Concat(b1, z3.StringVal("_"), d1) == z3.Concat(b2, z3.StringVal("_"), d2)), z3.And(b1 == b2, d1 == d2))

    w.add_contract(Contract(f"{MB}:<fresh-name-injective>", kind="lemma", ensures=[("base_underscore_counter_is_injective", lemma_inj)], props=["C03"]))

    # literal call sites of ctx.fresh_name never pass a base ending in '_' or '/'
    def custom_sites(world, c, out):
        t0 = time.time()
        n_lit = n_dyn = 0
        bad = []
        for path in sorted(glob.glob(S.REPO + "/jax2onnx/**/*.py", recursive=True)):
            with open(path, encoding="utf-8") as f:
                src = f.read()
            if "fresh_name(" not in src:
                continue
            for n in ast.walk(ast.parse(src)):
                if isinstance(n, ast.Call) and isinstance(n.func, ast.Attribute) and n.func.attr == "fresh_name" and n.args:
                    a = n.args[0]
                    tail = None
                    if isinstance(a, ast.Constant) and isinstance(a.value, str):
                        tail = a.value
                    elif isinstance(a, ast.JoinedStr) and a.values and isinstance(a.values[-1], ast.Constant):
                        tail = a.values[-1].value
                    if tail is None:
                        n_dyn += 1
                    else:
                        n_lit += 1
                        if tail.endswith(("_", "/")):
                            bad.append(f"{path[len(S.REPO) + 1:]}:{n.lineno}")
        out["obls"].append({"oid": f"{MIC}:IRContext.fresh_name#pre@site:literal_bases_do_not_end_in_separator", "kind": "pre@site",
                            "status": "refuted" if bad else "discharged", "backend": "enumerated", "time": time.time() - t0, "instances": n_lit, "trivial": 0,
                            "note": f"{n_lit} literal / literal-tailed call sites checked, {n_dyn} call sites with a run-time base are unchecked (assumption)" + (f"; offending: {bad[:3]}" if bad else ""),
                            **({"args": {"sites": bad[:5]}, "replay": {"reproduced": True, "detail": f"fresh_name base ends in a separator at {bad[:3]}"}, "formula": "", "model": ""} if bad else {})})
        out["paths"] = n_lit
        out["time"] = time.time() - t0
        return out
    w.add_contract(Contract(f"{MIC}:<fresh-name-call-sites>", kind="custom", custom=custom_sites, props=["C03"]))
    register_function_names(w)
    register_attach(w)
    w.trust("IRContext.fresh_name call sites whose base is computed at run time are assumed not to end in '_' or '/' (latent finding D12)")


def register_function_names(w):
    """FunctionPlugin._allocate_friendly_name: successive allocations on one conversion give pairwise
    distinct (domain, op_type) identifiers, and the counters live in the dict object stored on the context."""
    from specs import dynobj
    from specs.dynobj import DYN
    dynobj.install(w)
    FP = "FnPlugin"
    w.fields[(FP, "unique")] = Bool
    w.fields[(FP, "namespace")] = Opt(Str)
    w.fields[(FP, "name")] = Str
    w.repo_classes = dict(getattr(w, "repo_classes", {}))
    w.repo_classes[FP] = (MPS, "FunctionPlugin")
    KEY = Tup(Str, Str, Str)
    CNT = MapT(KEY, Int)

    w.add_contract(Contract(f"{MPS}:FunctionPlugin._friendly_name_base", params={"self": Ref(FP)}, ret=Str, uf=True, assumed=True, note="class/function display name"))
    w.add_contract(Contract(f"{MPS}:_sanitize_op_type_name", params={"name": Str}, ret=Str, uf=True, assumed=True, note="maps a display name to a valid op_type (pure)"))

    def ginit(ex, env):
        ctx = env.lookup("ctx")
        st = dynobj.store(ex)
        # the context either has no counters yet or holds some dict of counters
        if ex.branch(z3.Bool("ctx_has_counters")):
            m = ex.fresh("counters", CNT)
            st[dynobj.key(ctx, "_func_name_counters")] = m
            ex.ghost["old_counters_obj"] = m
            ex.ghost["old_counters"] = (m.present, m.arrs[0])
        else:
            st[dynobj.key(ctx, "_func_name_counters")] = NONE
            ex.ghost["old_counters_obj"] = None
            ks = key_sort(KEY)
            ex.ghost["old_counters"] = (z3.K(ks, z3.BoolVal(False)), z3.K(ks, z3.IntVal(0)))

    def post_alloc(c: Ctx):
        ex = c.ex
        self_v, ctx = c["self"], c["ctx"]
        st = dynobj.store(ex)
        cur = st.get(dynobj.key(ctx, "_func_name_counters"))
        op_type, domain = c.result.items
        p0, v0 = ex.ghost["old_counters"]
        ns_f = ex.heap_arrays(FP, "namespace")
        ns = z3.If(z3.Or(sel(ns_f[0], self_v.term), z3.Length(sel(ns_f[1], self_v.term)) == 0), z3.StringVal(_function_domain()), sel(ns_f[1], self_v.term))
        uniq = sel(ex.heap_arrays(FP, "unique")[0], self_v.term)
        base = op_type.term
        kind = z3.If(uniq, z3.StringVal("unique"), z3.StringVal("shared"))
        k = key_term(KEY, [ns, base, kind])
        idx = z3.If(sel(p0, k), sel(v0, k), 0) + 1
        dot = z3.StringVal(".")
        want = z3.If(uniq, z3.If(idx == 1, z3.Concat(ns, dot, base, z3.StringVal(".unique")), z3.Concat(ns, dot, base, z3.StringVal(".unique."), int_str(idx))),
                     z3.Concat(ns, dot, base, dot, int_str(idx)))
        if not isinstance(cur, (VMap, VDict)):
            return z3.BoolVal(False)
        shares = z3.BoolVal(ex.ghost["old_counters_obj"] is None or cur is ex.ghost["old_counters_obj"])
        if isinstance(cur, VMap):
            stored = z3.And(sel(cur.present, k), sel(cur.arrs[0], k) == idx)
            kk = z3.Const("kk", key_sort(KEY))
            frame = z3.ForAll([kk], z3.Implies(kk != k, z3.And(sel(cur.present, kk) == sel(p0, kk), z3.Implies(sel(p0, kk), sel(cur.arrs[0], kk) == sel(v0, kk)))))
        else:
            ent = [(kx, vx) for kx, vx in cur.entries]
            stored = z3.And(z3.BoolVal(len(ent) == 1), ex.eq(ent[0][0], VTuple([VStr(ns), VStr(base), VStr(kind)])) if ent else z3.BoolVal(False), (ent[0][1].term == idx) if ent else z3.BoolVal(False))
            frame = z3.BoolVal(True)
        return [("domain_carries_the_next_index", domain.term == want), ("counter_stored_on_the_context", stored), ("other_counters_untouched", frame),
                ("counters_dict_object_is_reused", shares)]

    def _function_domain():
        st = S.load_module(MPS).toplevel.get("_FUNCTION_DOMAIN")
        return ast.literal_eval(st.value)

    sel = z3.Select
    w.add_contract(Contract(
        f"{MPS}:FunctionPlugin._allocate_friendly_name", params={"self": Ref(FP), "ctx": Ref(DYN)}, ghost_init=ginit,
        ensures=[("next_identifier", post_alloc)], raises=set(), ret=Tup(Str, Str), props=["C03", "C07"], witnesses=["C03_function_identifiers_unique"],
    ))

    # index-suffixed identifiers are injective in the index (same namespace/base)
    def lemma_ids(world):
        p, d1, d2 = z3.Strings("p d1 d2")
        digits = z3.Plus(z3.Range("0", "9"))
        return z3.Implies(z3.And(z3.InRe(d1, digits), z3.InRe(d2, digits), z3.Concat(p, z3.StringVal("."), d1) == z3.Concat(p, z3.StringVal("."), d2)), d1 == d2)
    w.add_contract(Contract(f"{MPS}:<function-identifiers>", kind="lemma", ensures=[("distinct_indices_give_distinct_domains", lemma_ids)], props=["C03", "C07"]))

    # structural: the child scope of a new function body receives the parent's counters dict ITSELF
    def custom_shared(world, c, out):
        t0 = time.time()
        mod = S.load_module(MPS)
        fn = mod.find("FunctionPlugin._lower_and_call")
        ok, note = False, "no setattr(fscope.ctx, '_func_name_counters', ...) found"
        assigns = {}
        for n in ast.walk(fn):
            if isinstance(n, ast.Assign) and len(n.targets) == 1 and isinstance(n.targets[0], ast.Name):
                assigns.setdefault(n.targets[0].id, []).append(n.value)
        for n in ast.walk(fn):
            if isinstance(n, ast.Call) and isinstance(n.func, ast.Name) and n.func.id == "setattr" and len(n.args) == 3 \
                    and isinstance(n.args[1], ast.Constant) and n.args[1].value == "_func_name_counters" and "fscope" in ast.unparse(n.args[0]):
                val = n.args[2]
                if isinstance(val, ast.Name):
                    srcs = assigns.get(val.id, [])
                    good = [s_ for s_ in srcs if isinstance(s_, ast.Call) and isinstance(s_.func, ast.Name) and s_.func.id == "getattr" and len(s_.args) >= 2
                            and isinstance(s_.args[1], ast.Constant) and s_.args[1].value == "_func_name_counters" and ast.unparse(s_.args[0]) == "ctx"]
                    ok = bool(good) and len(good) == len(srcs)
                    note = f"child receives `{val.id}` = {ast.unparse(srcs[0]) if srcs else '?'}"
                else:
                    ok, note = False, f"child receives a derived object: {ast.unparse(val)}"
        d = {"oid": f"{MPS}:FunctionPlugin._lower_and_call#inv:child_scope_shares_the_parent_function_counters", "kind": "inv-step", "status": "discharged" if ok else "refuted",
             "backend": "enumerated", "time": time.time() - t0, "instances": 1, "trivial": 0, "note": "structural (AST data flow): " + note}
        if not ok:
            d.update(args={"site": note}, replay=None, formula="setattr(fscope.ctx, '_func_name_counters', getattr(ctx, '_func_name_counters', None))", model=note)
        out["obls"].append(d)
        out["paths"], out["time"] = 1, time.time() - t0
        return out
    w.add_contract(Contract(f"{MPS}:<function-counter-sharing>", kind="custom", custom=custom_shared, props=["C03", "C07"], witnesses=["C03_function_identifiers_unique"]))


def register_wellformedness_witnesses(w):
    """Whole-model well-formedness is outside the contracts' reach (external checker / runtime). Two concrete programs that
    sub-agents reported while exploring are kept as bounded obligations (one program each; never counted as proved)."""
    def custom(world, c, out):
        import time
        from pyvc.run import run_witness
        t0 = time.time()
        for oname, wn, bound in (("a_function_that_returns_its_argument_gives_a_loadable_model", "D30", "one program: lambda x: ident(x) + 1.0 with @onnx_function def ident(x): return x"),
                                 ("a_custom_input_name_equal_to_a_loop_body_value_name_is_rejected_or_harmless", "D31", "one program: fori_loop body value name used as input_names[0]"),
                                 ("dynamic_update_slice_at_opset_24_gives_a_loadable_model", "D34", "one program: lax.dynamic_update_slice(c[2,5,3], u[2,2,3], (0,p,0)) at opset 24"),
                                 ("a_float32_constant_next_to_a_float32_cast_under_double_precision_gives_a_well_typed_model", "D35", "one program: x.astype(float32) * float32(0.25), enable_double_precision=True"),
                                 ("values_bound_in_loop_if_scan_bodies_are_never_read_from_an_enclosing_scope", "C03_control_flow_scopes_family",
                                  "18 programs (cond / while capturing / while carrying / scan, each followed by 4 uses of a symbolic dimension's size; 2 inside @onnx_function bodies) x {static, symbolic} shapes, symbols bound to (4,5) and (2,2)"),
                                 ("a_scan_over_a_float32_sequence_under_double_precision_gives_a_well_typed_model", "D49", "one program: lax.scan over jnp.arange(4, dtype=float32) with a float64 carry, enable_double_precision=True"),
                                 ("range_like_operators_type_check_at_every_requested_opset", "C11_type_constraints_family",
                                  "jnp.arange / lax.iota / jnp.linspace with result types float16, bfloat16, float32, int32, int64 at every opset from 21 to the newest installed (shared with C11)")):
            holds, detail = run_witness(wn, timeout=900)
            d = {"oid": f"jax2onnx.user_interface:to_onnx#bounded:{oname}", "kind": "bounded", "status": "discharged" if holds else ("refuted" if holds is False else "unknown"),
                 "backend": "enumerated", "time": time.time() - t0, "instances": 1, "trivial": 0, "bounded": bound, "note": f"checker(full_check) + strict shape inference + ONNX Runtime load on the exported model; {detail}"[:500]}
            if holds is False:
                d.update(args={"witness": wn}, replay={"reproduced": True, "detail": detail}, formula="", model=detail)
            out["obls"].append(d)
        out["paths"], out["time"] = 1, time.time() - t0
        return out
    w.add_contract(Contract("jax2onnx.user_interface:<wellformedness-witnesses>", kind="custom", custom=custom, props=["C03"], witnesses=["D30", "D31", "D34", "D35", "C03_control_flow_scopes_family", "C11_type_constraints_family", "D49"]))


def register_attach(w):
    register_wellformedness_witnesses(w)
    """_attach_ir_functions: every function attached to the model has its domain (and the default domain) imported."""
    from specs.opaque import OPQ
    sel = z3.Select
    IM, IF = "IrModel", "IrFunction"
    w.fields[(IM, "functions")] = Ref(OPQ)
    w.fields[(IM, "opset_imports")] = MapT(Str, Int)
    w.fields[(IF, "domain")] = Opt(Str)
    w.fields[(CTX, "ir_functions")] = Seq(Ref(IF))
    w.add_contract(Contract(f"{MCA}:_function_store_identifier", params={"fn_ir": Ref(IF)}, ret=Ref(OPQ), assumed=True, note="fn_ir.identifier()"))

    def imported(ex, model_term, dom):
        oi = ex.heap_arrays(IM, "opset_imports")
        return sel(sel(oi[0], model_term), dom)

    def no_ws(s):
        ws = [z3.StringVal(c) for c in (" ", "\t", "\n", "\r")]
        return z3.And([z3.Not(z3.PrefixOf(c, s)) for c in ws] + [z3.Not(z3.SuffixOf(c, s)) for c in ws])

    def post_attach(c: Ctx):
        ex = c.ex
        fns = ex.read_field(c["ctx"], "ir_functions")
        k = z3.Int("k")
        d = ex.heap_arrays(IF, "domain")
        f_k = sel(fns.arrs[0], k)
        dom = sel(d[1], f_k)
        has = z3.And(z3.Not(sel(d[0], f_k)), z3.Length(dom) > 0)
        m = c["ir_model"].term
        return z3.Implies(fns.length > 0, z3.And(imported(ex, m, z3.StringVal("")),
                                                 z3.ForAll([k], z3.Implies(z3.And(0 <= k, k < fns.length, has, no_ws(dom)), imported(ex, m, dom)))))

    def req(c: Ctx):
        return c.ex.read_field(c["ctx"], "ir_functions").length >= 0

    def dict_update_model(ex, recv, name, args, kw):
        return None

    w.add_contract(Contract(
        f"{MCA}:_attach_ir_functions", params={"ir_model": Ref(IM), "ctx": Ref(CTX)}, requires=[("len", req)],
        local_types={"model_imports": MapT(Str, Int)},
        loops={0: LoopSpec(invariant=lambda lc: z3.BoolVal(True), label="store"),
               1: LoopSpec(invariant=lambda lc: inv_imports(lc), label="imports")},
        ensures=[("every_function_domain_and_the_default_domain_are_imported", post_attach)], ret=Ref(IM), props=["C03", "C11"], opaque_externals=True,
        modifies=[(IM, "opset_imports")],
    ))

    def inv_imports(lc):
        ex = lc.ex
        fns = ex.read_field(lc["ctx"], "ir_functions")
        mi = lc["model_imports"]
        k = z3.Int("k")
        d = ex.heap_arrays(IF, "domain")
        f_k = sel(fns.arrs[0], k)
        dom = sel(d[1], f_k)
        has = z3.And(z3.Not(sel(d[0], f_k)), z3.Length(dom) > 0)
        return [("default_domain_present", sel(mi.present, z3.StringVal(""))),
                ("domains_of_processed_functions_present", z3.ForAll([k], z3.Implies(z3.And(0 <= k, k < lc.idx, has, no_ws(dom)), sel(mi.present, dom))))]
