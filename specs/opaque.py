"""Opaque external objects: library objects whose behaviour the proof does not
depend on (ORT sessions, jax pytrees, loggers).  Every attribute read and
call on an opaque yields a fresh opaque; truthiness/equality/isinstance are
unconstrained Booleans.  Assumption (listed): operations on opaque objects do
not modify any state modelled elsewhere (heap fields, ghost cells).  Opaque
calls are NOT modelled as raising: contracts verified with opaques state
partial correctness only (no `raises` clause)."""
from __future__ import annotations

import z3

from pyvc.vals import *  # noqa
from pyvc.core import *  # noqa

OPQ = "Opaque"


def fresh_opaque(ex) -> VRef:
    return VRef(OPQ, ex.fresh_const("opq", ref_sort(OPQ)))


def is_opaque(v) -> bool:
    return isinstance(v, VRef) and v.sort == OPQ


def install(w):
    if getattr(w, "_opaque_installed", False):
        return
    w._opaque_installed = True
    ref_sort(OPQ)
    w.trust("operations on opaque library objects (ORT session, jax pytrees, loggers) do not modify modelled state and are not modelled as raising")

    w.call_ref_hooks.append(lambda ex, fn, a, k: (fresh_opaque(ex),) if is_opaque(fn) else None)
    w.truthy_hooks.append(lambda ex, v: z3.Bool(ex.fresh_name("opq_truthy")) if is_opaque(v) else None)
    w.isinstance_hooks.append(lambda ex, v, nm: z3.Bool(ex.fresh_name("opq_isinstance")) if is_opaque(v) else None)
    w.hasattr_hooks.append(lambda ex, v, nm: z3.Bool(ex.fresh_name("opq_hasattr")) if is_opaque(v) else None)
    w.getitem_hooks.append(lambda ex, base, idx: fresh_opaque(ex) if is_opaque(base) else None)
    w.setitem_hooks.append(lambda ex, base, idx, v: True if is_opaque(base) else False)
    w.opaque = True
