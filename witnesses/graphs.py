"""Small hand-built ONNX graphs run through single optimizer passes on the real
code, observed completely: every graph output before/after (C02) and every
declared value_info of the rewritten model against what ONNX Runtime produces
(C08).  Used to replay counter-models of the rewrite-transaction contracts."""
from __future__ import annotations

import itertools

import numpy as np


def _ort_run(model_proto, feeds, extra_outputs=()):
    import onnx
    import onnxruntime as ort
    m = onnx.ModelProto()
    m.CopyFrom(model_proto)
    have = {o.name for o in m.graph.output}
    for nm in extra_outputs:
        if nm not in have:
            m.graph.output.append(onnx.helper.make_empty_tensor_value_info(nm))
    so = ort.SessionOptions()
    so.log_severity_level = 4
    so.graph_optimization_level = ort.GraphOptimizationLevel.ORT_DISABLE_ALL
    sess = ort.InferenceSession(m.SerializeToString(), so, providers=["CPUExecutionProvider"])
    names = [o.name for o in sess.get_outputs()]
    wanted = {i.name for i in sess.get_inputs()}      # an unused, non-positional input may legitimately have been pruned
    return dict(zip(names, sess.run(None, {k: v for k, v in feeds.items() if k in wanted})))


def _declared(model_proto):
    """name -> (elem_type, [dim or None]) for every value_info / output that declares a shape or a type"""
    out = {}
    g = model_proto.graph
    for vi in list(g.value_info) + list(g.output) + list(g.input):
        tt = vi.type.tensor_type
        dims = None
        if tt.HasField("shape"):
            dims = [(d.dim_value if d.HasField("dim_value") else None) for d in tt.shape.dim]
        out[vi.name] = (tt.elem_type or None, dims)
    return out


def check_pass(model_proto, pass_fn, feeds, what, check_metadata=True):
    """returns (holds, detail): holds False iff the pass changes an observable result or leaves a false declaration"""
    import onnx
    import onnx_ir as ir
    from onnx import TensorProto
    try:
        before = _ort_run(model_proto, feeds)
    except Exception as e:
        return None, f"{what}: input model does not run: {str(e)[:120]}"
    irm = ir.serde.deserialize_model(model_proto)
    pass_fn(irm)
    m2 = ir.serde.serialize_model(irm)
    try:
        after = _ort_run(m2, feeds)
    except Exception as e:
        return False, f"{what}: the rewritten model no longer runs: {str(e)[:200]}"
    names_b, names_a = [o.name for o in model_proto.graph.output], [o.name for o in m2.graph.output]
    if len(names_b) != len(names_a):
        return False, f"{what}: the model has {len(names_a)} outputs after the pass, {len(names_b)} before"
    for i, (nb, na) in enumerate(zip(names_b, names_a)):      # outputs are compared by position: a fold may rename an output
        b, a = before[nb], after.get(na)
        if a is None:
            return False, f"{what}: graph output #{i} `{na}` is not produced"
        if a.shape != b.shape or a.dtype != b.dtype or not np.allclose(a, b, rtol=1e-5, atol=1e-6, equal_nan=True):
            return False, f"{what}: graph output #{i} `{nb}` changed (shape {b.shape}->{a.shape}, dtype {b.dtype}->{a.dtype}, max|diff| {np.max(np.abs(a.astype(np.float64) - b.astype(np.float64))) if a.shape == b.shape else 'n/a'})"
    if check_metadata:
        produced = {o for n in m2.graph.node for o in n.output if o}
        decl = {k: v for k, v in _declared(m2).items() if k in produced}
        try:
            rt = _ort_run(m2, feeds, extra_outputs=sorted(decl))
        except Exception as e:
            return None, f"{what}: could not expose intermediates: {str(e)[:120]}"
        for nm, (et, dims) in decl.items():
            if nm not in rt:
                continue
            arr = rt[nm]
            if dims is not None:
                if len(dims) != arr.ndim or any(d is not None and d != s for d, s in zip(dims, arr.shape)):
                    return False, f"{what}: value `{nm}` is declared {dims} but is {list(arr.shape)} at run time"
            if et:
                want = onnx.helper.tensor_dtype_to_np_dtype(et)
                if np.dtype(want) != arr.dtype:
                    return False, f"{what}: value `{nm}` is declared {TensorProto.DataType.Name(et)} but is {arr.dtype} at run time"
    return True, "ok"


def _single(pass_name):
    def run(irm):
        from jax2onnx.converter import ir_optimizations as opt
        getattr(opt, pass_name)(irm.graph)
    return run


# --------------------------------------------------------------------------- T3
def C02_reduce_family():
    """Transpose(p1) -> ReduceMean -> Transpose(p2) over: every permutation pair of rank 3 (and layout pairs of rank 4),
    axes as attribute (opset 13) and as input (opset 18), positive/negative axes, keepdims 0/1, the reducer output
    also read by a second consumer / by a further Transpose with the same or another permutation / listed as graph
    output, the second transpose's output with and without a
    declared shape.  remove_redundant_transpose_reduce_ir must change no output and leave no false declaration."""
    from onnx import helper, TensorProto, numpy_helper
    rng = np.random.default_rng(7)
    n = 0
    cases = []
    for rank, shape in ((3, (2, 3, 4)), (4, (2, 3, 4, 5))):
        perms = list(itertools.permutations(range(rank))) if rank == 3 else [(0, 2, 3, 1), (0, 3, 1, 2), (0, 1, 2, 3), (3, 2, 1, 0), (1, 0, 3, 2)]
        for p1 in perms:
            for p2 in perms:
                inverse = all(p1[p2[k]] == k for k in range(rank))
                if not inverse and rank == 4 and (p1, p2) != ((0, 2, 3, 1), (0, 2, 3, 1)):
                    continue
                for axes in ([1], [-1], [1, 2], [0, -1]) if rank == 3 else ([1, 2], [-1], [2, 3]):
                    cases.append((rank, shape, p1, p2, axes))
    for rank, shape, p1, p2, axes in cases:
        for opset, keepdims, variant, declare_t2 in itertools.product((13, 18), (1, 0), ("plain", "second_consumer", "reducer_is_output", "also_read_by_another_transpose", "read_by_two_equal_transposes"), (True, False)):
            if keepdims == 0 and (variant != "plain" or not declare_t2):
                continue
            if rank == 4 and opset == 13 and variant != "plain":
                continue
            x = rng.standard_normal(shape).astype(np.float32)
            t1_shape = [shape[i] for i in p1]
            norm = sorted({a % rank for a in axes})
            r_shape = [1 if k in norm else d for k, d in enumerate(t1_shape)] if keepdims else [d for k, d in enumerate(t1_shape) if k not in norm]
            if len(r_shape) != rank and True:
                if len(p2) != len(r_shape):
                    continue  # second transpose would be invalid
            t2_shape = [r_shape[i] for i in p2]
            inits, r_in, attrs = [], ["t1o"], {"keepdims": keepdims}
            if opset >= 18:
                inits.append(numpy_helper.from_array(np.asarray(axes, dtype=np.int64), "axes"))
                r_in.append("axes")
            else:
                attrs["axes"] = axes
            nodes = [helper.make_node("Transpose", ["x"], ["t1o"], perm=list(p1), name="t1"),
                     helper.make_node("ReduceMean", r_in, ["ro"], name="rm", **attrs),
                     helper.make_node("Transpose", ["ro"], ["t2o"], perm=list(p2), name="t2"),
                     helper.make_node("Relu", ["t2o"], ["y"], name="relu")]
            outs = [helper.make_tensor_value_info("y", TensorProto.FLOAT, t2_shape)]
            vis = [helper.make_tensor_value_info("t1o", TensorProto.FLOAT, t1_shape), helper.make_tensor_value_info("ro", TensorProto.FLOAT, r_shape)]
            if declare_t2:
                vis.append(helper.make_tensor_value_info("t2o", TensorProto.FLOAT, t2_shape))
            if variant == "second_consumer":
                nodes.append(helper.make_node("Neg", ["ro"], ["z"], name="neg"))
                outs.append(helper.make_tensor_value_info("z", TensorProto.FLOAT, r_shape))
            elif variant == "reducer_is_output":
                outs.append(helper.make_tensor_value_info("ro", TensorProto.FLOAT, r_shape))
            elif variant in ("also_read_by_another_transpose", "read_by_two_equal_transposes"):
                # a second Transpose on the reducer output: with another permutation (a user transpose) or with the same one
                p3 = list(p2) if variant == "read_by_two_equal_transposes" else ([k for k in reversed(range(rank))] if list(p2) != [k for k in reversed(range(rank))] else list(range(rank)))
                nodes.append(helper.make_node("Transpose", ["ro"], ["t3o"], perm=p3, name="t3"))
                nodes.append(helper.make_node("Neg", ["t3o"], ["z"], name="neg"))
                outs.append(helper.make_tensor_value_info("z", TensorProto.FLOAT, [r_shape[i] for i in p3]))
            g = helper.make_graph(nodes, "g", [helper.make_tensor_value_info("x", TensorProto.FLOAT, list(shape))], outs, initializer=inits, value_info=vis)
            m = helper.make_model(g, opset_imports=[helper.make_opsetid("", opset)])
            m.ir_version = 10
            what = f"T1(perm={list(p1)}) -> ReduceMean(axes={axes}, keepdims={keepdims}, opset {opset}) -> T2(perm={list(p2)}) [{variant}, t2 output {'declares' if declare_t2 else 'does not declare'} a shape] on x{list(shape)}"
            ok, detail = check_pass(m, _single("remove_redundant_transpose_reduce_ir"), {"x": x}, what)
            if ok is False:
                return False, detail
            if ok:
                n += 1
    return True, f"{n} transpose-reduce-transpose graphs unchanged and truthfully annotated"


def C08_copy_family():
    """_copy_shape_only / _copy_shape_dtype(dst, src) over every pair of declared shapes from a small pool (None, ints,
    symbols, unknown dims) and types: afterwards dst declares src's dims (when src declares any) and src's type"""
    import onnx_ir as ir
    from jax2onnx.converter import ir_optimizations as opt
    shapes = [None, (), (2,), (2, 3), ("B", 3), ("B", "C"), (None, 3), (3, 2), ("C", 3)]
    types = [None, ir.DataType.FLOAT, ir.DataType.INT64]
    key = lambda s: None if s is None else tuple(repr(d) for d in s.dims)  # noqa: E731
    n = 0
    for fn_name in ("_copy_shape_only", "_copy_shape_dtype"):
        fn = getattr(opt, fn_name)
        for sd, ss, td, ts in itertools.product(shapes, shapes, types, types):
            dst = ir.Value(name="d", shape=None if sd is None else ir.Shape(sd), type=None if td is None else ir.TensorType(td))
            src = ir.Value(name="s", shape=None if ss is None else ir.Shape(ss), type=None if ts is None else ir.TensorType(ts))
            old_key, old_type = key(dst.shape), dst.type
            fn(dst, src)
            n += 1
            if ss is not None and key(dst.shape) != key(src.shape):
                return False, f"{fn_name}(dst{sd}, src{ss}): dst declares {dst.shape} afterwards"
            if ss is None and key(dst.shape) != old_key:
                return False, f"{fn_name}(dst{sd}, src None): dst shape changed to {dst.shape}"
            if key(src.shape) != (None if ss is None else key(ir.Shape(ss))):
                return False, f"{fn_name}: src shape was mutated"
            if fn_name == "_copy_shape_dtype":
                want = src.type if src.type is not None else old_type
                if (dst.type is None) != (want is None) or (want is not None and dst.type.dtype != want.dtype):
                    return False, f"{fn_name}(dst type {td}, src type {ts}): dst type is {dst.type}"
            elif dst.type is not old_type:
                return False, f"{fn_name} changed dst.type"
    for fn_name in ("_copy_shape_only", "_copy_shape_dtype"):
        fn = getattr(opt, fn_name)
        v = ir.Value(name="v", shape=ir.Shape((2,)), type=ir.TensorType(ir.DataType.FLOAT))
        if fn(None, v) or fn(v, None):
            return False, f"{fn_name} reports a change with a missing value"
    return True, f"{n} (dst, src) pairs copied faithfully"


ALL = {"C02_reduce_family": C02_reduce_family, "C08_copy_family": C08_copy_family}


# --------------------------------------------------------------------------- T11
def C02_identity_reshape_family():
    """x -> Reshape(x, const target) -> Relu, over declared input shapes (ints, symbolic, partly unknown, none) x targets
    (equal, permuted, flattened, with -1 / 0 entries) x reshape output observed as graph output or not.
    remove_identity_reshapes_ir must change no output and leave no false declaration."""
    from onnx import helper, TensorProto, numpy_helper
    rng = np.random.default_rng(11)
    n = 0
    real = (2, 3, 4)
    decls = [[2, 3, 4], ["B", 3, 4], [None, 3, 4], None, [2, 3, "C"]]
    targets = [[2, 3, 4], [3, 2, 4], [4, 3, 2], [6, 4], [24], [2, -1, 4], [0, 3, 4], [2, 3, -1], [-1, 3, 4], [2, 12], [1, 2, 3, 4]]
    for decl, tgt, observe, opset in itertools.product(decls, targets, (False, True), (13, 21)):
        x = rng.standard_normal(real).astype(np.float32)
        out_shape = list(np.reshape(x, [real[i] if t == 0 else t for i, t in enumerate(tgt)] if len(tgt) <= 3 else tgt).shape)
        nodes = [helper.make_node("Identity", ["x"], ["xi"], name="id"), helper.make_node("Reshape", ["xi", "s"], ["r"], name="rs"), helper.make_node("Relu", ["r"], ["y"], name="relu")]
        inits = [numpy_helper.from_array(np.asarray(tgt, dtype=np.int64), "s")]
        outs = [helper.make_tensor_value_info("y", TensorProto.FLOAT, out_shape)]
        if observe:
            outs.append(helper.make_tensor_value_info("r", TensorProto.FLOAT, out_shape))
        vis = [helper.make_tensor_value_info("r", TensorProto.FLOAT, out_shape)]
        if decl is not None:
            vis.append(helper.make_tensor_value_info("xi", TensorProto.FLOAT, decl))
        g = helper.make_graph(nodes, "g", [helper.make_tensor_value_info("x", TensorProto.FLOAT, list(real))], outs, initializer=inits, value_info=vis)
        m = helper.make_model(g, opset_imports=[helper.make_opsetid("", opset)])
        m.ir_version = 10
        what = f"Reshape(x declared {decl}, target {tgt}) [{'reshape output is a graph output' if observe else 'intermediate'}, opset {opset}] on x{list(real)}"
        ok, detail = check_pass(m, _single("remove_identity_reshapes_ir"), {"x": x}, what)
        if ok is False:
            return False, detail
        if ok:
            n += 1
    return True, f"{n} reshape graphs unchanged and truthfully annotated"


ALL["C02_identity_reshape_family"] = C02_identity_reshape_family


# --------------------------------------------------------------------------- elementwise shape refresh (bounded stand-in)
def C08_elementwise_refresh_family():
    """op(a, b) for op in {Add, Mul, Where-free binary ops} with a, b declared from a pool of shapes (ranks 0..3 over
    ints 1/3, symbols B/C and unknown dims; one operand optionally a size-1 constant) and fed tensors that satisfy the
    declarations (symbols bound to 1, 3): after propagate_elementwise_shapes_ir no declared dim contradicts run time.
    Bound: 2 operands, rank <= 3, extents in {1, 3}."""
    from onnx import helper, TensorProto, numpy_helper
    pool_dims = [1, 3, "B", "C", None]
    shapes = [()] + [tuple(s) for r in (1, 2, 3) for s in itertools.product(pool_dims, repeat=r) if r < 3 or (s[0] in (3, "B") and s[2] in (1, 3, "C"))]
    n = 0
    for sa, sb in itertools.product(shapes, shapes):
        for bind in ({"B": 3, "C": 3, None: 3}, {"B": 1, "C": 3, None: 3}, {"B": 3, "C": 1, None: 1}):
            ra = tuple(d if isinstance(d, int) else bind[d] for d in sa)
            rb = tuple(d if isinstance(d, int) else bind[d] for d in sb)
            try:
                out = np.broadcast_shapes(ra, rb)
            except ValueError:
                continue
            nodes = [helper.make_node("Identity", ["a"], ["ai"]), helper.make_node("Identity", ["b"], ["bi"]), helper.make_node("Mul", ["ai", "bi"], ["m"]), helper.make_node("Relu", ["m"], ["y"])]
            vis = [helper.make_tensor_value_info("ai", TensorProto.FLOAT, list(sa)), helper.make_tensor_value_info("bi", TensorProto.FLOAT, list(sb))]
            g = helper.make_graph(nodes, "g", [helper.make_tensor_value_info("a", TensorProto.FLOAT, list(sa)), helper.make_tensor_value_info("b", TensorProto.FLOAT, list(sb))],
                                  [helper.make_tensor_value_info("y", TensorProto.FLOAT, None)], value_info=vis)
            m = helper.make_model(g, opset_imports=[helper.make_opsetid("", 21)])
            m.ir_version = 10
            feeds = {"a": np.ones(ra, np.float32), "b": np.full(rb, 2.0, np.float32)}
            what = f"Mul(a declared {list(sa)}, b declared {list(sb)}) fed {list(ra)} x {list(rb)} -> {list(out)}"
            ok, detail = check_pass(m, _single("propagate_elementwise_shapes_ir"), feeds, what)
            if ok is False:
                return False, detail
            n += 1 if ok else 0
    # one operand a size-1 constant of any rank <= 2
    for sa in shapes[:40]:
        for cshape in ((), (1,), (1, 1)):
            ra = tuple(d if isinstance(d, int) else 3 for d in sa)
            out = np.broadcast_shapes(ra, cshape)
            nodes = [helper.make_node("Identity", ["a"], ["ai"]), helper.make_node("Add", ["ai", "c"], ["m"]), helper.make_node("Relu", ["m"], ["y"])]
            g = helper.make_graph(nodes, "g", [helper.make_tensor_value_info("a", TensorProto.FLOAT, list(sa))], [helper.make_tensor_value_info("y", TensorProto.FLOAT, None)],
                                  initializer=[numpy_helper.from_array(np.full(cshape, 5.0, np.float32), "c")], value_info=[helper.make_tensor_value_info("ai", TensorProto.FLOAT, list(sa))])
            m = helper.make_model(g, opset_imports=[helper.make_opsetid("", 21)])
            m.ir_version = 10
            what = f"Add(a declared {list(sa)}, constant of shape {list(cshape)}) fed {list(ra)} -> {list(out)}"
            ok, detail = check_pass(m, _single("propagate_elementwise_shapes_ir"), {"a": np.ones(ra, np.float32)}, what)
            if ok is False:
                return False, detail
            n += 1 if ok else 0
    return True, f"{n} elementwise graphs truthfully annotated after propagate_elementwise_shapes_ir"


ALL["C08_elementwise_refresh_family"] = C08_elementwise_refresh_family


# --------------------------------------------------------------------------- T1 / T2
def C02_cast_family():
    """x:S -> Cast(to=M) -> Cast(to=T) -> Identity over S, M, T in {bool, int8, uint8, int32, int64, float16, float32, float64}
    with inputs at the extremes of S, the intermediate optionally a graph output / read by a second consumer, and a
    statically bounded int64 source (Range 0..k).  remove_redundant_casts_ir must change no output."""
    from onnx import helper, TensorProto, numpy_helper
    T = TensorProto
    types = {T.BOOL: np.bool_, T.INT8: np.int8, T.UINT8: np.uint8, T.INT32: np.int32, T.INT64: np.int64, T.FLOAT16: np.float16, T.FLOAT: np.float32, T.DOUBLE: np.float64}

    def samples(dt):
        if dt == np.bool_:
            return np.array([True, False, True])
        if np.issubdtype(dt, np.integer):
            ii = np.iinfo(dt)
            return np.array([ii.min, -1 if ii.min < 0 else 1, 0, 1, 2, 127, 128, 255, 256, ii.max // 3, ii.max], dtype=np.int64).clip(ii.min, ii.max).astype(dt)
        fi = np.finfo(dt)
        return np.array([0.0, 1.0, -1.5, 0.1, 1e-3, 255.0, 256.5, 65504.0, 70000.0, 16777217.0, 3e9, float(fi.max) / 2, -float(fi.max) / 2], dtype=np.float64).clip(float(fi.min), float(fi.max)).astype(dt)
    n = 0
    for S, M, Tt in itertools.product(types, types, types):
        if Tt != S and Tt != M:
            continue
        for variant in ("plain", "mid_is_output", "mid_second_consumer"):
            x = samples(types[S])
            nodes = [helper.make_node("Identity", ["x"], ["xi"]), helper.make_node("Cast", ["xi"], ["m"], to=M, name="c1"), helper.make_node("Cast", ["m"], ["t"], to=Tt, name="c2"), helper.make_node("Identity", ["t"], ["y"])]
            outs = [helper.make_tensor_value_info("y", Tt, [len(x)])]
            if variant == "mid_is_output":
                outs.append(helper.make_tensor_value_info("m", M, [len(x)]))
            elif variant == "mid_second_consumer":
                nodes.append(helper.make_node("Identity", ["m"], ["z"]))
                outs.append(helper.make_tensor_value_info("z", M, [len(x)]))
            vis = [helper.make_tensor_value_info("xi", S, [len(x)]), helper.make_tensor_value_info("m", M, [len(x)]), helper.make_tensor_value_info("t", Tt, [len(x)])]
            g = helper.make_graph(nodes, "g", [helper.make_tensor_value_info("x", S, [len(x)])], outs, value_info=vis)
            m = helper.make_model(g, opset_imports=[helper.make_opsetid("", 21)])
            m.ir_version = 10
            what = f"{T.DataType.Name(S)} -> Cast({T.DataType.Name(M)}) -> Cast({T.DataType.Name(Tt)}) [{variant}]"
            import warnings
            with warnings.catch_warnings():
                warnings.simplefilter("ignore")
                ok, detail = check_pass(m, _single("remove_redundant_casts_ir"), {"x": x}, what)
            if ok is False:
                return False, detail
            n += 1 if ok else 0
    # statically bounded source: Range(0, k, 1) : int64 -> M -> int64
    for k, M in itertools.product((5, 127, 128, 129, 255, 256, 300), (T.INT8, T.UINT8, T.INT32)):
        inits = [numpy_helper.from_array(np.asarray(v, dtype=np.int64), nm) for nm, v in (("s", 0), ("l", k), ("d", 1))]
        nodes = [helper.make_node("Range", ["s", "l", "d"], ["r"]), helper.make_node("Cast", ["r"], ["m"], to=M), helper.make_node("Cast", ["m"], ["t"], to=T.INT64), helper.make_node("Add", ["t", "x"], ["y"])]
        g = helper.make_graph(nodes, "g", [helper.make_tensor_value_info("x", T.INT64, [1])], [helper.make_tensor_value_info("y", T.INT64, [k])], initializer=inits,
                              value_info=[helper.make_tensor_value_info("r", T.INT64, [k]), helper.make_tensor_value_info("m", M, [k]), helper.make_tensor_value_info("t", T.INT64, [k])])
        m = helper.make_model(g, opset_imports=[helper.make_opsetid("", 21)])
        m.ir_version = 10
        ok, detail = check_pass(m, _single("remove_redundant_casts_ir"), {"x": np.zeros((1,), np.int64)}, f"Range(0,{k}) int64 -> Cast({T.DataType.Name(M)}) -> Cast(INT64)")
        if ok is False:
            return False, detail
        n += 1 if ok else 0
    return True, f"{n} cast graphs unchanged"


ALL["C02_cast_family"] = C02_cast_family


# --------------------------------------------------------------------------- T5..T9 transpose pairs
def _chain_op(helper, numpy_helper, op, src, dst, idx, side, shape_t, inits, extra_inputs, rng):
    """one elementwise node reading `src` (layout of shape_t); returns node"""
    from onnx import TensorProto
    binary = op in ("Add", "Mul", "Sub", "Div", "Max", "Min")
    attrs = {}
    ins = [src]
    if op == "Cast":
        attrs["to"] = TensorProto.FLOAT
    if op == "LeakyRelu":
        attrs["alpha"] = 0.1
    if op == "Clip":
        inits.append(numpy_helper.from_array(np.asarray(-0.5, np.float32), f"lo{idx}"))
        inits.append(numpy_helper.from_array(np.asarray(0.5, np.float32), f"hi{idx}"))
        ins += [f"lo{idx}", f"hi{idx}"]
    if op == "CastLike" or binary:
        nm = f"side{idx}"
        if side == "scalar":
            inits.append(numpy_helper.from_array(np.asarray(1.5, np.float32), nm))
        elif side == "const_full":
            inits.append(numpy_helper.from_array(rng.standard_normal(shape_t).astype(np.float32), nm))
        elif side == "const_lastdim":
            inits.append(numpy_helper.from_array(rng.standard_normal(shape_t[-1:]).astype(np.float32), nm))
        elif side == "input_full":
            extra_inputs.append((nm, list(shape_t)))
        ins.append(nm)
    return helper.make_node(op, ins, [dst], name=f"op{idx}", **attrs)


def C02_transpose_pair_family():
    """T1(p1) -> k elementwise ops (k = 0, 1, 2; unary and binary with scalar / full / last-dim constant or graph-input
    side operands; CastLike with a tensor `like`) -> T2(p2), p2 the inverse of p1 or not, on x[2,3,4] and x[2,3,4,5];
    intermediate values optionally graph outputs or read by a second consumer; T1 optionally feeding a second inverse
    transpose.  remove_redundant_transpose_pairs_ir must change no output and leave no false declaration."""
    from onnx import helper, TensorProto, numpy_helper
    rng = np.random.default_rng(3)
    unary = ["Relu", "Tanh", "Sigmoid", "Elu", "LeakyRelu", "Identity", "Cast", "Abs", "Neg", "Exp", "Clip"]
    binary = ["Add", "Mul", "Max", "Min", "Sub"]
    n = 0
    for shape, p1, p2 in (((2, 3, 4), (0, 2, 1), (0, 2, 1)), ((2, 3, 4), (1, 2, 0), (2, 0, 1)), ((2, 3, 4), (1, 2, 0), (1, 2, 0)), ((2, 3, 4, 5), (0, 2, 3, 1), (0, 3, 1, 2)), ((2, 3, 4, 5), (0, 2, 3, 1), (0, 2, 3, 1))):
        shape_t = tuple(shape[i] for i in p1)
        chains = [[]] + [[(op, "scalar")] for op in unary] + [[(op, side)] for op in binary + ["CastLike"] for side in ("scalar", "const_full", "const_lastdim", "input_full")]
        chains += [[("Relu", "scalar"), (op, side)] for op in ("Add", "Max", "CastLike") for side in ("scalar", "input_full")] + [[("Elu", "scalar"), ("Tanh", "scalar")], [("Add", "scalar"), ("Relu", "scalar")]]
        if len(shape) == 4:
            chains = chains[::3]
        for chain in chains:
            for variant in ("plain", "mid_is_output", "mid_second_consumer", "t1_second_inverse", "t1_out_is_output"):
                if variant.startswith("mid") and not chain:
                    continue
                inits, extra_inputs, nodes = [], [], []
                nodes.append(helper.make_node("Transpose", ["x"], ["t1o"], perm=list(p1), name="t1"))
                cur, vis = "t1o", [helper.make_tensor_value_info("t1o", TensorProto.FLOAT, list(shape_t))]
                for k, (op, side) in enumerate(chain):
                    dst = f"c{k}"
                    nodes.append(_chain_op(helper, numpy_helper, op, cur, dst, k, side, shape_t, inits, extra_inputs, rng))
                    vis.append(helper.make_tensor_value_info(dst, TensorProto.FLOAT, list(shape_t)))
                    cur = dst
                out_shape = [shape_t[i] for i in p2]
                nodes.append(helper.make_node("Transpose", [cur], ["t2o"], perm=list(p2), name="t2"))
                nodes.append(helper.make_node("Neg", ["t2o"], ["y"], name="tail"))
                vis.append(helper.make_tensor_value_info("t2o", TensorProto.FLOAT, out_shape))
                outs = [helper.make_tensor_value_info("y", TensorProto.FLOAT, out_shape)]
                if variant == "mid_is_output":
                    outs.append(helper.make_tensor_value_info("c0", TensorProto.FLOAT, list(shape_t)))
                elif variant == "mid_second_consumer":
                    nodes.append(helper.make_node("Abs", ["c0"], ["z"], name="abs2"))
                    outs.append(helper.make_tensor_value_info("z", TensorProto.FLOAT, list(shape_t)))
                elif variant == "t1_second_inverse":
                    inv = [list(p1).index(i) for i in range(len(p1))]
                    nodes.append(helper.make_node("Transpose", ["t1o"], ["u"], perm=inv, name="t3"))
                    nodes.append(helper.make_node("Abs", ["u"], ["z"], name="abs3"))
                    outs.append(helper.make_tensor_value_info("z", TensorProto.FLOAT, list(shape)))
                elif variant == "t1_out_is_output":
                    outs.append(helper.make_tensor_value_info("t1o", TensorProto.FLOAT, list(shape_t)))
                g_in = [helper.make_tensor_value_info("x", TensorProto.FLOAT, list(shape))] + [helper.make_tensor_value_info(nm, TensorProto.FLOAT, shp) for nm, shp in extra_inputs]
                g = helper.make_graph(nodes, "g", g_in, outs, initializer=inits, value_info=vis)
                m = helper.make_model(g, opset_imports=[helper.make_opsetid("", 21)])
                m.ir_version = 10
                feeds = {"x": rng.standard_normal(shape).astype(np.float32)}
                for nm, shp in extra_inputs:
                    feeds[nm] = rng.standard_normal(shp).astype(np.float32)
                what = f"T1(perm={list(p1)}) -> {[f'{op}({side})' for op, side in chain]} -> T2(perm={list(p2)}) [{variant}] on x{list(shape)}"
                ok, detail = check_pass(m, _single("remove_redundant_transpose_pairs_ir"), feeds, what)
                if ok is False:
                    return False, detail
                n += 1 if ok else 0
    return True, f"{n} transpose-pair graphs unchanged and truthfully annotated"


ALL["C02_transpose_pair_family"] = C02_transpose_pair_family


# --------------------------------------------------------------------------- T4..T7 transposes around Add forests / elementwise DAGs
def C02_transpose_dag_family():
    """Graphs in which several Transpose(p1) feed a DAG of elementwise nodes whose results pass through Transpose(p2):
    chains of 1..3 unary ops from one source, binary joins of two branches (same source / two sources / a third
    transposed source joined later), Add chains and Add forests with fan-out, unary ops between the adds, scalar and
    full-tensor constant side operands; p2 the inverse of p1 or not; ranks 3 and 4 with pairwise different extents;
    an intermediate optionally a graph output or read by a second consumer; two output transposes.  Run through
    remove_redundant_transpose_add_forests_ir followed by remove_redundant_transpose_pairs_ir (the order of the
    pipeline) and through each alone: no graph output may change and no declaration may be false."""
    from onnx import helper, TensorProto, numpy_helper
    rng = np.random.default_rng(5)
    n = 0

    def build(shape, p1, p2, body, variant):
        """body: list of (op, [operand names], out) over the names a,b,c (transposed sources) and earlier outs; last out feeds T2"""
        shape_t = [shape[i] for i in p1]
        nodes, vis, inits = [], [], []
        srcs = sorted({x for _, ins, _ in body for x in ins if x in ("a", "b", "c")})
        for sname in srcs:
            nodes.append(helper.make_node("Transpose", [f"x{sname}"], [sname], perm=list(p1), name=f"t_{sname}"))
            vis.append(helper.make_tensor_value_info(sname, TensorProto.FLOAT, shape_t))
        for k, (op, ins, out) in enumerate(body):
            real_ins = []
            for x in ins:
                if x == "s":      # scalar constant
                    nm = f"s{k}"
                    inits.append(numpy_helper.from_array(np.asarray(0.75, np.float32), nm))
                    real_ins.append(nm)
                elif x == "k":    # full constant in the transposed layout
                    nm = f"k{k}"
                    inits.append(numpy_helper.from_array(rng.standard_normal(shape_t).astype(np.float32), nm))
                    real_ins.append(nm)
                else:
                    real_ins.append(x)
            if op == "T":       # a Transpose(p1) of an intermediate value inside the DAG
                nodes.append(helper.make_node("Transpose", real_ins, [out], perm=list(p1), name=f"n{k}"))
                vis.append(helper.make_tensor_value_info(out, TensorProto.FLOAT, [shape_t[i] for i in p1]))
            else:
                nodes.append(helper.make_node(op, real_ins, [out], name=f"n{k}"))
                vis.append(helper.make_tensor_value_info(out, TensorProto.FLOAT, shape_t))
        last = body[-1][2]
        out_shape = [shape_t[i] for i in p2]
        nodes.append(helper.make_node("Transpose", [last], ["t2o"], perm=list(p2), name="t2"))
        nodes.append(helper.make_node("Neg", ["t2o"], ["y"], name="tail"))
        vis.append(helper.make_tensor_value_info("t2o", TensorProto.FLOAT, out_shape))
        outs = [helper.make_tensor_value_info("y", TensorProto.FLOAT, out_shape)]
        first = body[0][2]
        if variant == "first_is_output":
            outs.append(helper.make_tensor_value_info(first, TensorProto.FLOAT, shape_t))
        elif variant == "first_second_consumer":
            nodes.append(helper.make_node("Abs", [first], ["z"], name="abs2"))
            outs.append(helper.make_tensor_value_info("z", TensorProto.FLOAT, shape_t))
        elif variant == "two_output_transposes":
            nodes.append(helper.make_node("Transpose", [last], ["t3o"], perm=list(p2), name="t3"))
            nodes.append(helper.make_node("Abs", ["t3o"], ["z"], name="abs3"))
            outs.append(helper.make_tensor_value_info("z", TensorProto.FLOAT, out_shape))
        elif variant == "source_transpose_is_output":
            outs.append(helper.make_tensor_value_info("a", TensorProto.FLOAT, shape_t))
        g_in = [helper.make_tensor_value_info(f"x{sname}", TensorProto.FLOAT, list(shape)) for sname in srcs]
        g = helper.make_graph(nodes, "g", g_in, outs, initializer=inits, value_info=vis)
        m = helper.make_model(g, opset_imports=[helper.make_opsetid("", 21)])
        m.ir_version = 10
        feeds = {f"x{sname}": rng.standard_normal(shape).astype(np.float32) for sname in srcs}
        return m, feeds

    bodies = [
        [("Relu", ["a"], "o0")],
        [("Relu", ["a"], "o0"), ("Exp", ["o0"], "o1")],
        [("Abs", ["a"], "o0"), ("Neg", ["o0"], "o1"), ("Tanh", ["o1"], "o2")],
        [("Add", ["a", "s"], "o0"), ("Relu", ["o0"], "o1")],
        [("Relu", ["a"], "o0"), ("Sigmoid", ["a"], "o1"), ("Mul", ["o0", "o1"], "o2")],
        [("Add", ["a", "b"], "o0")],
        [("Add", ["a", "b"], "o0"), ("Abs", ["o0"], "o1"), ("Exp", ["o1"], "o2")],
        [("Relu", ["a"], "o0"), ("Sigmoid", ["b"], "o1"), ("Mul", ["o0", "o1"], "o2")],
        [("Mul", ["a", "s"], "o0"), ("Add", ["o0", "b"], "o1")],
        [("Add", ["a", "b"], "o0"), ("Add", ["o0", "c"], "o1")],
        [("Add", ["a", "b"], "o0"), ("Add", ["o0", "c"], "o1"), ("Add", ["o1", "a"], "o2")],
        [("Add", ["a", "b"], "o0"), ("Add", ["o0", "c"], "o1"), ("Add", ["o0", "o1"], "o2")],
        [("Add", ["a", "b"], "o0"), ("Relu", ["o0"], "o1"), ("Add", ["o1", "c"], "o2")],
        [("Add", ["a", "k"], "o0"), ("Relu", ["o0"], "o1")],
        [("Max", ["a", "b"], "o0"), ("Relu", ["o0"], "o1")],
        [("Sub", ["a", "b"], "o0"), ("Div", ["o0", "s"], "o1"), ("Mul", ["o1", "c"], "o2")],
    ]
    perms = [((2, 3, 4), (1, 2, 0), (2, 0, 1)), ((2, 3, 4), (0, 2, 1), (0, 2, 1)), ((2, 3, 4), (1, 2, 0), (1, 2, 0)),
             ((2, 3, 4, 5), (0, 2, 3, 1), (0, 3, 1, 2)), ((2, 3, 4, 5), (0, 3, 1, 2), (0, 2, 3, 1))]

    def pipeline(irm):
        from jax2onnx.converter import ir_optimizations as opt
        opt.remove_redundant_transpose_add_forests_ir(irm.graph)
        opt.remove_redundant_transpose_pairs_ir(irm.graph)

    # DAGs that transpose one of their own intermediates again (self-inverse permutation on a symmetric shape):
    # the inner Transpose looks like an input boundary and like an output boundary at once
    inner = [
        [("Relu", ["a"], "o0"), ("T", ["o0"], "u"), ("Add", ["u", "o0"], "o1")],
        [("Add", ["a", "b"], "o0"), ("T", ["o0"], "u"), ("Add", ["u", "o0"], "o1")],
        [("Add", ["a", "b"], "o0"), ("T", ["o0"], "u"), ("Add", ["o0", "u"], "o1"), ("Relu", ["o1"], "o2")],
        [("Relu", ["a"], "o0"), ("T", ["o0"], "u"), ("Mul", ["u", "o0"], "o1"), ("Tanh", ["o1"], "o2")],
    ]
    for shape, p in (((3, 3), (1, 0)), ((2, 3, 3), (0, 2, 1))):
        for body in inner:
            for runner, rname in ((pipeline, "forests+pairs"), (_single("remove_redundant_transpose_pairs_ir"), "pairs"), (_single("remove_redundant_transpose_add_forests_ir"), "forests")):
                m, feeds = build(shape, p, p, body, "plain")
                what = f"{[f'{op}{ins}' for op, ins, _ in body]} with an inner Transpose, between Transpose{list(p)} and Transpose{list(p)} on {list(shape)} through {rname}"
                try:
                    ok, detail = check_pass(m, runner, feeds, what)
                except Exception as e:
                    return False, f"{what}: the pass raised {type(e).__name__}: {str(e)[:160]} (an optimizer that aborts inside a rewrite leaves a half-rewritten graph)"
                if ok is False:
                    return False, detail
                n += 1 if ok else 0

    for shape, p1, p2 in perms:
        for body in bodies:
            for variant in ("plain", "first_is_output", "first_second_consumer", "two_output_transposes", "source_transpose_is_output"):
                if len(shape) == 4 and variant not in ("plain", "first_is_output"):
                    continue
                for runner, rname in ((pipeline, "forests+pairs"), (_single("remove_redundant_transpose_pairs_ir"), "pairs"), (_single("remove_redundant_transpose_add_forests_ir"), "forests")):
                    m, feeds = build(shape, p1, p2, body, variant)
                    what = f"{[f'{op}{ins}' for op, ins, _ in body]} between Transpose{list(p1)} and Transpose{list(p2)} [{variant}] on {list(shape)} through {rname}"
                    ok, detail = check_pass(m, runner, feeds, what)
                    if ok is False:
                        return False, detail
                    n += 1 if ok else 0
    return True, f"{n} transpose-DAG graphs unchanged and truthfully annotated"


ALL["C02_transpose_dag_family"] = C02_transpose_dag_family


# --------------------------------------------------------------------------- T10 reshape pairs
def C02_reshape_pair_family():
    """Reshape(x -> mid) -> k elementwise ops (k = 0, 1, 2; side operands: rank-0 scalar, size-1 constants of rank 1..3,
    full constants, graph inputs; CastLike) -> Reshape(-> out) for source/intermediate/final shapes of rank 1..3 (final equal
    to the source shape or not); intermediates optionally graph outputs / read by a second consumer.
    remove_redundant_reshape_pairs_ir must change no output (value, shape, dtype) and leave no false declaration."""
    from onnx import helper, TensorProto, numpy_helper
    rng = np.random.default_rng(11)
    n = 0
    shapes = [((6,), (2, 3), (6,)), ((2, 3), (6,), (2, 3)), ((2, 3), (3, 2), (2, 3)), ((2, 3, 4), (6, 4), (2, 3, 4)), ((24,), (2, 3, 4), (24,)),
              ((2, 3), (6,), (3, 2)), ((6,), (2, 3), (1, 6)), ((2, 3, 4), (24,), (2, 3, 4)), ((6,), (1, 6), (6,))]
    sides = ("scalar", "ones1", "ones2", "ones3", "const_full", "input_full")
    for src, mid, dst in shapes:
        chains = [[]] + [[(op, "scalar")] for op in ("Relu", "Tanh", "Cast", "Clip", "Elu")] + [[(op, side)] for op in ("Max", "Min", "CastLike") for side in sides]
        chains += [[("Relu", "scalar"), ("Max", side)] for side in ("scalar", "ones2", "input_full")] + [[("Max", "ones1"), ("Min", "ones2")]]
        for chain in chains:
            for variant in ("plain", "mid_is_output", "mid_second_consumer", "t1_out_is_output"):
                if variant.startswith("mid") and not chain:
                    continue
                inits, extra_inputs, nodes = [], [], []
                inits.append(numpy_helper.from_array(np.asarray(mid, np.int64), "s1"))
                inits.append(numpy_helper.from_array(np.asarray(dst, np.int64), "s2"))
                nodes.append(helper.make_node("Reshape", ["x", "s1"], ["t1o"], name="t1"))
                cur, vis = "t1o", [helper.make_tensor_value_info("t1o", TensorProto.FLOAT, list(mid))]
                for k, (op, side) in enumerate(chain):
                    dname = f"c{k}"
                    if side.startswith("ones"):
                        r = int(side[4:])
                        nm = f"side{k}"
                        inits.append(numpy_helper.from_array(np.full((1,) * r, 0.25, np.float32), nm))
                        nodes.append(helper.make_node(op, [cur, nm], [dname], name=f"op{k}"))
                        out_rank = len(mid) if op == "CastLike" else max(r, len(mid))
                        vis.append(helper.make_tensor_value_info(dname, TensorProto.FLOAT, [1] * (out_rank - len(mid)) + list(mid)))
                    else:
                        nodes.append(_chain_op(helper, numpy_helper, op, cur, dname, k, side, mid, inits, extra_inputs, rng))
                        vis.append(helper.make_tensor_value_info(dname, TensorProto.FLOAT, list(mid)))
                    cur = dname
                nodes.append(helper.make_node("Reshape", [cur, "s2"], ["t2o"], name="t2"))
                nodes.append(helper.make_node("Neg", ["t2o"], ["y"], name="tail"))
                vis.append(helper.make_tensor_value_info("t2o", TensorProto.FLOAT, list(dst)))
                outs = [helper.make_tensor_value_info("y", TensorProto.FLOAT, list(dst))]
                if variant == "mid_is_output":
                    outs.append(helper.make_tensor_value_info("c0", TensorProto.FLOAT, None))
                elif variant == "mid_second_consumer":
                    nodes.append(helper.make_node("Abs", ["c0"], ["z"], name="abs2"))
                    outs.append(helper.make_tensor_value_info("z", TensorProto.FLOAT, None))
                elif variant == "t1_out_is_output":
                    outs.append(helper.make_tensor_value_info("t1o", TensorProto.FLOAT, list(mid)))
                g_in = [helper.make_tensor_value_info("x", TensorProto.FLOAT, list(src))] + [helper.make_tensor_value_info(nm, TensorProto.FLOAT, shp) for nm, shp in extra_inputs]
                g = helper.make_graph(nodes, "g", g_in, outs, initializer=inits, value_info=vis)
                m = helper.make_model(g, opset_imports=[helper.make_opsetid("", 21)])
                m.ir_version = 10
                feeds = {"x": rng.standard_normal(src).astype(np.float32)}
                for nm, shp in extra_inputs:
                    feeds[nm] = rng.standard_normal(shp).astype(np.float32)
                what = f"Reshape({list(src)}->{list(mid)}) -> {[f'{op}({side})' for op, side in chain]} -> Reshape(->{list(dst)}) [{variant}]"
                ok, detail = check_pass(m, _single("remove_redundant_reshape_pairs_ir"), feeds, what)
                if ok is False:
                    return False, detail
                n += 1 if ok else 0
    return True, f"{n} reshape-pair graphs unchanged and truthfully annotated"


ALL["C02_reshape_pair_family"] = C02_reshape_pair_family


# --------------------------------------------------------------------------- C05 custom input/output names
def C05_custom_names_family():
    """user_interface._resolve_positional_inputs / _apply_custom_io_names_on_ir on top graphs with n = 1..13 positional
    inputs named as the binder names them (in_<i>, or in_<i>_nchw for a random subset), listed in the graph in order,
    reversed or shuffled, mixed with non-positional inputs (materialised parameters): the i-th custom input name must
    land on the input that carries positional index i, the j-th output name on output j, every other value keeps its
    name, and colliding / duplicated names must raise."""
    import random
    import onnx_ir as ir
    from jax2onnx import user_interface as ui
    rnd = random.Random(3)
    n_cases = 0
    for n in list(range(1, 14)):
        for order in ("in_order", "reversed", "shuffled"):
            for with_params in (False, True):
                nchw = {i for i in range(n) if rnd.random() < 0.3}
                names = [f"in_{i}_nchw" if i in nchw else f"in_{i}" for i in range(n)]
                vals = {i: ir.Value(name=names[i], type=ir.TensorType(ir.DataType.FLOAT), shape=ir.Shape([2, i + 1])) for i in range(n)}
                listed = [vals[i] for i in range(n)]
                if order == "reversed":
                    listed = listed[::-1]
                elif order == "shuffled":
                    rnd.shuffle(listed)
                extra = [ir.Value(name=f"param_{k}", type=ir.TensorType(ir.DataType.FLOAT), shape=ir.Shape([3])) for k in range(2)] if with_params else []
                inputs = listed + extra if order != "reversed" else extra + listed
                nodes, outs = [], []
                for i in range(min(n, 3)):
                    o = ir.Value(name=f"y_{i}", type=ir.TensorType(ir.DataType.FLOAT), shape=ir.Shape([2, i + 1]))
                    nodes.append(ir.Node("", "Relu", [vals[i]], outputs=[o], name=f"relu_{i}"))
                    outs.append(o)
                g = ir.Graph(inputs, outs, nodes=nodes, name="g", opset_imports={"": 21})
                got = ui._resolve_positional_inputs(g, n)
                if len(got) != n or any(got[i] is not vals[i] for i in range(n)):
                    return False, f"_resolve_positional_inputs with {n} positional inputs listed {order} (params={with_params}): position {[i for i in range(n) if i >= len(got) or got[i] is not vals[i]][0]} resolves to `{got[[i for i in range(n) if i >= len(got) or got[i] is not vals[i]][0]].name if got else None}`"
                m = ir.Model(g, ir_version=10)
                in_names = [f"arg{i}" for i in range(n)]
                out_names = [f"res{j}" for j in range(len(outs))]
                ui._apply_custom_io_names_on_ir(m, input_names=in_names, output_names=out_names, positional_input_count=n)
                if any(vals[i].name != in_names[i] for i in range(n)):
                    bad = [i for i in range(n) if vals[i].name != in_names[i]][0]
                    return False, f"custom input names on {n} inputs listed {order}: positional argument {bad} is named `{vals[bad].name}` instead of `{in_names[bad]}`"
                if any(o.name != out_names[j] for j, o in enumerate(outs)) or any(e.name != f"param_{k}" for k, e in enumerate(extra)):
                    return False, f"custom output names / untouched parameter names wrong for {n} inputs listed {order}"
                n_cases += 1
    # loud failures: duplicate names, collision with another value's name
    for bad_names, why in ((["a", "a"], "duplicate"), (["y_0", "b"], "collision with an existing value name")):
        v0, v1 = (ir.Value(name=f"in_{i}", type=ir.TensorType(ir.DataType.FLOAT), shape=ir.Shape([2])) for i in range(2))
        o = ir.Value(name="y_0", type=ir.TensorType(ir.DataType.FLOAT), shape=ir.Shape([2]))
        mid = ir.Value(name="y_0" if False else "mid", type=ir.TensorType(ir.DataType.FLOAT), shape=ir.Shape([2]))
        g = ir.Graph([v0, v1], [o], nodes=[ir.Node("", "Add", [v0, v1], outputs=[mid]), ir.Node("", "Relu", [mid], outputs=[o])], name="g", opset_imports={"": 21})
        m = ir.Model(g, ir_version=10)
        try:
            ui._apply_custom_io_names_on_ir(m, input_names=(bad_names if why == "duplicate" else ["mid", "b"]), output_names=None, positional_input_count=2)
            return False, f"custom names with a {why} were accepted silently"
        except ValueError:
            pass
        n_cases += 1
    return True, f"{n_cases} naming cases consistent"


ALL["C05_custom_names_family"] = C05_custom_names_family


# --------------------------------------------------------------------------- T12 / T13 / T14 and the shape-propagation passes
def C02_misc_rewrites_family(include_not_true=False, only_dropout=False):
    """Mul*Sigmoid -> Swish (opset 24; x the same value or not, operand order, the Sigmoid output also observed, the Mul
    output a graph output, opset 23 = no rewrite), Mul(o, Div(1, Sqrt(s))) (env-gated rewrite: must not fire by default),
    Dropout with training_mode = Not(True constant) / constant False / a graph input (ratio constant), with the Not output
    also observed, and elementwise chains with missing declarations for the two shape-propagation passes: each pass alone
    and the whole optimize_graph pipeline must change no output and leave no false declaration."""
    from onnx import helper, TensorProto, numpy_helper
    rng = np.random.default_rng(9)
    n = 0
    F = TensorProto.FLOAT

    def model(nodes, ins, outs, inits=(), vis=(), opset=24):
        g = helper.make_graph(nodes, "g", ins, outs, initializer=list(inits), value_info=list(vis))
        m = helper.make_model(g, opset_imports=[helper.make_opsetid("", opset)])
        m.ir_version = 10
        return m

    def whole(irm):
        from jax2onnx.converter import ir_optimizations as opt
        opt.optimize_graph(irm)

    cases = []
    x_in = [helper.make_tensor_value_info("x", F, [2, 3])]
    xy_in = x_in + [helper.make_tensor_value_info("w", F, [2, 3])]
    # --- Swish
    for opset in (24, 23):
        for order in ("xs", "sx"):
            for other in ("same", "different"):
                for variant in ("plain", "sigmoid_observed", "mul_is_output"):
                    a = "x" if other == "same" else "w"
                    nodes = [helper.make_node("Sigmoid", ["x"], ["s"], name="sig"),
                             helper.make_node("Mul", ([a, "s"] if order == "xs" else ["s", a]), ["m"], name="mul"),
                             helper.make_node("Neg", ["m"], ["y"], name="tail")]
                    outs = [helper.make_tensor_value_info("y", F, [2, 3])]
                    if variant == "sigmoid_observed":
                        outs.append(helper.make_tensor_value_info("s", F, [2, 3]))
                    if variant == "mul_is_output":
                        outs.append(helper.make_tensor_value_info("m", F, [2, 3]))
                    vis = [helper.make_tensor_value_info("s", F, [2, 3]), helper.make_tensor_value_info("m", F, [2, 3])]
                    cases.append((f"Mul({order},{other}) Sigmoid [{variant}] opset {opset}", model(nodes, xy_in, outs, vis=vis, opset=opset), "rewrite_mul_sigmoid_as_swish_ir", {"x": (2, 3), "w": (2, 3)}, opset == 24))
    # --- Swish where the Sigmoid output is captured by an If branch (no node consumer, no graph output: still observed)
    for order in ("xs", "sx"):
        then_g = helper.make_graph([helper.make_node("Identity", ["s"], ["t"])], "then_b", [], [helper.make_tensor_value_info("t", F, [2, 3])])
        else_g = helper.make_graph([helper.make_node("Neg", ["s"], ["e"])], "else_b", [], [helper.make_tensor_value_info("e", F, [2, 3])])
        nodes = [helper.make_node("Sigmoid", ["x"], ["s"], name="sig"), helper.make_node("Mul", (["x", "s"] if order == "xs" else ["s", "x"]), ["m"], name="mul"),
                 helper.make_node("Greater", ["w", "w"], ["cnd_t"], name="gt"), helper.make_node("ReduceMax", ["cnd_t"], ["cnd"], name="rmax", keepdims=0),
                 helper.make_node("If", ["cnd"], ["z"], name="if", then_branch=then_g, else_branch=else_g)]
        outs = [helper.make_tensor_value_info("m", F, [2, 3]), helper.make_tensor_value_info("z", F, [2, 3])]
        cases.append((f"Mul({order}) Sigmoid with the Sigmoid output captured by an If branch, opset 24", model(nodes, xy_in, outs, opset=24), "rewrite_mul_sigmoid_as_swish_ir", {"x": (2, 3), "w": (2, 3)}, False))
    # --- rsqrt (gate off by default)
    one = numpy_helper.from_array(np.asarray(1.0, np.float32), "one")
    nodes = [helper.make_node("Abs", ["x"], ["a"], name="abs"), helper.make_node("Sqrt", ["a"], ["q"], name="sqrt"), helper.make_node("Div", ["one", "q"], ["r"], name="div"),
             helper.make_node("Mul", ["w", "r"], ["y"], name="mul")]
    cases.append(("Mul(w, Div(1, Sqrt(|x|)))", model(nodes, xy_in, [helper.make_tensor_value_info("y", F, [2, 3])], inits=[one]), "rewrite_mul_rsqrt_as_div_ir", {"x": (2, 3), "w": (2, 3)}, True))
    # --- Dropout
    ratio = numpy_helper.from_array(np.asarray(0.5, np.float32), "ratio")
    tru = numpy_helper.from_array(np.asarray(True), "tru")
    fal = numpy_helper.from_array(np.asarray(False), "fal")
    for tm in (("not_true", "const_false", "graph_input") if include_not_true else ("const_false", "graph_input")):
        for variant in ("plain", "not_observed"):
            if variant == "not_observed" and tm != "not_true":
                continue
            nodes, inits, ins = [], [ratio], list(x_in)
            if tm == "not_true":
                nodes.append(helper.make_node("Not", ["tru"], ["tm"], name="not"))
                inits.append(tru)
            elif tm == "const_false":
                inits.append(numpy_helper.from_array(np.asarray(False), "tm"))
            else:
                ins.append(helper.make_tensor_value_info("tm", TensorProto.BOOL, []))
            nodes += [helper.make_node("Dropout", ["x", "ratio", "tm"], ["d"], name="drop"), helper.make_node("Neg", ["d"], ["y"], name="tail")]
            outs = [helper.make_tensor_value_info("y", F, [2, 3])]
            if variant == "not_observed":
                outs.append(helper.make_tensor_value_info("tm", TensorProto.BOOL, []))
            cases.append((f"Dropout(training_mode={tm}) [{variant}]", model(nodes, ins, outs, inits=inits, opset=21), "inline_dropout_training_mode_constants_ir", {"x": (2, 3), "tm": ()}, True))
    # --- shape propagation: declarations missing on intermediates, broadcasting binary ops, size-1 constants of higher rank
    c111 = numpy_helper.from_array(np.full((1, 1, 1), 0.5, np.float32), "c111")
    c3 = numpy_helper.from_array(rng.standard_normal((3,)).astype(np.float32), "c3")
    for body in ([("Relu", ["x"], "a"), ("Add", ["a", "c111"], "b"), ("Tanh", ["b"], "y")],
                 [("Mul", ["x", "c3"], "a"), ("Cast", ["a"], "b"), ("Sub", ["b", "w"], "y")],
                 [("Add", ["c111", "x"], "a"), ("Max", ["a", "w"], "y")]):
        nodes = []
        for k, (op, ins_, out) in enumerate(body):
            attrs = {"to": F} if op == "Cast" else {}
            nodes.append(helper.make_node(op, ins_, [out], name=f"n{k}", **attrs))
        rank3 = any("c111" in ins_ for _, ins_, _ in body)
        outs = [helper.make_tensor_value_info("y", F, [1, 2, 3] if rank3 else [2, 3])]
        for pname in ("propagate_elementwise_shapes_ir", "propagate_unary_shapes_ir"):
            cases.append((f"{[op for op, _, _ in body]} with undeclared intermediates through {pname}", model(nodes, xy_in, outs, inits=[c111, c3], opset=21), pname, {"x": (2, 3), "w": (2, 3)}, True))
    if only_dropout:
        cases = [c for c in cases if c[2] == "inline_dropout_training_mode_constants_ir"]
    for what, m, pname, feed_shapes, runs_whole in cases:
        used = {i.name for i in m.graph.input}
        feeds = {k: (rng.standard_normal(shp).astype(np.float32) if k != "tm" else np.asarray(False)) for k, shp in feed_shapes.items() if k in used}
        for runner, rname in ((_single(pname), pname),) + (((whole, "optimize_graph"),) if runs_whole else ()):
            import onnx
            m2 = onnx.ModelProto()
            m2.CopyFrom(m)
            ok, detail = check_pass(m2, runner, feeds, f"{what} through {rname}")
            if ok is False:
                return False, detail
            n += 1 if ok else 0
    return True, f"{n} graphs through the Swish / rsqrt / Dropout / shape-propagation passes unchanged and truthfully annotated"


ALL["C02_misc_rewrites_family"] = C02_misc_rewrites_family
# known finding D27: Dropout(training_mode = Not(constant True)) - the rewritten node reads a value that is neither initializer nor node output
ALL["D27_dropout_not_true"] = lambda: C02_misc_rewrites_family(include_not_true=True, only_dropout=True)


# --------------------------------------------------------------------------- C08 export post-processing only weakens
def C08_postprocess_family():
    """ir_postprocess.postprocess_ir_model on hand-built models whose intermediate values declare every mixture of integer,
    named-symbolic and unknown dims (ranks 0..3), at top level, inside a Loop body (where only the rank may survive) and an If
    branch, with values that are also graph inputs/outputs, with and without promotion to double: afterwards every value
    keeps its rank, every dim is the old dim or unknown, graph inputs and outputs declare exactly what they declared, and
    element types change only for float32 constants under promotion (payload and declared type together)."""
    import onnx_ir as ir
    from jax2onnx.converter import ir_postprocess as pp
    pools = [None, 2, 3, "B", "N"]
    n = 0

    def dims_of(v):
        return None if v.shape is None else [d if isinstance(d, int) else (d.value if isinstance(d, ir.SymbolicDim) else d) for d in v.shape.dims]

    io_ids = set()

    def snapshot(graph, acc, where):
        io_ids.update(id(v) for v in list(graph.inputs) + list(graph.outputs))     # inputs/outputs of nested bodies are an interface too
        for val in list(graph.inputs) + list(graph.outputs) + [o for nd in graph for o in nd.outputs] + list(getattr(graph.initializers, "values", lambda: [])()):
            acc.setdefault(id(val), (where, val, dims_of(val), val.dtype))
        for nd in graph:
            for a in nd.attributes.values():
                if a.type == ir.AttributeType.GRAPH:
                    snapshot(a.as_graph(), acc, where + "/" + nd.op_type)

    for rank in range(0, 4):
        for combo in itertools.product(pools, repeat=rank):
            if rank == 3 and (combo[0] != 2 or len(set(map(str, combo))) < 2):
                continue
            for promote in (False, True):
                shp = lambda: ir.Shape(list(combo))  # noqa: E731
                F = ir.DataType.FLOAT
                x = ir.Value(name="x", type=ir.TensorType(F), shape=shp())
                a = ir.Value(name="a", type=ir.TensorType(F), shape=shp())
                b = ir.Value(name="b", type=ir.TensorType(F), shape=shp())
                y = ir.Value(name="y", type=ir.TensorType(F), shape=shp())
                c = ir.Value(name="c", type=ir.TensorType(F), shape=ir.Shape([1]), const_value=ir.tensor(np.asarray([0.5], np.float32)))
                ci = ir.Value(name="ci", type=ir.TensorType(ir.DataType.INT64), shape=ir.Shape([1]), const_value=ir.tensor(np.asarray([3], np.int64)))
                # a Loop body with one intermediate of the same declared shape
                bi, bc, bs = (ir.Value(name=nm, type=ir.TensorType(t), shape=ir.Shape(sh)) for nm, t, sh in (("it", ir.DataType.INT64, []), ("cnd", ir.DataType.BOOL, []), ("st", F, list(combo))))
                bm = ir.Value(name="body_mid", type=ir.TensorType(F), shape=shp())
                bo = ir.Value(name="body_out", type=ir.TensorType(F), shape=shp())
                body = ir.Graph([bi, bc, bs], [bc, bo], nodes=[ir.Node("", "Relu", [bs], outputs=[bm]), ir.Node("", "Neg", [bm], outputs=[bo])], name="body", opset_imports={"": 21})
                trip = ir.Value(name="trip", type=ir.TensorType(ir.DataType.INT64), shape=ir.Shape([]), const_value=ir.tensor(np.asarray(2, np.int64)))
                cond0 = ir.Value(name="cond0", type=ir.TensorType(ir.DataType.BOOL), shape=ir.Shape([]), const_value=ir.tensor(np.asarray(True)))
                nodes = [ir.Node("", "Add", [x, c], outputs=[a]), ir.Node("", "Relu", [a], outputs=[b]),
                         ir.Node("", "Loop", [trip, cond0, b], outputs=[y], attributes=[ir.AttrGraph("body", body)])]
                g = ir.Graph([x], [y, a], nodes=nodes, initializers=[c, ci, trip, cond0], name="g", opset_imports={"": 21})
                m = ir.Model(g, ir_version=10)
                before = {}
                io_ids.clear()
                snapshot(g, before, "top")
                pp.postprocess_ir_model(m, promote_to_double=promote)
                io = set(io_ids)
                for vid, (where, val, d0, t0) in before.items():
                    d1, t1 = dims_of(val), val.dtype
                    what = f"dims {list(combo)}, promote={promote}: value `{val.name}` ({where})"
                    if vid in io and (d1 != d0 or t1 != t0):
                        return False, f"{what} is a graph input/output and changed its declaration {d0}/{t0} -> {d1}/{t1}"
                    if (d0 is None) != (d1 is None) and d0 is not None:
                        return False, f"{what}: declared shape dropped entirely ({d0} -> {d1})"
                    if d0 is not None and d1 is not None:
                        if len(d0) != len(d1):
                            return False, f"{what}: rank changed {d0} -> {d1}"
                        for o, nw in zip(d0, d1):
                            if nw is not None and nw != o:
                                return False, f"{what}: dim {o!r} became {nw!r} (post-processing may only forget dims)"
                    if t1 != t0:
                        is_f32_const = val.const_value is not None and t0 == F
                        if not (promote and is_f32_const and t1 == ir.DataType.DOUBLE and val.const_value.dtype == ir.DataType.DOUBLE):
                            return False, f"{what}: element type {t0} -> {t1}"
                n += 1
    return True, f"{n} models post-processed: declarations only weakened, inputs/outputs untouched"


ALL["C08_postprocess_family"] = C08_postprocess_family
