"""C16 — failure is loud (and the rejection guards shared with C06)."""
from __future__ import annotations

import z3

from pyvc.vals import *  # noqa
from pyvc.core import *  # noqa
from pyvc.world import Contract, Ctx
from pyvc.stmts import LoopSpec
from specs import ctxmodel, opaque
from specs.opaque import OPQ, EMIT
from specs.ctxmodel import CTX, BLD, JVAR, VALUE

ML = "jax2onnx.converter.lowering_dispatch"
MO = "jax2onnx.converter.output_binding"
MC = "jax2onnx.converter.conversion_api"
MSCAN = "jax2onnx.plugins.jax.lax.scan"
MCOND = "jax2onnx.plugins.jax.lax.cond"
PLUGIN, EQN, JAXPR_E = "Plugin", "Eqn", "JaxprE"


def register(w):
    M = ctxmodel.register(w)
    opaque.install(w)
    sel = z3.Select
    w.fields[(EQN, "outvars")] = Seq(Ref(JVAR))
    w.fields[(EQN, "invars")] = Seq(Ref(JVAR))
    w.fields[(EQN, "primitive")] = Ref("Prim")
    w.fields[("Prim", "name")] = Str
    w.fields[(JAXPR_E, "eqns")] = Seq(Ref(EQN))
    logger = VRef(OPQ, z3.Const("module_logger", ref_sort(OPQ)))
    w.global_overrides[(ML, "_MISSING")] = VRef(OPQ, z3.Const("dispatch_MISSING", ref_sort(OPQ)))
    for mod in (MC, ML, MO):
        w.global_overrides[(mod, "_LOGGER")] = logger
        w.global_overrides[(mod, "logger")] = logger

    # ---------------------------------------------------------------- registry lookup
    REG = MapT(Str, Opt(Ref(PLUGIN)))

    def post_lookup(c: Ctx):
        reg, name, r = c["registry"], c["primitive_name"], c.result
        if isinstance(r, VNone):
            return z3.BoolVal(False)
        return z3.And(sel(reg.present, name.term), sel(reg.arrs[0], name.term) == r.term, r.term != null_of(PLUGIN))

    def exc_lookup(c: Ctx):
        reg, name = c["registry"], c["primitive_name"]
        return z3.Or(z3.Not(sel(reg.present, name.term)), sel(reg.arrs[0], name.term) == null_of(PLUGIN))

    def replay_lookup(model, args):
        import importlib
        mod = importlib.import_module(ML)
        try:
            r = mod.get_registered_lowering_plugin({}, "no_such_primitive", source="x")
            return True, f"returned {r!r} for an unregistered primitive"
        except NotImplementedError:
            pass
        sentinel = object()
        r = mod.get_registered_lowering_plugin({"p": sentinel}, "p", source="x")
        return (r is not sentinel), f"returned {r!r} instead of the registered plugin"

    w.add_contract(Contract(
        f"{ML}:get_registered_lowering_plugin", params={"registry": REG, "primitive_name": Str, "source": Str, "detail": Opt(Str)},
        ensures=[("returns_the_registered_plugin", post_lookup)], exc_ensures=[("raises_only_when_unregistered", exc_lookup)],
        raises={"NotImplementedError"}, ret=Ref(PLUGIN), props=["C16"], replay=replay_lookup,
    ))

    # ---------------------------------------------------------------- optimizer failure policy
    def _strict_env_name():
        import ast
        from pyvc import source as S
        st = S.load_module(MC).toplevel.get("_STRICT_OPTIMIZER_FAILURES_ENV")
        return ast.literal_eval(st.value)

    envflag = w.fn("env_flag_enabled", z3.StringSort(), z3.BoolSort())
    w.add_contract(Contract(f"{MC}:_env_flag_enabled", params={"name": Str}, ret=Bool, assumed=True,
                            ensures=[("is_env", lambda c: c.result.term == envflag(c["name"].term))], note="reads one environment variable (string table checked separately)"))

    def post_resolve(c: Ctx):
        f = c["strict_optimizer_failures"]
        if isinstance(f, VNone):
            return c.result.term == envflag(z3.StringVal(_strict_env_name()))
        return c.result.term == f.term

    w.add_contract(Contract(f"{MC}:_log_nonfatal_stage_failure", params={"stage": Str, "exc": Ref(OPQ)}, ret=NoneT, assumed=True, note="logging only"))

    w.add_contract(Contract(
        f"{MC}:_resolve_strict_optimizer_failures", params={"strict_optimizer_failures": Opt(Bool)},
        ensures=[("explicit_flag_wins", post_resolve)], raises=set(), ret=Bool, props=["C16"],
    ))

    def mark_opt_raised(c: Ctx):
        c.ex.ghost["optimize_raised"] = True
        return z3.BoolVal(True)

    w.add_contract(Contract(f"{MC}:optimize_graph", params={"ir_model": Ref(OPQ)}, ret=Ref(OPQ), assumed=True, may_raise=["AnyException"],
                            exc_ensures=[("mark", mark_opt_raised)], note="the optimizer pipeline may abort with any exception (its transactions are the subject of C02)"))
    w.add_contract(Contract(f"jax2onnx.converter.ir_optimizations:optimize_graph", params={"ir_model": Ref(OPQ)}, ret=Ref(OPQ), assumed=True, may_raise=["AnyException"],
                            exc_ensures=[("mark", mark_opt_raised)], note="as above"))

    def strict_term(c: Ctx):
        f = c["strict_optimizer_failures"]
        return envflag(z3.StringVal(_strict_env_name())) if isinstance(f, VNone) else f.term

    def _strict_env_name():
        import ast
        from pyvc import source as S
        st = S.load_module(MC).toplevel.get("_STRICT_OPTIMIZER_FAILURES_ENV")
        return ast.literal_eval(st.value)

    def post_policy_normal(c: Ctx):
        # a normal return after the optimizer raised is only allowed when the policy is non-strict
        return z3.Implies(z3.BoolVal(bool(c.ex.ghost.get("optimize_raised"))), z3.Not(strict_term(c)))

    def post_policy_exc(c: Ctx):
        # an exception leaves only if the optimizer raised and the policy is strict
        return z3.And(z3.BoolVal(bool(c.ex.ghost.get("optimize_raised"))), strict_term(c))

    def replay_policy(model, args):
        import importlib
        mod = importlib.import_module(MC)

        class Boom(Exception):
            pass
        orig = mod.optimize_graph

        def failing(m):
            raise Boom()
        mod.optimize_graph = failing
        try:
            bad = []
            try:
                mod._optimize_graph_with_failure_policy(None, strict_optimizer_failures=True)
                bad.append("strict=True swallowed the optimizer failure")
            except Boom:
                pass
            try:
                mod._optimize_graph_with_failure_policy(None, strict_optimizer_failures=False)
            except Boom:
                bad.append("strict=False re-raised the optimizer failure")
        finally:
            mod.optimize_graph = orig
        return bool(bad), "; ".join(bad) or "policy honoured"

    w.add_contract(Contract(
        f"{MC}:_optimize_graph_with_failure_policy", params={"model": Ref(OPQ), "strict_optimizer_failures": Opt(Bool)},
        ensures=[("swallowed_only_when_not_strict", post_policy_normal)], exc_ensures=[("raised_only_when_strict", post_policy_exc)],
        ret=NoneT, props=["C16"], opaque_externals=True, replay=replay_policy,
    ))

    # ---------------------------------------------------------------- dispatch
    is_prim = w.fn("is_primitive_lowering", ref_sort(PLUGIN), z3.BoolSort())
    is_func = w.fn("is_function_lowering", ref_sort(PLUGIN), z3.BoolSort())
    w.ref_classes[PLUGIN] = set()

    def isinstance_plugin(ex, v, nm):
        if isinstance(v, VRef) and v.sort == PLUGIN:
            if nm.endswith("PrimitiveLowering"):
                return is_prim(v.term)
            if nm.endswith("FunctionLowering"):
                return is_func(v.term)
        return None
    w.isinstance_hooks.append(isinstance_plugin)

    def plugin_attr(ex, base, attr):
        if base.sort == PLUGIN:
            r = opaque.fresh_opaque(ex)
            r.from_plugin = (base, attr)
            return r
        return None
    w.ref_getattr_hooks.append(plugin_attr)

    w.add_contract(Contract(f"{ML}:_lower_accepts_params", params={"lower": Ref(OPQ)}, ret=Bool, assumed=True, note="signature inspection of the plugin's lower()"))
    w.add_contract(Contract(f"{ML}:make_converter_facade", params={"ctx": Ref(EMIT)}, ret=Ref(OPQ), assumed=True, note="namespace object"))

    w.add_contract(Contract(
        f"{ML}:dispatch_plugin_lowering",
        params={"plugin": Ref(PLUGIN), "ctx": Ref(EMIT), "eqn": Ref(OPQ), "primitive_name": Str, "source": Str, "converter": Opt(Ref(OPQ))},
        ensures=[("only_known_plugin_kinds_return", lambda c: z3.Or(is_prim(c["plugin"].term), is_func(c["plugin"].term)))],
        exc_ensures=[],
        ret=Ref(OPQ), props=["C16"],
    ))

    # ---------------------------------------------------------------- per-equation output/input assertions
    is_drop = w.fn("is_drop_var", ref_sort(JVAR), z3.BoolSort())
    connected = w.fn("value_is_graph_connected", ref_sort(VALUE), z3.IntSort(), z3.BoolSort())
    resolvable = w.fn("var_is_resolvable", ref_sort(JVAR), z3.IntSort(), z3.BoolSort())

    def hv(ex):
        return ex.ghost.get("heap_version", z3.IntVal(0))

    w.add_contract(Contract(f"{MO}:is_drop_var", params={"var": Ref(JVAR)}, ret=Bool, assumed=True,
                            ensures=[("is", lambda c: c.result.term == is_drop(c["var"].term))], note="jax DropVar test"))
    w.add_contract(Contract(f"{MO}:_value_is_graph_connected", params={"ctx": Ref(CTX), "value": Ref(VALUE)}, ret=Bool, assumed=True,
                            ensures=[("is", lambda c: c.result.term == connected(c["value"].term, hv(c.ex)))],
                            note="value is an input, an initializer or a node output of the graph under construction (scan over builder containers)"))
    w.add_contract(Contract(
        "jax2onnx.converter.ir_context:IRContext.require_value_for_var", params={"self": Ref(CTX), "var": Ref(JVAR), "prefer_np_dtype": Opt(Enum("NpDT"))},
        ret=Ref(VALUE), assumed=True, may_raise=["KeyError", "TypeError"],
        ensures=[("resolvable", lambda c: resolvable(c["var"].term, hv(c.ex)))],
        exc_ensures=[("keyerror_means_unbound", lambda c: z3.Implies(z3.BoolVal(c.exc == "KeyError"), z3.Not(resolvable(c["var"].term, hv(c.ex)))))],
        note="returns the bound value (binding literals as constants) or raises KeyError when nothing is bound",
    ))

    def bound_ok(ex, ctx_term, var):
        b = M.builder_of(ex, ctx_term)
        m = ex.heap_arrays(BLD, "_var2val")
        return z3.And(sel(sel(m[0], b), var), connected(sel(sel(m[1], b), var), hv(ex)))

    def inv_outputs(lc):
        ex = lc.ex
        ov = ex.read_field(lc["eqn"], "outvars")
        k = z3.Int("k")
        return [("checked_prefix_bound_and_connected", z3.ForAll([k], z3.Implies(z3.And(0 <= k, k < lc.idx, z3.Not(is_drop(sel(ov.arrs[0], k)))), bound_ok(ex, lc["ctx"].term, sel(ov.arrs[0], k)))))]

    def post_outputs(c: Ctx):
        ex = c.ex
        ov = ex.read_field(c["eqn"], "outvars")
        k = z3.Int("k")
        return z3.ForAll([k], z3.Implies(z3.And(0 <= k, k < ov.length, z3.Not(is_drop(sel(ov.arrs[0], k)))), bound_ok(ex, c["ctx"].term, sel(ov.arrs[0], k))))

    w.add_contract(Contract(
        f"{MO}:assert_eqn_outputs_bound", params={"ctx": Ref(CTX), "eqn": Ref(EQN), "primitive_name": Str, "eqn_index": Int},
        loops={0: LoopSpec(invariant=inv_outputs, label="outvars")},
        ensures=[("every_non_drop_outvar_bound_and_connected", post_outputs)], raises={"RuntimeError"}, ret=NoneT, props=["C16", "C03"],
        witnesses=["C16_unbound_output_is_loud"],
    ))

    def inv_inputs(lc):
        ex = lc.ex
        iv = ex.read_field(lc["eqn"], "invars")
        k = z3.Int("k")
        return [("checked_prefix_resolvable", z3.ForAll([k], z3.Implies(z3.And(0 <= k, k < lc.idx, z3.Not(is_drop(sel(iv.arrs[0], k)))), resolvable(sel(iv.arrs[0], k), hv(ex)))))]

    def post_inputs(c: Ctx):
        ex = c.ex
        iv = ex.read_field(c["eqn"], "invars")
        k = z3.Int("k")
        return z3.ForAll([k], z3.Implies(z3.And(0 <= k, k < iv.length, z3.Not(is_drop(sel(iv.arrs[0], k)))), resolvable(sel(iv.arrs[0], k), hv(ex))))

    w.add_contract(Contract(
        f"{MO}:assert_eqn_inputs_bound", params={"ctx": Ref(CTX), "eqn": Ref(EQN), "primitive_name": Str, "eqn_index": Int},
        loops={0: LoopSpec(invariant=inv_inputs, label="invars")},
        ensures=[("every_non_drop_invar_resolvable", post_inputs)], raises={"RuntimeError", "TypeError"}, ret=NoneT, props=["C16"],
    ))

    # ---------------------------------------------------------------- values returned by a lowering are bound positionally only when the arities agree
    w.add_contract(Contract(
        f"{MO}:_outvar_needs_binding", params={"ctx": Ref(CTX), "var": Ref(JVAR)}, ret=Bool, raises=set(),
        ensures=[("true_exactly_when_nothing_connected_is_bound", lambda c: c.result.term == z3.Not(bound_ok(c.ex, c["ctx"].term, c["var"].term)))], props=["C16"],
    ))
    n_returned = w.fn("lowering_result_length", ref_sort(OPQ), z3.IntSort())

    def post_coerce(c: Ctx):
        r = c.result
        if isinstance(r, VNone):
            return z3.BoolVal(True)
        return z3.And(r.length == n_returned(c["result"].term), r.length >= 0)
    w.add_contract(Contract(f"{MO}:_coerce_lowering_result_values", params={"result": Ref(OPQ), "primitive_name": Str}, ret=Opt(Seq(Ref(VALUE))), assumed=True, may_raise=["TypeError"],
                            ensures=[("the_values_of_the_result_in_order", post_coerce)], note="None, [value] or list(values) of what the plugin's lower() returned; TypeError for anything else"))

    def arity_fact(which):
        def inv(lc):
            if lc.phase != "inv-init":
                return []
            rv, nd, ub = lc["returned_values"], lc["non_drop_outvars"], lc["unbound_outvars"]
            if not all(isinstance(x, VSeq) for x in (rv, nd, ub)):
                raise OutOfSubset("unexpected kinds of the arity variables")
            want = nd.length if which == "all" else ub.length
            return [(f"lowering-contract:values_are_bound_positionally_only_when_one_value_per_{'non_drop' if which == 'all' else 'still_unbound'}_outvar_was_returned", rv.length == want)]
        return inv
    BIND_MODS = [(BLD, "_var2val")]
    c_bind = Contract(
        f"{MO}:bind_returned_lowering_values", params={"ctx": Ref(CTX), "eqn": Ref(EQN), "result": Ref(OPQ), "primitive_name": Str},
        loops={0: LoopSpec(invariant=arity_fact("all"), label="one-value-per-outvar"), 1: LoopSpec(invariant=arity_fact("unbound"), label="one-value-per-unbound-outvar")},
        raises={"RuntimeError", "TypeError"}, ret=NoneT, props=["C16"], opaque_externals=True, witnesses=["C16_returned_value_arity_family"],
    )
    c_bind.assumed_preconditions = {"IRContext.record_var_symbolic_dim_origins:value_declares_the_vars_shape":
                                    "the values come from a plugin's lower(); that they declare the shape of the variable they stand for is the plugins' obligation (C08, not under contract)"}
    w.add_contract(c_bind)

    # ---------------------------------------------------------------- bounded obligations for two listed findings (re-derived on every run; never counted as proved)
    def bounded_variants(world, c, out):
        import time
        from pyvc.run import run_witness
        t0 = time.time()
        for oname, target, wn, bound in (("ties_are_rounded_away_from_zero_or_the_call_is_rejected", "jax2onnx.plugins.jax.lax.round:RoundPlugin.lower", "D44", "lax.round on [0.5, 1.5, 2.5, -0.5, -1.5, 0.49, 2.51]"),
                                         ("a_start_index_past_the_end_is_clamped_or_the_call_is_rejected", "jax2onnx.plugins.jax.lax.dynamic_slice:DynamicSlicePlugin.lower", "D45", "lax.dynamic_slice(a[4,3], (k, 0), (2, 3)) for k in 0, 2, 3, 7")):
            holds, detail = run_witness(wn, timeout=900)
            d = {"oid": f"{target}#bounded:{oname}", "kind": "bounded", "status": "discharged" if holds else ("refuted" if holds is False else "unknown"),
                 "backend": "enumerated", "time": time.time() - t0, "instances": 1, "trivial": 0, "bounded": bound,
                 "note": f"which variants of a primitive a plugin lowers faithfully is not under contract (only its rejection guards are); {detail}"[:500]}
            if holds is False:
                d.update(args={"witness": wn}, replay={"reproduced": True, "detail": detail}, formula="", model=detail)
            out["obls"].append(d)
        out["paths"], out["time"] = 1, time.time() - t0
        return out
    w.add_contract(Contract("jax2onnx.plugins.jax.lax:<bounded-unsupported-variants>", kind="custom", custom=bounded_variants, props=["C16"], witnesses=["D44", "D45"]))

    # ---------------------------------------------------------------- rejection guards (shared with C06)
    def guard_world_hook(ex, what):
        g = ex.frames[0]["contract"].guard if ex.frames and getattr(ex.frames[0].get("contract"), "guard", None) else None
        if g is not None:
            ex.oblige(f"{ex.frames[0]['fid']}#guard:no_emission_when_{g}", "guard", z3.BoolVal(False), note=f"{what} at line {ex.cur_line}")
    w.on_emission = guard_world_hook

    def eqn_with_params(entries):
        """an equation object whose .params is a dict literal with symbolic entries"""
        def hook(ex, base, attr):
            if base.sort == "EqnG" and attr == "params":
                return VDict([(VStr(k), v(ex)) for k, v in entries.items()])
            if base.sort == "EqnG":
                return opaque.fresh_opaque(ex)
            return None
        return hook
    ref_sort("EqnG")
    scan_params = {
        "jaxpr": lambda ex: opaque.fresh_opaque(ex),
        "reverse": lambda ex: VBool(z3.Bool("scan_param_reverse")),
        "length": lambda ex: opaque.fresh_opaque(ex),
        "num_consts": lambda ex: VInt(z3.Int("scan_param_num_consts")),
        "num_carry": lambda ex: VInt(z3.Int("scan_param_num_carry")),
        "linear": lambda ex: opaque.fresh_opaque(ex),
        "unroll": lambda ex: opaque.fresh_opaque(ex),
        "_split_transpose": lambda ex: opaque.fresh_opaque(ex),
    }
    w.ref_getattr_hooks.append(eqn_with_params(scan_params))

    c = Contract(
        f"{MSCAN}:ScanPlugin.lower", params={"self": Ref(OPQ), "ctx": Ref(EMIT), "eqn": Ref("EqnG")},
        requires=[("reverse_scan", lambda c: z3.Bool("scan_param_reverse"))],
        ensures=[("reverse_scan_is_rejected", lambda c: z3.BoolVal(False))], raises={"NotImplementedError"},
        ret=NoneT, props=["C16", "C06"], opaque_externals=True, witnesses=["C16_reverse_scan_is_loud"],
    )
    c.guard = "reverse_scan"
    w.add_contract(c)

    c = Contract(
        f"{MSCAN}:ScanPlugin._lower_without_scan_inputs",
        params={"self": Ref(OPQ), "ctx": Ref(EMIT), "eqn": Ref(OPQ), "closed_jaxpr": Ref(OPQ), "num_carry": Int, "num_consts": Int, "length": Dyn("none", "str")},
        ensures=[("non_static_length_is_rejected", lambda c: z3.BoolVal(False))], raises={"NotImplementedError"},
        ret=NoneT, props=["C16", "C06"], opaque_externals=True,
    )
    c.guard = "scan_without_xs_has_no_static_length"
    w.add_contract(c)

    # cond: anything but exactly two branches cannot be unpacked
    nb = z3.Int("cond_n_branches")
    branches = VSeq(Ref(OPQ), [z3.Const("cond_branches", z3.ArraySort(z3.IntSort(), ref_sort(OPQ)))], nb, False)
    cond_params = VDict([(VStr("branches"), branches)])
    w.add_contract(Contract(
        f"{MCOND}:_extract_branches", params={"params": Const(cond_params)},
        requires=[("not_two_branches", lambda c: z3.And(nb >= 0, nb != 2))],
        ensures=[("switch_with_other_than_two_branches_is_rejected", lambda c: z3.BoolVal(False))], raises={"ValueError"},
        ret=NoneT, props=["C16", "C06"], opaque_externals=True,
    ))
    register_dispatch_loop(w)


def register_dispatch_loop(w):
    """lower_jaxpr_with_plugins: every equation is handed to lower_equation_with_plugin exactly once, in
    order; nothing on the way swallows an exception (the context managers are exception-transparent)."""
    sel = z3.Select
    EQS = ref_sort(EQN)

    def disp(ex):
        if "disp" not in ex.ghost:
            ex.ghost["disp"] = (z3.Const("dispatched0", z3.ArraySort(z3.IntSort(), EQS)), z3.IntVal(0))
        return ex.ghost["disp"]

    def record_dispatch(c: Ctx):
        arr, n = disp(c.ex)
        c.ex.ghost["disp"] = (z3.Store(arr, n, c["eqn"].term), n + 1)
        return z3.BoolVal(True)

    w.add_contract(Contract(
        f"{ML}:lower_equation_with_plugin",
        params={"plugin": Ref(PLUGIN), "ctx": Ref(EMIT), "eqn": Ref(EQN), "primitive_name": Str, "eqn_index": Int, "source": Str, "converter": Opt(Ref(OPQ))},
        ret=Ref(OPQ), assumed=True, may_raise=["AnyException"], ensures=[("ghost_dispatched", record_dispatch)],
        note="dispatches one equation (its own order of input check / lowering / output check is a separate contract)",
    ))

    w.add_contract(Contract("jax2onnx.utils.debug:save_primitive_calls_log", params={"log": Ref(OPQ), "output_path": Str}, ret=NoneT, assumed=True, may_raise=["OSError"], note="debug log writer"))

    def transparent_cm(ex, c, bound, body_thunk):
        body_thunk(NONE)  # exception-transparent: whatever the body raises propagates (verified on the cm itself)

    for nm in ("primitive_recording_scope", "current_eqn_scope", "staged_lowering_metadata"):
        def post_prop(c):
            return z3.BoolVal(not c.extra.get("body_raised"))

        def cm_body(ex, cx, value, extra):
            if ex.branch(z3.Bool(ex.fresh_name("body_raises"))):
                extra["body_raised"] = True
                raise PyRaise("AnyException")
        params = {"primitive_recording_scope": {"ctx": Ref(EMIT)},
                  "current_eqn_scope": {"ctx": Ref(EMIT), "eqn": Ref(OPQ)},
                  "staged_lowering_metadata": {"builder": Ref(EMIT), "eqn": Ref(OPQ), "plugin_ref": Ref(OPQ), "primitive_name": Str}}[nm]
        w.add_contract(Contract(
            f"{ML}:{nm}", kind="contextmanager", params=params, cm_body=cm_body, cm_contract=transparent_cm,
            ensures=[("body_exception_propagates", post_prop)], props=["C16", "C13"], opaque_externals=True,
        ))

    def ginit(ex, env):
        arr, n = disp(ex)
        ex.ghost["disp_n0"] = n

    def inv(lc):
        ex = lc.ex
        arr, n = disp(ex)
        eq = ex.read_field(lc["jaxpr"], "eqns")
        k = z3.Int("k")
        return [("count", n == lc.idx), ("dispatched_in_order", z3.ForAll([k], z3.Implies(z3.And(0 <= k, k < lc.idx), sel(arr, k) == sel(eq.arrs[0], k))))]

    def post(c: Ctx):
        ex = c.ex
        arr, n = disp(ex)
        eq = ex.read_field(c["jaxpr"], "eqns")
        k = z3.Int("k")
        return z3.And(n == eq.length, z3.ForAll([k], z3.Implies(z3.And(0 <= k, k < eq.length), sel(arr, k) == sel(eq.arrs[0], k))))

    def gh(ex):
        a, n = disp(ex)
        ex.ghost["disp"] = (ex.fresh_const("dispatched", a.sort()), ex.fresh_const("n_dispatched", z3.IntSort()))

    w.add_contract(Contract(
        f"{ML}:lower_jaxpr_with_plugins",
        params={"ctx": Ref(EMIT), "jaxpr": Ref(JAXPR_E), "registry": MapT(Str, Opt(Ref(PLUGIN))), "source": Str, "converter": Opt(Ref(OPQ)), "missing_plugin_detail": Opt(Str)},
        ghost_init=ginit, loops={0: LoopSpec(invariant=inv, label="eqns", ghost_havoc=gh)},
        ensures=[("every_equation_dispatched_once_in_order", post)],
        ret=NoneT, props=["C16"], opaque_externals=True,
    ))
