"""numpy dtype objects as a finite enum `NpDT`, tabulated from the installed
numpy / ml_dtypes / onnx_ir on every run (exact for the finite functions;
the remaining assumption is purity).  DESIGN §3.4."""
from __future__ import annotations

import z3

from pyvc.vals import *  # noqa
from pyvc.core import *  # noqa
from specs.base import table_fn

NPDT = "NpDT"
NAMES = ["bool_", "int8", "int16", "int32", "int64", "uint8", "uint16", "uint32", "uint64", "float16", "float32", "float64", "complex64", "complex128", "bfloat16", "str_"]
ABSTRACT = ["floating", "integer", "complexfloating", "signedinteger", "unsignedinteger", "inexact", "number", "bool_"]


class NpDtypes:
    def __init__(self, w):
        import numpy as np
        import onnx_ir as ir
        try:
            import ml_dtypes
        except Exception:  # pragma: no cover
            ml_dtypes = None
        self.w = w
        self.members = {}
        self.objs = {}
        for i, nm in enumerate(NAMES):
            if nm == "bfloat16":
                if ml_dtypes is None:
                    continue
                obj = np.dtype(ml_dtypes.bfloat16)
            else:
                obj = np.dtype(getattr(np, nm))
            self.members[nm] = i
            self.objs[i] = obj
        w.enums[NPDT] = {"members": dict(self.members), "int": False, "path": "numpy.dtype"}
        self.sub = {a: {i: bool(np.issubdtype(o, getattr(np, a))) for i, o in self.objs.items()} for a in ABSTRACT}
        self.to_ir = {}
        self.to_ir_raises = set()
        for i, o in self.objs.items():
            try:
                self.to_ir[i] = int(ir.DataType.from_numpy(o).value)
            except Exception:
                self.to_ir_raises.add(i)
        self.from_ir = {}
        for m in ir.DataType:
            try:
                d = np.dtype(m.numpy())
                for i, o in self.objs.items():
                    if o == d:
                        self.from_ir[int(m.value)] = i
            except Exception:
                pass
        w.trust(f"numpy dtype lattice (np.issubdtype, ==), ir.DataType.from_numpy and DataType.numpy tabulated from numpy {np.__version__} / onnx_ir at run time for {len(self.objs)} concrete dtypes")
        self._install()

    def code_of_path(self, path: str):
        if path and path.startswith("numpy."):
            return self.members.get(path.split(".", 1)[1])
        if path in ("ml_dtypes.bfloat16",):
            return self.members.get("bfloat16")
        if path == "builtins.float" or path == "float":
            return self.members.get("float64")
        if path in ("builtins.int", "int"):
            return self.members.get("int64")
        if path in ("builtins.bool", "bool"):
            return self.members.get("bool_")
        return None

    def as_code(self, v):
        """z3 Int code of a dtype-like value (enum member, numpy scalar type object), or None"""
        if isinstance(v, VEnum) and v.enum == NPDT:
            return v.term
        if isinstance(v, VPy) and v.path:
            c = self.code_of_path(v.path)
            return None if c is None else z3.IntVal(c)
        if isinstance(v, VFunc) and v.kind == "builtin" and v.name in ("float", "int", "bool"):
            return z3.IntVal(self.code_of_path(v.name))
        return None

    def _install(self):
        w = self.w
        D = self

        def np_dtype(ex, args, kw):
            x = args[0]
            if isinstance(x, VNone):
                return VEnum(NPDT, D.members["float64"])
            c = D.as_code(x)
            if c is not None:
                return VEnum(NPDT, c)
            if isinstance(x, VEnum) and x.enum == "DataType":
                raise PyRaise("TypeError", "np.dtype(ir.DataType)")
            if isinstance(x, VRef) and x.sort in ("Opaque", "Emitter", "ArgToken"):
                from specs.opaque import fresh_opaque
                return fresh_opaque(ex)
            raise OutOfSubset(f"np.dtype({x!r})")
        w.path_models["numpy.dtype"] = np_dtype

        def issubdtype(ex, args, kw):
            dt, cls = args
            c = D.as_code(dt)
            if c is None or not (isinstance(cls, VPy) and cls.path and cls.path.startswith("numpy.")):
                return None
            nm = cls.path.split(".", 1)[1]
            if nm in D.sub:
                return VBool(table_fn(c, D.sub[nm], False))
            if nm in D.members:
                return VBool(c == D.members[nm])
            return None
        prev = w.path_models.get("numpy.issubdtype")

        def issubdtype_chain(ex, args, kw):
            r = issubdtype(ex, args, kw)
            if r is not None:
                return r
            if prev is not None:
                return prev(ex, args, kw)
            raise OutOfSubset(f"np.issubdtype({args!r})")
        w.path_models["numpy.issubdtype"] = issubdtype_chain

        def eq_hook(ex, a, b):
            ca, cb = D.as_code(a), D.as_code(b)
            if ca is not None and cb is not None and (isinstance(a, VEnum) or isinstance(b, VEnum)):
                return ca == cb
            return None
        w.eq_hooks.append(eq_hook)

        def from_numpy(ex, args, kw):
            c = D.as_code(args[0])
            if c is None:
                raise OutOfSubset(f"DataType.from_numpy({args[0]!r})")
            if D.to_ir_raises and ex.branch(z3.Or([c == k for k in sorted(D.to_ir_raises)])):
                raise PyRaise("TypeError", "from_numpy: unsupported dtype")
            return VEnum("DataType", table_fn(c, D.to_ir, 0))
        w.path_models["onnx_ir.DataType.from_numpy"] = from_numpy


def register(w):
    if getattr(w, "npdt", None) is None:
        w.npdt = NpDtypes(w)
    return w.npdt
