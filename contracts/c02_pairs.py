"""C02 level 3, continued — `remove_redundant_transpose_pairs_ir`, last sub-pass:

  T8  Transpose(p1) -> f_1 -> ... -> f_L -> Transpose(p2),  p2 = p1^-1, every f_k pointwise in the chain value
      with broadcast-scalar side operands, every chain value seen by nobody else          ==>  f_1 -> ... -> f_L on the source of T1
  T9  Transpose(p1) with several consumers, one of them a Transpose(p2), p2 = p1^-1        ==>  consumers of T2 read the source of T1

The three sub-passes before it (Add chains, elementwise DAGs, elementwise chains between one transpose pair:
T5/T6/T7 of DESIGN A.2) are NOT executed in this revision: each is replaced by the assumed summary "leaves the
graph untouched unless it fires"; paths on which one of them fires are not checked (reported as assumptions).
"""
from __future__ import annotations

import z3

from pyvc.vals import *  # noqa
from pyvc.core import *  # noqa
from pyvc.world import Contract, Ctx
from pyvc.stmts import LoopSpec
from specs import graph as GM
from specs import ctxmodel
from specs.graph import NODE, VALUE, GRAPH
from specs.ctxmodel import SHAPE
from contracts.c02 import code_table
from contracts.c02_txn import Pre, structurally_valid, muts

MO = "jax2onnx.converter.ir_optimizations"
SUMMARY = "sub-pass not under contract in this revision; assumed to leave the graph untouched unless it fires, and paths on which it fires are not checked"


def register(w):
    from contracts import c02_txn  # noqa: F401  (registers the graph model, helper contracts, T3/T11/T1/T2)
    if getattr(w, "txn_wf", None) is None:
        c02_txn.register(w)
    sel = z3.Select
    N, V = ref_sort(NODE), ref_sort(VALUE)
    perm_len, perm_at = w.graph_perm
    nested_ref, scalar_const = w.c02_preds["nested_ref"], w.c02_preds["scalar_const"]
    observed_as_output = w.c02_observed_as_output
    unobserved_except = w.txn_unobserved_except
    hv = w.graph_hv

    # ---- ghost: which nodes had their declared output shape refreshed since the transaction began
    def refreshed_arr(ex):
        g = ex.ghost.get("refreshed")
        if g is None:
            g = z3.K(N, z3.BoolVal(False))
            ex.ghost["refreshed"] = g
        return g

    def post_refresh(c: Ctx):
        ex = c.ex
        node = c["node"]
        shp1, shp0 = ex.heap_arrays(VALUE, "shape")[0], c.old_arrays(VALUE, "shape")[0]
        v = z3.Const("v!rf", V)
        outs = c.old_arrays(NODE, "outputs")
        out0 = sel(sel(outs[0], node.term), 0)
        ex.ghost["refreshed"] = z3.Store(refreshed_arr(ex), node.term, z3.BoolVal(True))
        ex.events.append(("mut", "refresh", node, ex.snapshot_heap(), {"hv": hv(ex), "now": (ex.now() if ex.track_alloc else None)}, ex.cur_line))
        return z3.ForAll([v], z3.Implies(v != out0, sel(shp1, v) == sel(shp0, v)))
    w.add_contract(Contract(
        f"{MO}:_refresh_elementwise_output_shape", params={"node": Ref(NODE)}, ret=NoneT, assumed=True, modifies=[(VALUE, "shape")],
        ensures=[("only_the_declared_shape_of_output_0_is_written", post_refresh)],
        note="recomputes the declared shape of the node's first output from the declared shapes of its inputs; writes nothing else (the broadcast rule itself is the C08 bounded stand-in)",
    ))

    for flag in ("DEBUG", "RSH_DEBUG", "TRN_DEBUG", "DCE_DEBUG", "TM_DEBUG"):
        w.global_overrides[(MO, flag)] = VBool(z3.BoolVal(False))     # debug output off (semantics note: debug branches are no-ops)
    allowed_ops = sorted(code_table("ALLOWED_ELEMWISE"))

    def is_allowed(op_term):
        return z3.Or([op_term == z3.StringVal(o) for o in allowed_ops])

    def wf(ex, graph):
        n = z3.Const("n!wf", N)
        op = sel(ex.heap_arrays(NODE, "op_type")[0], n)
        n_out, n_in = sel(ex.heap_arrays(NODE, "outputs")[1], n), sel(ex.heap_arrays(NODE, "inputs")[1], n)
        return [("every_node_has_an_output", z3.ForAll([n], n_out >= 1)),
                ("transpose_nodes_have_one_input_and_one_output", z3.ForAll([n], z3.Implies(op == z3.StringVal("Transpose"), z3.And(n_out == 1, n_in == 1)))),
                ("foldable_elementwise_nodes_have_one_output", z3.ForAll([n], z3.Implies(is_allowed(op), n_out == 1)))]

    class H:
        """heap view helpers at the *current* heap of ex"""

        def __init__(self, ex):
            self.ex = ex

        def op(self, n):
            return sel(self.ex.heap_arrays(NODE, "op_type")[0], n)

        def out0(self, n):
            return sel(sel(self.ex.heap_arrays(NODE, "outputs")[0], n), 0)

        def reads(self, n, v):
            return w.graph_reads(self.ex, n, v)

        def in_seq(self, seq, n):
            k = z3.Int("k!is")
            return z3.Exists([k], z3.And(0 <= k, k < seq.length, sel(seq.arrs[0], k) == n))

        def side_ok(self, n, data):
            ins = self.ex.heap_arrays(NODE, "inputs")
            j = z3.Int("j!so")
            x = sel(sel(ins[0], n), j)
            return z3.ForAll([j], z3.Implies(z3.And(0 <= j, j < sel(ins[1], n)),
                                            z3.Or(x == null_of(VALUE), x == data, z3.And(self.op(n) == z3.StringVal("CastLike"), j == 1), scalar_const(x, hv(self.ex)))))

        def escapes(self, graph, v):
            return z3.Or(observed_as_output(self.ex, graph, v), nested_ref(v, hv(self.ex)))

    def chain_value(h, A, t1_out, k):
        return z3.If(k == 0, t1_out, h.out0(sel(A.arrs[0], k - 1)))

    def chain_facts(h, graph, nodes, A, t1_out, upto_closed):
        """facts about chain positions 0..L-1 (nodes) and chain values 0..L"""
        k, n = z3.Int("k!ch"), z3.Const("n!ch", N)
        L = A.length
        a_k = sel(A.arrs[0], k)
        cv_k = chain_value(h, A, t1_out, k)
        per_node = z3.ForAll([k], z3.Implies(z3.And(0 <= k, k < L), z3.And(
            is_allowed(h.op(a_k)), h.in_seq(nodes, a_k), h.reads(a_k, cv_k), h.side_ok(a_k, cv_k),
            z3.ForAll([n], z3.Implies(z3.And(h.in_seq(nodes, n), h.reads(n, cv_k)), n == a_k)))))
        noesc = z3.ForAll([k], z3.Implies(z3.And(0 <= k, k <= L), z3.Not(h.escapes(graph, cv_k))))
        return per_node, noesc

    # ---- loop 26: the chain walk
    def inv_chain(lc):
        ex = lc.ex
        h = H(ex)
        graph, nodes = lc["graph"].term, lc["nodes"]
        A, cur, cvv, T2, iso, T1_out = lc["allowed_nodes"], lc["cur"], lc["chain_value"], lc["T2"], lc["chain_is_isolated"], lc["T1_out"]
        if not (isinstance(A, VSeq) and isinstance(cur, VRef) and isinstance(T1_out, VRef)):
            raise OutOfSubset("chain loop variables have unexpected kinds")
        L = A.length
        n = z3.Const("n!cu", N)
        last = chain_value(h, A, T1_out.term, L)
        per_node, noesc = chain_facts(h, graph, nodes, A, T1_out.term, True)
        cv_term = cvv.term if isinstance(cvv, VRef) else (cvv.val.term if isinstance(cvv, VOpt) else None)
        cv_ok = z3.BoolVal(False) if cv_term is None else (z3.And(z3.Not(cvv.isnone), cv_term == last) if isinstance(cvv, VOpt) else cv_term == last)
        t2_none = z3.BoolVal(True) if isinstance(T2, VNone) else (T2.isnone if isinstance(T2, VOpt) else z3.BoolVal(False))
        return [("no_second_transpose_yet", t2_none), ("length", L >= 0),
                ("chain_value_is_the_output_of_the_last_chain_node", cv_ok),
                ("cur_is_the_only_consumer_of_the_chain_value", z3.And(h.in_seq(nodes, cur.term), h.reads(cur.term, last), z3.ForAll([n], z3.Implies(z3.And(h.in_seq(nodes, n), h.reads(n, last)), n == cur.term)))),
                ("chain_nodes_are_foldable_and_isolated", per_node), ("no_chain_value_escapes_while_the_walk_continues", z3.Implies(ex.truthy(iso), noesc))]

    # ---- loop 27: refresh of the moved chain nodes
    def inv_refresh(lc):
        ex = lc.ex
        A = lc["allowed_nodes"]
        k, v = z3.Int("k!rf"), z3.Const("v!rfi", V)
        E = muts(ex)
        P = Pre(ex, E[0][-3]) if E else None
        shp = ex.heap_arrays(VALUE, "shape")[0]
        items = [("prefix_refreshed", z3.ForAll([k], z3.Implies(z3.And(0 <= k, k < lc.idx), sel(refreshed_arr(ex), sel(A.arrs[0], k)))))]
        if P is not None:
            pshp = P.arrays(VALUE, "shape")[0]
            h = H(ex)
            items.append(("only_chain_outputs_change_their_declared_shape", z3.ForAll([v], z3.Or(sel(shp, v) == sel(pshp, v), z3.Exists([k], z3.And(0 <= k, k < lc.idx, v == h.out0(sel(A.arrs[0], k))))))))
        return items

    def ghost_havoc_refresh(ex):
        ex.ghost["refreshed"] = ex.fresh_const("refreshed", z3.ArraySort(N, z3.BoolSort()))

    # ---- loop 28: direct transpose consumers of a multi-consumer T1
    def inv_direct(lc):
        ra = lc.get("removed_any")
        return [("nothing_removed_by_continuing_iterations", z3.Not(lc.ex.truthy(ra)) if ra is not None else z3.BoolVal(True))]

    # ==================================================================== T7 (sub-pass "chain between one transpose pair")
    ew_ops = sorted(code_table("ELEMENTWISE_UNARY_OPS") | code_table("ELEMENTWISE_BINARY_OPS"))

    def is_ew(op_term):
        return z3.Or([op_term == z3.StringVal(o) for o in ew_ops])

    def produced_by(ex, E_arr, t1, v):
        """v is an output of a node of E or of T1"""
        m = z3.Const("m!pb", N)
        return z3.Exists([m], z3.And(z3.Or(sel(E_arr, m), m == t1), GM_produces(ex, m, v)))

    def GM_produces(ex, n, v):
        outs = ex.heap_arrays(NODE, "outputs")
        i = z3.Int("i!gp")
        return z3.Exists([i], z3.And(0 <= i, i < sel(outs[1], n), sel(sel(outs[0], n), i) == v))

    def closed_dag(ex, nodes, E_arr, t1, start):
        """what _collect_transpose_elementwise_chain promises: T1 is a Transpose, E are elementwise nodes of `nodes`, and every
        non-constant value the DAG reads - including the start value - is produced inside E or by T1"""
        h = H(ex)
        e, j = z3.Const("e!cd", N), z3.Int("j!cd")
        ins = ex.heap_arrays(NODE, "inputs")
        x = sel(sel(ins[0], e), j)
        return z3.And(
            h.op(t1) == z3.StringVal("Transpose"), h.in_seq(nodes, t1), z3.Not(sel(E_arr, t1)),
            z3.Or(scalar_const(start, hv(ex)), produced_by(ex, E_arr, t1, start)),
            z3.ForAll([e], z3.Implies(sel(E_arr, e), z3.And(is_ew(h.op(e)), h.in_seq(nodes, e)))),
            z3.ForAll([e, j], z3.Implies(z3.And(sel(E_arr, e), 0 <= j, j < sel(ins[1], e)),
                                         z3.Or(x == null_of(VALUE), scalar_const(x, hv(ex)), produced_by(ex, E_arr, t1, x)))))

    def post_collect_chain(c: Ctx):
        r = c.result
        if isinstance(r, VNone):
            return z3.BoolVal(True)
        t1, E = r.items
        return closed_dag(c.ex, c["nodes"], E.arr, t1.term, c["start_value"].term)
    # worklist invariant of the collector: everything the collected nodes read is constant, already visited or still queued;
    # everything visited is constant or produced by a collected node / the source transpose
    def inv_collect_chain(lc):
        ex = lc.ex
        h = H(ex)
        nodes, start = lc["nodes"], lc["start_value"].term
        allowed, visited, wl, st = lc["allowed_nodes"], lc["visited_values"], lc["worklist"], lc["source_transpose"]
        if not (isinstance(allowed, VSet) and isinstance(visited, VSet) and isinstance(wl, VSeq)):
            raise OutOfSubset("collector variables have unexpected kinds")
        st_none = z3.BoolVal(True) if isinstance(st, VNone) else (st.isnone if isinstance(st, VOpt) else z3.BoolVal(False))
        st_term = null_of(NODE) if isinstance(st, VNone) else (st.val.term if isinstance(st, VOpt) else st.term)
        e, j, v, m, k = z3.Const("e!cc", N), z3.Int("j!cc"), z3.Const("v!cc", V), z3.Const("m!cc", N), z3.Int("k!cc")
        ins = ex.heap_arrays(NODE, "inputs")
        x = sel(sel(ins[0], e), j)
        queued = lambda val: z3.Exists([k], z3.And(0 <= k, k < wl.length, sel(wl.arrs[0], k) == val))  # noqa: E731
        made = lambda val: z3.Exists([m], z3.And(z3.Or(sel(allowed.arr, m), z3.And(z3.Not(st_none), m == st_term)), GM_produces(ex, m, val)))  # noqa: E731
        return [("length", wl.length >= 0),
                ("source_is_a_transpose_of_the_node_list", z3.Or(st_none, z3.And(h.op(st_term) == z3.StringVal("Transpose"), h.in_seq(nodes, st_term)))),
                ("collected_nodes_are_elementwise_nodes_of_the_node_list", z3.ForAll([e], z3.Implies(sel(allowed.arr, e), z3.And(is_ew(h.op(e)), h.in_seq(nodes, e))))),
                ("inputs_of_collected_nodes_are_constant_visited_or_queued", z3.ForAll([e, j], z3.Implies(z3.And(sel(allowed.arr, e), 0 <= j, j < sel(ins[1], e)),
                                                                                                   z3.Or(x == null_of(VALUE), scalar_const(x, hv(ex)), sel(visited.arr, x), queued(x))))),
                ("visited_values_are_constant_or_produced_inside", z3.ForAll([v], z3.Implies(sel(visited.arr, v), z3.Or(scalar_const(v, hv(ex)), made(v))))),
                ("start_value_is_visited_or_queued", z3.Or(sel(visited.arr, start), queued(start)))]

    def inv_collect_inputs(lc):
        ex = lc.ex
        wl, producer = lc["worklist"], lc["producer"]
        pre_wl = lc.old("worklist") if "worklist" in lc.pre else None
        k, j = z3.Int("k!ci"), z3.Int("j!ci")
        ins = lc.seq
        x = sel(ins.arrs[0], j)
        queued = lambda val: z3.Exists([k], z3.And(0 <= k, k < wl.length, sel(wl.arrs[0], k) == val))  # noqa: E731
        items = [("inputs_so_far_are_constant_or_queued", z3.ForAll([j], z3.Implies(z3.And(0 <= j, j < lc.idx), z3.Or(x == null_of(VALUE), scalar_const(x, hv(ex)), queued(x)))))]
        if pre_wl is not None:
            items.append(("queue_only_grows", z3.And(wl.length >= pre_wl.length, z3.ForAll([k], z3.Implies(z3.And(0 <= k, k < pre_wl.length), sel(wl.arrs[0], k) == sel(pre_wl.arrs[0], k))))))
        return items

    w.add_contract(Contract(
        f"{MO}:_collect_transpose_elementwise_chain", params={"nodes": Seq(Ref(NODE)), "start_value": Ref(VALUE)}, ret=Opt(Tup(Ref(NODE), SetT(Ref(NODE)))),
        ensures=[("closed_elementwise_dag_below_one_transpose", post_collect_chain)],
        loops={0: LoopSpec(invariant=inv_collect_chain, heap_unchanged=True, label="worklist"), 1: LoopSpec(invariant=inv_collect_inputs, heap_unchanged=True, label="inputs")},
        local_types={"worklist": Seq(Ref(VALUE)), "allowed_nodes": SetT(Ref(NODE)), "visited_values": SetT(Ref(VALUE))},
        raises=set(), props=["C02", "C12"], deep_feasibility=True, witnesses=["C02_transpose_dag_family"],
    ))

    # ---- the forest collector (several source transposes): same closure argument, a set of transposes instead of one
    def inv_collect_forest(lc):
        ex = lc.ex
        h = H(ex)
        nodes, start = lc["nodes"], lc["start_value"].term
        E, TN, visited, wl = lc["elementwise_nodes"], lc["transpose_nodes"], lc["visited_values"], lc["worklist"]
        if not (isinstance(E, VSet) and isinstance(TN, VSet) and isinstance(visited, VSet) and isinstance(wl, VSeq)):
            raise OutOfSubset("collector variables have unexpected kinds")
        e, j, v, m, k = z3.Const("e!cf", N), z3.Int("j!cf"), z3.Const("v!cf", V), z3.Const("m!cf", N), z3.Int("k!cf")
        ins = ex.heap_arrays(NODE, "inputs")
        x = sel(sel(ins[0], e), j)
        queued = lambda val: z3.Exists([k], z3.And(0 <= k, k < wl.length, sel(wl.arrs[0], k) == val))  # noqa: E731
        made = lambda val: z3.Exists([m], z3.And(z3.Or(sel(E.arr, m), sel(TN.arr, m)), GM_produces(ex, m, val)))  # noqa: E731
        return [("length", wl.length >= 0),
                ("sources_are_transposes_of_the_node_list", z3.ForAll([e], z3.Implies(sel(TN.arr, e), z3.And(h.op(e) == z3.StringVal("Transpose"), h.in_seq(nodes, e))))),
                ("collected_nodes_are_elementwise_nodes_of_the_node_list", z3.ForAll([e], z3.Implies(sel(E.arr, e), z3.And(is_ew(h.op(e)), h.in_seq(nodes, e))))),
                ("inputs_of_collected_nodes_are_constant_visited_or_queued", z3.ForAll([e, j], z3.Implies(z3.And(sel(E.arr, e), 0 <= j, j < sel(ins[1], e)),
                                                                                                   z3.Or(x == null_of(VALUE), scalar_const(x, hv(ex)), sel(visited.arr, x), queued(x))))),
                ("visited_values_are_constant_or_produced_inside", z3.ForAll([v], z3.Implies(sel(visited.arr, v), z3.Or(scalar_const(v, hv(ex)), made(v))))),
                ("start_value_is_visited_or_queued", z3.Or(sel(visited.arr, start), queued(start)))]

    def post_collect_forest(c: Ctx):
        r = c.result
        if isinstance(r, VNone):
            return z3.BoolVal(True)
        ex = c.ex
        TN, E = r.items
        h = H(ex)
        nodes, start = c["nodes"], c["start_value"].term
        e, j, m = z3.Const("e!pf", N), z3.Int("j!pf"), z3.Const("m!pf", N)
        ins = ex.heap_arrays(NODE, "inputs")
        x = sel(sel(ins[0], e), j)
        made = lambda val: z3.Exists([m], z3.And(z3.Or(sel(E.arr, m), sel(TN.arr, m)), GM_produces(ex, m, val)))  # noqa: E731
        return z3.And(
            z3.Exists([e], sel(TN.arr, e)),
            z3.ForAll([e], z3.Implies(sel(TN.arr, e), z3.And(h.op(e) == z3.StringVal("Transpose"), h.in_seq(nodes, e)))),
            z3.ForAll([e], z3.Implies(sel(E.arr, e), z3.And(is_ew(h.op(e)), h.in_seq(nodes, e)))),
            z3.Or(scalar_const(start, hv(ex)), made(start)),
            z3.ForAll([e, j], z3.Implies(z3.And(sel(E.arr, e), 0 <= j, j < sel(ins[1], e)), z3.Or(x == null_of(VALUE), scalar_const(x, hv(ex)), made(x)))))

    w.add_contract(Contract(
        f"{MO}:_collect_transpose_elementwise_forest", params={"nodes": Seq(Ref(NODE)), "start_value": Ref(VALUE)}, ret=Opt(Tup(SetT(Ref(NODE)), SetT(Ref(NODE)))),
        ensures=[("closed_elementwise_dag_below_a_set_of_transposes", post_collect_forest)],
        loops={0: LoopSpec(invariant=inv_collect_forest, heap_unchanged=True, label="worklist"), 1: LoopSpec(invariant=inv_collect_inputs, heap_unchanged=True, label="inputs")},
        local_types={"worklist": Seq(Ref(VALUE)), "elementwise_nodes": SetT(Ref(NODE)), "transpose_nodes": SetT(Ref(NODE)), "visited_values": SetT(Ref(VALUE))},
        raises=set(), props=["C02", "C12"], deep_feasibility=True, witnesses=["C02_transpose_dag_family"],
    ))

    # ---- _transpose_reads_from(nodes, transpose, members): False only if no member (of the node list) produces the transpose's source
    def post_reads_from(c: Ctx):
        ex = c.ex
        t, mem, nodes = c["transpose"].term, c["members"], c["nodes"]
        src = in0(ex, t)
        m = z3.Const("m!rf2", N)
        h = H(ex)
        return z3.Implies(z3.Not(c.result.term), z3.Or(src == null_of(VALUE), z3.ForAll([m], z3.Implies(z3.And(sel(mem.arr, m), h.in_seq(nodes, m)), z3.Not(GM_produces(ex, m, src))))))
    w.add_contract(Contract(
        f"{MO}:_transpose_reads_from", params={"nodes": Seq(Ref(NODE)), "transpose": Ref(NODE), "members": SetT(Ref(NODE))}, ret=Bool, raises=set(),
        requires=[("axiom:single_assignment", lambda c: z3.And(structurally_valid(c.ex)))],
        ensures=[("false_only_if_no_member_produces_the_source", post_reads_from)], props=["C02", "C12"], witnesses=["C02_transpose_dag_family"],
        note="verified for a set of members (the elementwise-DAG fold); the Add-chain / Add-forest folds pass lists",
    ))

    # ==================================================================== T6 (elementwise DAG below several transposes): FACTS only
    def t6_vars(lc):
        E, TN, t2 = lc["elem_nodes"], lc["transpose_nodes"], lc["t2_node"]
        if not (isinstance(E, VSet) and isinstance(TN, VSet) and isinstance(t2, VRef)):
            raise OutOfSubset("T6 variables have unexpected kinds")
        return E, TN, t2.term

    def same_perm_as(ex, t, p: VSeq):
        k = z3.Int("k!sp")
        h0 = hv(ex)
        return z3.And(perm_len(t, h0) == p.length, z3.ForAll([k], z3.Implies(z3.And(0 <= k, k < p.length), perm_at(t, h0, k) == sel(p.arrs[0], k))))

    def inv_t6_perms(lc):
        ex = lc.ex
        p1 = lc["perm1"]
        visited = lc.idx
        e = z3.Const("e!p6", N)
        if isinstance(p1, VNone):
            known = z3.BoolVal(True)
            none_ = z3.BoolVal(True)
            body = z3.Not(z3.Exists([e], sel(visited.arr, e)))
        else:
            pv = p1.val if isinstance(p1, VOpt) else p1
            none_ = p1.isnone if isinstance(p1, VOpt) else z3.BoolVal(False)
            body = z3.If(none_, z3.Not(z3.Exists([e], sel(visited.arr, e))), z3.ForAll([e], z3.Implies(sel(visited.arr, e), same_perm_as(ex, e, pv))))
        k = z3.Int("k!vp")
        valid = z3.BoolVal(True) if isinstance(p1, VNone) else z3.Implies(z3.Not(none_), z3.And(pv.length >= 0, z3.ForAll([k], z3.Implies(z3.And(0 <= k, k < pv.length), z3.And(0 <= sel(pv.arrs[0], k), sel(pv.arrs[0], k) < pv.length)))))
        return [("still_ok", ex.truthy(lc["ok"])), ("visited_transposes_carry_perm1", body), ("perm1_entries_are_valid_axes", valid)]

    def t6_out_ok(ex, E, perm2: VSeq, n):
        return z3.Or(sel(E.arr, n), z3.And(sel(ex.heap_arrays(NODE, "op_type")[0], n) == z3.StringVal("Transpose"), same_perm_as(ex, n, perm2)))

    def inv_t6_outs(lc):
        ex = lc.ex
        E, TN, t2 = t6_vars(lc)
        h = H(ex)
        perm2, OT = lc["perm2"], lc["output_transposes"]
        e, n = z3.Const("e!o6", N), z3.Const("n!o6", N)
        visited = lc.idx
        return [("still_ok", ex.truthy(lc["ok"])),
                ("consumers_of_visited_dag_outputs_are_dag_nodes_or_inverse_transposes", z3.ForAll([e, n], z3.Implies(z3.And(sel(visited.arr, e), h.in_seq(lc["nodes"], n), h.reads(n, h.out0(e))), t6_out_ok(ex, E, perm2, n)))),
                ("collected_output_transposes_are_inverse_transposes", z3.ForAll([n], z3.Implies(sel(OT.arr, n), z3.And(sel(ex.heap_arrays(NODE, "op_type")[0], n) == z3.StringVal("Transpose"), same_perm_as(ex, n, perm2)))))]

    def inv_t6_cons(lc):
        ex = lc.ex
        E, TN, t2 = t6_vars(lc)
        perm2, OT = lc["perm2"], lc["output_transposes"]
        k, n = z3.Int("k"), z3.Const("n!c6", N)
        return [("still_ok", ex.truthy(lc["ok"])),
                ("consumers_so_far_are_dag_nodes_or_inverse_transposes", z3.ForAll([k], z3.Implies(z3.And(0 <= k, k < lc.idx), t6_out_ok(ex, E, perm2, sel(lc.seq.arrs[0], k))))),
                ("collected_output_transposes_are_inverse_transposes", z3.ForAll([n], z3.Implies(sel(OT.arr, n), z3.And(sel(ex.heap_arrays(NODE, "op_type")[0], n) == z3.StringVal("Transpose"), same_perm_as(ex, n, perm2)))))]

    def inv_t6_facts(lc):
        """loop 13 is the first statement after every guard of the fold: its entry is where the facts the law needs are demanded"""
        ex = lc.ex
        if lc.phase != "inv-init":
            return []
        E, TN, t2 = t6_vars(lc)
        h = H(ex)
        graph, nodes = lc["graph"].term, lc["nodes"]
        perm1, perm2, OT = lc["perm1"], lc["perm2"], lc["output_transposes"]
        p1 = perm1.val if isinstance(perm1, VOpt) else perm1
        e, n, k, m = z3.Const("e!f6", N), z3.Const("n!f6", N), z3.Int("k!f6"), z3.Const("m!f6", N)
        ins = ex.heap_arrays(NODE, "inputs")
        x = sel(sel(ins[0], e), k)
        made = lambda val: z3.Exists([m], z3.And(z3.Or(sel(E.arr, m), sel(TN.arr, m)), GM_produces(ex, m, val)))  # noqa: E731
        t2_in = in0(ex, t2)
        if not (isinstance(p1, VSeq) and isinstance(perm2, VSeq)):
            return [("txn-facts:T6.permutations_known", z3.BoolVal(False))]
        return [
            ("txn-facts:T6.every_source_transpose_carries_perm1_and_perm2_inverts_it", z3.And(
                z3.ForAll([e], z3.Implies(sel(TN.arr, e), z3.And(h.op(e) == z3.StringVal("Transpose"), same_perm_as(ex, e, p1)))),
                h.op(t2) == z3.StringVal("Transpose"), same_perm_as(ex, t2, perm2), p1.length == perm2.length,
                z3.ForAll([k], z3.Implies(z3.And(0 <= k, k < perm2.length), sel(p1.arrs[0], sel(perm2.arrs[0], k)) == k)))),
            ("txn-facts:T6.the_second_transpose_reads_a_closed_elementwise_dag_below_the_source_transposes", z3.And(
                t2_in != null_of(VALUE), z3.Or(scalar_const(t2_in, hv(ex)), made(t2_in)),
                z3.ForAll([e], z3.Implies(sel(E.arr, e), z3.And(is_ew(h.op(e)), h.in_seq(nodes, e)))),
                z3.ForAll([e, k], z3.Implies(z3.And(sel(E.arr, e), 0 <= k, k < sel(ins[1], e)), z3.Or(x == null_of(VALUE), scalar_const(x, hv(ex)), made(x)))))),
            ("txn-facts:T6.no_source_transpose_reads_a_value_produced_inside_the_dag", z3.ForAll([e], z3.Implies(sel(TN.arr, e), z3.Or(in0(ex, e) == null_of(VALUE),
                                                                                                                        z3.ForAll([m], z3.Implies(z3.And(sel(E.arr, m), h.in_seq(nodes, m)), z3.Not(GM_produces(ex, m, in0(ex, e))))))))),
            ("txn-facts:T6.dag_outputs_feed_only_the_dag_or_inverse_transposes", z3.ForAll([e, n], z3.Implies(z3.And(sel(E.arr, e), h.in_seq(nodes, n), h.reads(n, h.out0(e))), t6_out_ok(ex, E, perm2, n)))),
            ("txn-facts:T6.no_dag_output_is_a_graph_output_or_captured_by_a_nested_body", z3.ForAll([e], z3.Implies(sel(E.arr, e), z3.Not(h.escapes(graph, h.out0(e)))))),
            ("txn-facts:T6.the_second_transpose_is_one_of_the_collected_output_transposes", sel(OT.arr, t2)),
        ]

    def inv_t6_lengths(tag):
        """frame of the unverified T6 effect loops: rewiring never changes how many inputs a node has"""
        def inv(lc):
            ex = lc.ex
            if lc.phase == "inv-init" and tag == "outer":
                ex.ghost["t6_len_pre"] = ex.heap_arrays(NODE, "inputs")[1]
            pre = ex.ghost.get("t6_len_pre")
            if pre is None:
                return []
            n = z3.Const("n!l6", N)
            return [("input_counts_unchanged", z3.ForAll([n], sel(ex.heap_arrays(NODE, "inputs")[1], n) == sel(pre, n)))]
        return inv

    def t7_vars(lc):
        E, t2, T1 = lc["elem_nodes"], lc["t2_node"], lc["T1"]
        if not (isinstance(E, VSet) and isinstance(t2, VRef) and isinstance(T1, VRef)):
            raise OutOfSubset("T7 variables have unexpected kinds")
        return E, t2.term, T1.term

    def t7_member(E, t2):
        return lambda n: z3.Or(n == t2, sel(E.arr, n))

    def inv_t7_cons(lc):
        E, t2, _ = t7_vars(lc)
        k = z3.Int("k")
        return [("still_ok", lc.ex.truthy(lc["ok"])), ("consumers_so_far_are_the_second_transpose_or_dag_nodes", z3.ForAll([k], z3.Implies(z3.And(0 <= k, k < lc.idx), t7_member(E, t2)(sel(lc.seq.arrs[0], k)))))]

    def inv_t7_outs(lc):
        ex = lc.ex
        E, t2, _ = t7_vars(lc)
        h = H(ex)
        e, n = z3.Const("e!o7", N), z3.Const("n!o7", N)
        visited = lc.idx
        return [("still_ok", ex.truthy(lc["ok"])),
                ("outputs_of_visited_dag_nodes_feed_only_the_dag_or_the_second_transpose", z3.ForAll([e, n], z3.Implies(z3.And(sel(visited.arr, e), h.in_seq(lc["nodes"], n), h.reads(n, h.out0(e))), t7_member(E, t2)(n))))]

    def t7_pre_inputs(ex):
        return ex.ghost["t7_pre"][(NODE, "inputs")]

    def rewired(ex, cond_n, upto=None):
        """inputs now == inputs at the start of the rewiring, with t1_out replaced by t1_in in the nodes selected by cond_n"""
        n, i = z3.Const("n!rw7", N), z3.Int("i!rw7")
        a0, l0 = t7_pre_inputs(ex)
        a1, l1 = ex.heap_arrays(NODE, "inputs")
        t1o, t1i = ex.ghost["t7_t1_out"], ex.ghost["t7_t1_in"]
        old = sel(sel(a0, n), i)
        return z3.And(z3.ForAll([n], sel(l1, n) == sel(l0, n)),
                      z3.ForAll([n, i], z3.Implies(z3.And(0 <= i, i < sel(l0, n)), sel(sel(a1, n), i) == z3.If(z3.And(cond_n(n, i), old == t1o), t1i, old))))

    def inv_t7_rewire(lc):
        ex = lc.ex
        if lc.phase == "inv-init":
            ex.ghost["t7_pre"] = {(NODE, "inputs"): list(ex.heap_arrays(NODE, "inputs")), "snap": ex.snapshot_heap(), "hv": hv(ex)}
            ex.ghost["t7_t1_out"], ex.ghost["t7_t1_in"] = lc["t1_out"].term, lc["t1_in"].term
        visited = lc.idx
        return [("inputs_of_visited_dag_nodes_rewired_others_untouched", rewired(ex, lambda n, i: sel(visited.arr, n)))]

    def inv_t7_rewire_inner(lc):
        ex = lc.ex
        node = lc["node"].term
        # the outer loop's visited set is not visible here: what matters is that only `node` changes, position by position
        n, i = z3.Const("n!ri7", N), z3.Int("i!ri7")
        a1, l1 = ex.heap_arrays(NODE, "inputs")
        if lc.phase == "inv-init":
            ex.ghost["t7_inner_pre"] = list(ex.heap_arrays(NODE, "inputs"))
        b0, m0 = ex.ghost["t7_inner_pre"]
        t1o, t1i = ex.ghost["t7_t1_out"], ex.ghost["t7_t1_in"]
        old = sel(sel(b0, n), i)
        return [("only_this_node_changes_position_by_position", z3.And(
            z3.ForAll([n], sel(l1, n) == sel(m0, n)),
            z3.ForAll([n, i], z3.Implies(z3.And(0 <= i, i < sel(m0, n)), sel(sel(a1, n), i) == z3.If(z3.And(n == node, i < lc.idx, old == t1o), t1i, old)))))]

    def inv_t7_refresh(lc):
        ex = lc.ex
        E, t2, _ = t7_vars(lc)
        h = H(ex)
        k, v, e = z3.Int("k!r7"), z3.Const("v!r7", V), z3.Const("e!r7", N)
        if lc.phase == "inv-init":
            ex.ghost["t7_shape_pre"] = ex.heap_arrays(VALUE, "shape")[0]
        shp, pshp = ex.heap_arrays(VALUE, "shape")[0], ex.ghost["t7_shape_pre"]
        return [("dag_nodes_met_so_far_are_refreshed", z3.ForAll([k], z3.Implies(z3.And(0 <= k, k < lc.idx, sel(E.arr, sel(lc.seq.arrs[0], k))), sel(refreshed_arr(ex), sel(lc.seq.arrs[0], k))))),
                ("only_dag_outputs_change_their_declared_shape", z3.ForAll([v], z3.Or(sel(shp, v) == sel(pshp, v), z3.Exists([e], z3.And(sel(E.arr, e), v == h.out0(e)))))),
                ("rewiring_is_kept", rewired(ex, lambda n, i: sel(E.arr, n)))]

    def t7_hook(lc, E_events, obl):
        """facts and effect of a transaction performed by sub-pass T7 (loop 18)"""
        ex = lc.ex
        graph = lc["graph"].term
        E, t2, t1 = t7_vars(lc)
        nodes = lc["nodes"]
        kinds = [e[1] for e in E_events if e[1] not in ("refresh", "set_meta")]
        ok_shape = kinds[:1] == ["rauw"] and all(k_ == "remove" for k_ in kinds[1:]) and "t7_pre" in ex.ghost
        obl.append(("txn-effect:T7.events_are_rewire_one_bypass_then_removals", z3.BoolVal(ok_shape)))
        if not ok_shape:
            return obl
        rauw = [e for e in E_events if e[1] == "rauw"][0]
        rems = [e for e in E_events if e[1] == "remove"]
        pre = ex.ghost["t7_pre"]
        hv0 = pre["hv"]
        P = Pre(ex, dict(pre["snap"]))
        t1_out, t1_in = ex.ghost["t7_t1_out"], ex.ghost["t7_t1_in"]
        k, n, e = z3.Int("k"), z3.Const("n!t7", N), z3.Const("e!t7", N)
        perm1, perm2 = lc.get("perm1"), lc.get("perm2")
        if isinstance(perm1, VSeq) and isinstance(perm2, VSeq):
            perms_inverse = z3.And(perm1.length == perm2.length, perm1.length == perm_len(t1, hv0), perm2.length == perm_len(t2, hv0),
                                   z3.ForAll([k], z3.Implies(z3.And(0 <= k, k < perm2.length), z3.And(
                                       sel(perm1.arrs[0], k) == perm_at(t1, hv0, k), sel(perm2.arrs[0], k) == perm_at(t2, hv0, k), sel(perm1.arrs[0], sel(perm2.arrs[0], k)) == k))))
        else:
            perms_inverse = z3.BoolVal(False)
        cur = ex.heap
        ex.heap = dict(P.snap)
        hv_now = ex.ghost.get("heap_version")
        ex.ghost["heap_version"] = hv0
        try:
            h = H(ex)
            member = t7_member(E, t2)
            t2_in = in0(ex, t2)
            unobs = lambda val: z3.And(z3.ForAll([n], z3.Implies(z3.And(P.in_graph(graph, n), h.reads(n, val)), member(n))), z3.Not(h.escapes(graph, val)))  # noqa: E731
            gn = P.graph_nodes(graph)
            facts = [
                ("txn-facts:T7.two_different_transposes_with_mutually_inverse_permutations", z3.And(h.op(t1) == z3.StringVal("Transpose"), h.op(t2) == z3.StringVal("Transpose"), t1 != t2, perms_inverse)),
                ("txn-facts:T7.the_second_transpose_reads_a_closed_elementwise_dag_below_the_first", z3.And(t2_in != null_of(VALUE), t1_out == h.out0(t1), t1_in == in0(ex, t1), t1_in != null_of(VALUE), closed_dag(ex, nodes, E.arr, t1, t2_in))),
                ("txn-facts:T7.first_transpose_output_is_seen_only_inside_the_dag", unobs(t1_out)),
                ("txn-facts:T7.dag_outputs_are_seen_only_inside_the_dag", z3.ForAll([e], z3.Implies(sel(E.arr, e), z3.ForAll([n], z3.Implies(z3.And(P.in_graph(graph, n), h.reads(n, h.out0(e))), member(n)))))),
                ("txn-facts:T7.no_dag_output_is_a_graph_output_or_captured_by_a_nested_body", z3.ForAll([e], z3.Implies(sel(E.arr, e), z3.Not(h.escapes(graph, h.out0(e)))))),
                ("txn-facts:T7.consumer_scans_ranged_over_all_nodes_of_the_graph", z3.And(nodes.length == gn[1], z3.ForAll([k], z3.Implies(z3.And(0 <= k, k < nodes.length), sel(nodes.arrs[0], k) == sel(gn[0], k))))),
            ]
            empty = z3.Not(z3.Exists([e], sel(E.arr, e)))
            new_src_want = z3.If(empty, t1_in, t2_in)
            t2_out = h.out0(t2)
        finally:
            for kk, vv in ex.heap.items():
                cur.setdefault(kk, vv)
            ex.heap = cur
            ex.ghost["heap_version"] = hv_now
        obl.extend(facts)
        # effect: every dag node reads the source of T1 where it read T1's output; T2's output is replaced by the last dag value (or the source)
        P2 = Pre(ex, rauw[-3])
        a_r, l_r = P2.arrays(NODE, "inputs")
        a0, l0 = pre[(NODE, "inputs")]
        i = z3.Int("i!e7")
        old = sel(sel(a0, n), i)
        obl.append(("txn-effect:T7.every_dag_node_reads_the_source_where_it_read_the_first_transpose", z3.And(
            z3.ForAll([n], sel(l_r, n) == sel(l0, n)),
            z3.ForAll([n, i], z3.Implies(z3.And(0 <= i, i < sel(l0, n)), sel(sel(a_r, n), i) == z3.If(z3.And(sel(E.arr, n), old == t1_out), t1_in, old))))))
        obl.append(("txn-effect:T7.second_transpose_output_replaced_by_the_dag_result_everywhere", z3.And(rauw[2].term == t2_out, rauw[3].term == new_src_want, ex.truthy(rauw[4]))))
        removed = [e_[3].term for e_ in rems]
        obl.append(("txn-effect:T7.only_the_two_transposes_are_removed_and_from_this_graph", z3.And([z3.And(z3.Or(r_ == t1, r_ == t2), e_[2].term == graph) for r_, e_ in zip(removed, rems)] + [z3.BoolVal(True)])))
        ref = ex.ghost.get("refreshed")
        obl.append(("txn-effect:T7.declared_shapes_of_all_dag_nodes_recomputed_after_rewiring", z3.ForAll([e], z3.Implies(sel(E.arr, e), sel(ref, e))) if ref is not None else z3.BoolVal(False)))
        shp, ty = ex.heap_arrays(VALUE, "shape")[0], ex.heap_arrays(VALUE, "type")[0]
        pshp, pty = P.arrays(VALUE, "shape")[0], P.arrays(VALUE, "type")[0]
        v = z3.Const("v!md7", V)
        obl.append(("txn-effect:T7.only_dag_outputs_change_their_declared_shape_and_no_declared_type_changes", z3.ForAll([v], z3.And(
            sel(ty, v) == sel(pty, v), z3.Or(sel(shp, v) == sel(pshp, v), z3.Exists([e], z3.And(sel(E.arr, e), v == P.out(e, 0))))))))
        return obl

    # ---- loop 0: transactions
    def hook(lc):
        ex = lc.ex
        graph = lc["graph"].term
        if lc.phase == "assume":
            ex.events[:] = [e for e in ex.events if not (e and e[0] == "mut")]
            ex.ghost.pop("refreshed", None)
            for g_ in ("t7_pre", "t7_inner_pre", "t7_shape_pre", "t7_t1_out", "t7_t1_in", "t6_len_pre"):
                ex.ghost.pop(g_, None)
            for f in structurally_valid(ex):
                ex.pc.append(f)
            return wf(ex, graph)
        E = muts(ex)
        obl = wf(ex, graph)
        if lc.phase != "inv-step" or not E:
            return obl
        loops_ = ex.frames[-1]["loops"]
        l9 = loops_[9] if len(loops_) > 9 else None
        if l9 is not None and E[0][-1] is not None and l9.lineno <= E[0][-1] <= l9.end_lineno:
            ex.assumptions_used.add("T6 (elementwise DAG below several transposes): the facts the rewrite law needs are proved where the rewiring starts; the rewiring, bypass and removal effects themselves are not under contract (bounded stand-in <bounded-T4-T7>)")
            return obl
        l18 = loops_[18] if len(loops_) > 18 else None
        if l18 is not None and E[0][-1] is not None and l18.lineno <= E[0][-1] <= l18.end_lineno:
            return t7_hook(lc, E, obl)
        kinds = [e[1] for e in E]
        core = [k for k in kinds if k not in ("refresh", "set_meta")]
        T1, T2 = lc.get("T1"), lc.get("T2")
        nodes = lc.get("nodes")
        P = Pre(ex, E[0][-3])
        hv0 = E[0][-2]["hv"]
        n_rauw = sum(1 for c_ in core if c_ == "rauw")
        shape_ok = (n_rauw in (1, 2) and core[:n_rauw] == ["rauw"] * n_rauw and all(c_ == "remove" for c_ in core[n_rauw:])
                    and isinstance(T1, VRef) and isinstance(T2, VRef) and isinstance(nodes, VSeq))
        obl.append(("txn-effect:T8T9.events_are_bypasses_then_removals", z3.BoolVal(shape_ok)))
        if not shape_ok:
            return obl
        t1, t2 = T1.term, T2.term
        rauws, rems = [e for e in E if e[1] == "rauw"], [e for e in E if e[1] == "remove"]
        x = P.inp(t1, 0)
        k = z3.Int("k")
        perm1, perm2 = lc.get("perm1"), lc.get("perm2")
        if isinstance(perm1, VSeq) and isinstance(perm2, VSeq):
            # the lists the code compared are the perm attributes of the two nodes, and they compose to the identity
            perms_inverse = z3.And(perm1.length == perm2.length, perm1.length == perm_len(t1, hv0), perm2.length == perm_len(t2, hv0),
                                   z3.ForAll([k], z3.Implies(z3.And(0 <= k, k < perm2.length), z3.And(
                                       sel(perm1.arrs[0], k) == perm_at(t1, hv0, k), sel(perm2.arrs[0], k) == perm_at(t2, hv0, k), sel(perm1.arrs[0], sel(perm2.arrs[0], k)) == k))))
        else:
            perms_inverse = z3.BoolVal(False)
        pair = z3.And(P.op(t1) == z3.StringVal("Transpose"), P.op(t2) == z3.StringVal("Transpose"), x != null_of(VALUE))
        removed = [e[3].term for e in rems]
        t1_removed = z3.Or([r_ == t1 for r_ in removed] + [z3.BoolVal(False)])
        obl.append(("txn-effect:T8T9.only_the_two_transposes_are_removed_and_from_this_graph", z3.And([z3.And(z3.Or(r_ == t1, r_ == t2), e[2].term == graph) for r_, e in zip(removed, rems)] + [z3.BoolVal(True)])))
        obl.append(("txn-facts:T8T9.permutations_are_mutually_inverse", perms_inverse))
        if n_rauw == 1:
            # ---------------- direct pair (T9, and T8 with an empty chain): Tr(p2, Tr(p1, x)) = x
            r = rauws[0]
            obl.append(("txn-effect:T9.second_transpose_output_replaced_by_the_source_of_the_first_everywhere", z3.And(r[2].term == P.out(t2, 0), r[3].term == x, ex.truthy(r[4]))))
            obl.append(("txn-facts:T9.second_transpose_reads_the_first", z3.And(pair, P.inp(t2, 0) == P.out(t1, 0))))
            # the first transpose may only go when nothing but the second one observes its output
            obl.append(("txn-facts:T9.first_transpose_removed_only_when_nothing_else_observes_it", z3.Implies(t1_removed, unobserved_except(ex, P, graph, P.out(t1, 0), [t2], hv0))))
            return obl
        # ---------------- T8 with a chain of L >= 1 pointwise nodes
        A = lc.get("allowed_nodes")
        if not isinstance(A, VSeq):
            obl.append(("txn-facts:T8.chain_is_known", z3.BoolVal(False)))
            return obl
        L = A.length
        hP = H(ex)
        cur = ex.heap
        # facts are about the pre-transaction heap
        ex.heap = dict(P.snap)
        hv_now = ex.ghost.get("heap_version")
        ex.ghost["heap_version"] = hv0
        try:
            t1_out = P.out(t1, 0)
            per_node, noesc = chain_facts(hP, graph, nodes, A, t1_out, True)
            last = chain_value(hP, A, t1_out, L)
            n = z3.Const("n!t8", N)
            only_t2 = z3.ForAll([n], z3.Implies(z3.And(hP.in_seq(nodes, n), hP.reads(n, last)), n == t2))
            gn = P.graph_nodes(graph)
            nodes_is_graph = z3.And(nodes.length == gn[1], z3.ForAll([k], z3.Implies(z3.And(0 <= k, k < nodes.length), sel(nodes.arrs[0], k) == sel(gn[0], k))))
            facts = [
                ("txn-facts:T8.pair_of_transposes_around_a_nonempty_chain", z3.And(pair, P.inp(t2, 0) == last, L >= 1)),
                ("txn-facts:T8.every_chain_node_is_pointwise_in_the_chain_value_with_scalar_side_operands_and_its_only_consumer", per_node),
                ("txn-facts:T8.no_chain_value_is_a_graph_output_or_captured_by_a_nested_body", noesc),
                ("txn-facts:T8.last_chain_value_feeds_only_the_second_transpose", only_t2),
                ("txn-facts:T8.consumer_scans_ranged_over_all_nodes_of_the_graph", nodes_is_graph),
            ]
        finally:
            for kk, vv in ex.heap.items():
                cur.setdefault(kk, vv)
            ex.heap = cur
            ex.ghost["heap_version"] = hv_now
        obl.extend(facts)
        r0, r1 = rauws
        obl.append(("txn-effect:T8.first_transpose_output_replaced_by_its_source_everywhere", z3.And(r0[2].term == P.out(t1, 0), r0[3].term == x, ex.truthy(r0[4]))))
        obl.append(("txn-effect:T8.second_transpose_output_replaced_by_the_last_chain_output_everywhere", z3.And(r1[2].term == P.out(t2, 0), r1[3].term == P.out(sel(A.arrs[0], L - 1), 0), ex.truthy(r1[4]))))
        # C08: the chain now runs in the other layout - every moved node must have its declared output shape recomputed, after the rewiring
        ref = ex.ghost.get("refreshed")
        first_rauw_i = E.index(r0)
        refresh_after_rewire = all(E.index(e) > first_rauw_i for e in E if e[1] == "refresh")
        obl.append(("txn-effect:T8.declared_shapes_of_all_moved_chain_nodes_recomputed_after_rewiring", z3.And(
            z3.BoolVal(ref is not None and refresh_after_rewire),
            z3.ForAll([k], z3.Implies(z3.And(0 <= k, k < L), sel(ref, sel(A.arrs[0], k)))) if ref is not None else z3.BoolVal(False))))
        # C08 frame: only chain outputs may change their declared shape; no declared type changes
        shp, ty = ex.heap_arrays(VALUE, "shape")[0], ex.heap_arrays(VALUE, "type")[0]
        pshp, pty = P.arrays(VALUE, "shape")[0], P.arrays(VALUE, "type")[0]
        v = z3.Const("v!md", V)
        obl.append(("txn-effect:T8.only_moved_chain_outputs_change_their_declared_shape_and_no_declared_type_changes", z3.ForAll([v], z3.And(
            sel(ty, v) == sel(pty, v),
            z3.Or(sel(shp, v) == sel(pshp, v), z3.Exists([k], z3.And(0 <= k, k < L, v == P.out(sel(A.arrs[0], k), 0))))))))
        return obl

    w.add_contract(Contract(
        f"{MO}:remove_redundant_transpose_pairs_ir", params={"graph": Ref(GRAPH)},
        requires=[("valid_graph", lambda c: z3.And([f for _, f in wf(c.ex, c["graph"].term)]))],
        loops={0: LoopSpec(invariant=hook, label="transactions"),
               1: LoopSpec(assumed_summary="Add-chain " + SUMMARY, keep=("changed", "nodes"), label="T5"),
               9: LoopSpec(heap_unchanged=True, label="T6-scan"),
               10: LoopSpec(invariant=inv_t6_perms, heap_unchanged=True, label="T6-perms", types={"perm1": Opt(Seq(Int)), "perm": Opt(Seq(Int))}),
               11: LoopSpec(invariant=inv_t6_outs, heap_unchanged=True, label="T6-dag-outputs", types={"perm": Opt(Seq(Int))}),
               12: LoopSpec(invariant=inv_t6_cons, heap_unchanged=True, label="T6-consumers", types={"perm": Opt(Seq(Int))}),
               13: LoopSpec(invariant=inv_t6_facts, heap_unchanged=True, label="T6-facts"),
               14: LoopSpec(invariant=inv_t6_lengths("outer"), label="T6-rewire"), 15: LoopSpec(invariant=inv_t6_lengths("inner"), label="T6-rewire-inputs"),
               16: LoopSpec(invariant=inv_t6_lengths("bypass"), label="T6-bypass"), 17: LoopSpec(invariant=inv_t6_lengths("drop"), label="T6-drop-sources"),
               18: LoopSpec(heap_unchanged=True, label="T7-scan"),
               19: LoopSpec(invariant=inv_t7_cons, heap_unchanged=True, label="T7-consumers-of-T1"),
               20: LoopSpec(invariant=inv_t7_outs, heap_unchanged=True, label="T7-dag-outputs"),
               21: LoopSpec(invariant=inv_t7_cons, heap_unchanged=True, label="T7-consumers-of-dag-output"),
               22: LoopSpec(invariant=inv_t7_rewire, label="T7-rewire"),
               23: LoopSpec(invariant=inv_t7_rewire_inner, label="T7-rewire-inputs"),
               24: LoopSpec(invariant=inv_t7_refresh, ghost_havoc=ghost_havoc_refresh, label="T7-refresh"),
               25: LoopSpec(heap_unchanged=True, label="scan"),
               26: LoopSpec(invariant=inv_chain, heap_unchanged=True, label="chain"),
               27: LoopSpec(invariant=inv_refresh, ghost_havoc=ghost_havoc_refresh, label="refresh"),
               28: LoopSpec(invariant=inv_direct, heap_unchanged=True, label="direct")},
        local_types={"chain_nodes": Seq(Ref(NODE)), "allowed_nodes": Seq(Ref(NODE)), "output_transposes": SetT(Ref(NODE)), "trans_in_map": MapT(Ref(VALUE), Ref(VALUE))},
        track_alloc=True, deep_feasibility=True, ret=NoneT, props=["C02", "C08", "C12"], opaque_externals=True, witnesses=["C02_transpose_pair_family", "C02_transpose_dag_family"],
        modifies=[(NODE, "inputs"), (GRAPH, "nodes"), (GRAPH, "outputs"), (VALUE, "shape")],
    ))

    # =====================================================================
    # T10  remove_redundant_reshape_pairs_ir
    #   Reshape(x -> s1) -> f_L -> ... -> f_1 -> Reshape(-> s2) with shape(x) = s2-result, every f pointwise in its input 0 with
    #   broadcast-scalar side operands that do not out-rank x, every chain value seen only inside the chain     ==>   f_L..f_1 on x
    #   (the walk goes upwards from the second Reshape: allowed_nodes[0] is the node next to it)
    # =====================================================================
    value_rank = w.fn("value_rank", V, z3.IntSort(), z3.IntSort())      # (value, heap version): number of axes at run time
    w.add_contract(Contract(
        f"{MO}:_value_rank", params={"val": Opt(Ref(VALUE))}, ret=Opt(Int), assumed=True,
        ensures=[("is_the_rank", lambda c: z3.BoolVal(isinstance(c.result, VNone)) if isinstance(c["val"], VNone) else (
            z3.BoolVal(True) if isinstance(c.result, VNone) else z3.And(c.result.term == value_rank(c["val"].term, hv(c.ex)), c.result.term >= 0)))],
        note="number of axes of the constant payload if the value has one, otherwise of its declared shape (the run-time rank, declarations being truthful: C08); None when neither is known",
    ))

    def fit_ok(ex, n, data, rank_term):
        ins = ex.heap_arrays(NODE, "inputs")
        j = z3.Int("j!fr")
        x = sel(sel(ins[0], n), j)
        op = sel(ex.heap_arrays(NODE, "op_type")[0], n)
        return z3.ForAll([j], z3.Implies(z3.And(0 <= j, j < sel(ins[1], n)),
                                        z3.Or(x == null_of(VALUE), x == data, z3.And(op == z3.StringVal("CastLike"), j == 1), value_rank(x, hv(ex)) <= rank_term)))

    def opt_ref_term(v):
        if isinstance(v, VRef):
            return v.term
        if isinstance(v, VNone):
            return null_of(VALUE)
        if isinstance(v, VOpt):
            return z3.If(v.isnone, null_of(VALUE), v.val.term)
        raise OutOfSubset(f"optional value of unexpected kind {v!r}")

    def post_fit(c: Ctx):
        r = c["rank"]
        if isinstance(r, VNone):
            return z3.Not(c.result.term)
        rt = r.val.term if isinstance(r, VOpt) else r.term
        notnone = z3.Not(r.isnone) if isinstance(r, VOpt) else z3.BoolVal(True)
        return z3.Implies(c.result.term, z3.And(notnone, fit_ok(c.ex, c["node"].term, opt_ref_term(c["data_value"]), rt)))

    def inv_fit(lc):
        ex = lc.ex
        r = lc["rank"]
        rt = r.val.term if isinstance(r, VOpt) else r.term
        ins = ex.read_field(lc["node"], "inputs")
        k = z3.Int("k")
        data = opt_ref_term(lc["data_value"])
        op = sel(ex.heap_arrays(NODE, "op_type")[0], lc["node"].term)
        x = sel(ins.arrs[0], k)
        return [("prefix_fits", z3.ForAll([k], z3.Implies(z3.And(0 <= k, k < lc.idx), z3.Or(x == null_of(VALUE), x == data, z3.And(op == z3.StringVal("CastLike"), k == 1), value_rank(x, hv(ex)) <= rt))))]

    w.add_contract(Contract(
        f"{MO}:_side_inputs_fit_rank", params={"node": Ref(NODE), "data_value": Opt(Ref(VALUE)), "rank": Opt(Int)},
        loops={0: LoopSpec(invariant=inv_fit, label="inputs")},
        ensures=[("no_other_operand_out_ranks_the_data_operand", post_fit)], raises=set(), ret=Bool, props=["C02"], witnesses=["C02_reshape_pair_family"],
    ))

    def wf10(ex, graph):
        n = z3.Const("n!wf", N)
        op = sel(ex.heap_arrays(NODE, "op_type")[0], n)
        n_out, n_in = sel(ex.heap_arrays(NODE, "outputs")[1], n), sel(ex.heap_arrays(NODE, "inputs")[1], n)
        return [("every_node_has_an_output", z3.ForAll([n], n_out >= 1)),
                ("reshape_nodes_have_one_output", z3.ForAll([n], z3.Implies(op == z3.StringVal("Reshape"), n_out == 1))),
                ("foldable_elementwise_nodes_have_one_output", z3.ForAll([n], z3.Implies(is_allowed(op), n_out == 1)))]

    def in0(ex, n):
        ins = ex.heap_arrays(NODE, "inputs")
        return z3.If(sel(ins[1], n) >= 1, sel(sel(ins[0], n), 0), null_of(VALUE))

    def up_value(ex, A, t2, k):
        """u(0) = input 0 of the second Reshape, u(k) = input 0 of allowed_nodes[k-1]"""
        return z3.If(k == 0, in0(ex, t2), in0(ex, sel(A.arrs[0], k - 1)))

    def up_facts(ex, A, t2, upto):
        h = H(ex)
        k = z3.Int("k!up")
        a_k = sel(A.arrs[0], k)
        dom = sel(ex.heap_arrays(NODE, "domain")[0], a_k)
        return z3.ForAll([k], z3.Implies(z3.And(0 <= k, k < upto), z3.And(
            is_allowed(h.op(a_k)), dom == z3.StringVal(""), h.out0(a_k) == up_value(ex, A, t2, k), up_value(ex, A, t2, k) != null_of(VALUE),
            h.side_ok(a_k, in0(ex, a_k)))))

    def inv_up(lc):
        ex = lc.ex
        A, T2, T1, v = lc["allowed_nodes"], lc["T2"], lc["T1"], lc["v"]
        if not (isinstance(A, VSeq) and isinstance(T2, VRef)):
            raise OutOfSubset("upward walk variables have unexpected kinds")
        t1_none = z3.BoolVal(True) if isinstance(T1, VNone) else (T1.isnone if isinstance(T1, VOpt) else z3.BoolVal(False))
        return [("no_first_reshape_yet", t1_none), ("length", A.length >= 0),
                ("v_is_the_value_read_by_the_last_collected_node", opt_ref_term(v) == up_value(ex, A, T2.term, A.length)),
                ("collected_nodes_are_foldable_and_linked", up_facts(ex, A, T2.term, A.length))]

    def members(ex, lc):
        """chain membership as the code tests it: `consumer in chain_nodes or consumer is T2`"""
        cn, T2 = lc["chain_nodes"], lc["T2"]
        if not isinstance(cn, VSet):
            raise OutOfSubset("chain_nodes is not a set")
        return lambda n: z3.Or(sel(cn.arr, n), n == T2.term)

    def inv_cons_t1(lc):
        ex = lc.ex
        mem = members(ex, lc)
        k = z3.Int("k")
        return [("still_safe", ex.truthy(lc["safe_chain"])), ("consumers_so_far_are_chain_members", z3.ForAll([k], z3.Implies(z3.And(0 <= k, k < lc.idx), mem(sel(lc.seq.arrs[0], k)))))]

    def inv_nodes_outer(lc):
        ex = lc.ex
        mem = members(ex, lc)
        h = H(ex)
        k, n = z3.Int("k"), z3.Const("n!no", N)
        nodes = lc["nodes"]
        body = lambda kk: z3.ForAll([n], z3.Implies(z3.And(h.in_seq(nodes, n), h.reads(n, h.out0(sel(lc.seq.arrs[0], kk)))), mem(n)))  # noqa: E731
        if lc.phase == "inv-step":
            # (forall k < i+1. phi(k))  ==  (forall k < i. phi(k)) and phi(i): two smaller obligations
            i = z3.simplify(lc.idx - 1)
            return [("still_safe", ex.truthy(lc["safe_chain"])),
                    ("outputs_of_the_earlier_chain_nodes_feed_only_chain_members", z3.ForAll([k], z3.Implies(z3.And(0 <= k, k < i), body(k)))),
                    ("output_of_this_chain_node_feeds_only_chain_members", body(i))]
        return [("still_safe", ex.truthy(lc["safe_chain"])),
                ("outputs_of_the_chain_nodes_so_far_feed_only_chain_members", z3.ForAll([k], z3.Implies(z3.And(0 <= k, k < lc.idx), body(k))))]

    def inv_refresh10(lc):
        ex = lc.ex
        A = lc.seq
        k, v = z3.Int("k!rf"), z3.Const("v!rfi", V)
        E = muts(ex)
        P = Pre(ex, E[0][-3]) if E else None
        shp = ex.heap_arrays(VALUE, "shape")[0]
        items = [("prefix_refreshed", z3.ForAll([k], z3.Implies(z3.And(0 <= k, k < lc.idx), sel(refreshed_arr(ex), sel(A.arrs[0], k)))))]
        if P is not None:
            pshp = P.arrays(VALUE, "shape")[0]
            h = H(ex)
            items.append(("only_chain_outputs_change_their_declared_shape", z3.ForAll([v], z3.Or(sel(shp, v) == sel(pshp, v), z3.Exists([k], z3.And(0 <= k, k < lc.idx, v == h.out0(sel(A.arrs[0], k))))))))
        return items

    same_extent, dims_of = w.c02_same_extent, w.c02_dims_of

    def hook10(lc):
        ex = lc.ex
        graph = lc["graph"].term
        if lc.phase == "assume":
            ex.events[:] = [e for e in ex.events if not (e and e[0] == "mut")]
            ex.ghost.pop("refreshed", None)
            for f in structurally_valid(ex):
                ex.pc.append(f)
            return wf10(ex, graph)
        E = muts(ex)
        obl = wf10(ex, graph)
        if lc.phase != "inv-step" or not E:
            return obl
        kinds = [e[1] for e in E]
        core = [k_ for k_ in kinds if k_ not in ("refresh", "set_meta")]
        T1, T2, A, nodes, src = lc.get("T1"), lc.get("T2"), lc.get("allowed_nodes"), lc.get("nodes"), lc.get("src")
        P = Pre(ex, E[0][-3])
        hv0 = E[0][-2]["hv"]
        n_rauw = sum(1 for c_ in core if c_ == "rauw")
        if isinstance(T1, VOpt):
            T1 = T1.val
        if isinstance(src, VOpt):
            src = src.val
        shape_ok = (n_rauw in (1, 2) and core[:n_rauw] == ["rauw"] * n_rauw and all(c_ == "remove" for c_ in core[n_rauw:])
                    and isinstance(T1, VRef) and isinstance(T2, VRef) and isinstance(nodes, VSeq) and isinstance(A, VSeq) and isinstance(src, VRef))
        if getattr(ex, "branch_log", None) and __import__("os").environ.get("PYVC_TRACE_BRANCHES"):
            print("TXNPATH", [(ln, int(d)) for ln, d, _ in ex.branch_log])
        obl.append(("txn-effect:T10.events_are_bypasses_then_removals", z3.BoolVal(shape_ok)))
        if not shape_ok:
            return obl
        t1, t2 = T1.term, T2.term
        L = A.length
        rauws, rems = [e for e in E if e[1] == "rauw"], [e for e in E if e[1] == "remove"]
        removed = [e[3].term for e in rems]
        obl.append(("txn-effect:T10.only_the_two_reshapes_are_removed_and_from_this_graph", z3.And([z3.And(z3.Or(r_ == t1, r_ == t2), e[2].term == graph) for r_, e in zip(removed, rems)] + [z3.BoolVal(True)])))
        k, n = z3.Int("k"), z3.Const("n!t10", N)
        cur = ex.heap
        ex.heap = dict(P.snap)
        hv_now = ex.ghost.get("heap_version")
        ex.ghost["heap_version"] = hv0
        try:
            h = H(ex)
            x = in0(ex, t1)
            std = lambda nd: z3.And(h.op(nd) == z3.StringVal("Reshape"), sel(ex.heap_arrays(NODE, "domain")[0], nd) == z3.StringVal(""))  # noqa: E731
            t1_out = h.out0(t1)
            in_chain = lambda m_: z3.Exists([k], z3.And(0 <= k, k < L, sel(A.arrs[0], k) == m_))  # noqa: E731
            F = lc.get("allowed_fwd")
            if not isinstance(F, VSeq):
                F = A
            cn = lc.get("chain_nodes")
            if isinstance(cn, VSet):
                # membership as the code tested it; that this set holds chain nodes only is a fact of its own
                member = lambda m_: z3.Or(sel(cn.arr, m_), m_ == t2)  # noqa: E731
                set_ok = z3.ForAll([n], z3.Implies(sel(cn.arr, n), in_chain(n)))
            else:
                member = lambda m_: z3.Or(in_chain(m_), m_ == t2)  # noqa: E731
                set_ok = z3.BoolVal(True)
            readers_in_chain = lambda val: z3.ForAll([n], z3.Implies(z3.And(P.in_graph(graph, n), h.reads(n, val)), member(n)))  # noqa: E731
            unobs = lambda val: z3.And(z3.ForAll([n], z3.Implies(z3.And(P.in_graph(graph, n), h.reads(n, val)), member(n))), z3.Not(h.escapes(graph, val)))  # noqa: E731
            sx, (tx, ix, yx, nx) = dims_of(ex, x)
            dst = h.out0(t2)
            sd, (td, idd, yd, nd_) = dims_of(ex, dst)
            facts = [
                ("txn-facts:T10.pair_of_standard_reshapes_linked_through_the_chain", z3.And(std(t1), std(t2), x != null_of(VALUE), x == src.term, t1_out == up_value(ex, A, t2, L))),
                ("txn-facts:T10.every_chain_node_is_a_standard_pointwise_operator_in_its_input_0_with_scalar_side_operands", up_facts(ex, A, t2, L)),
                ("txn-facts:T10.source_and_final_value_declare_the_same_shape_for_every_binding", z3.And(sx != null_of(SHAPE), sd != null_of(SHAPE), nx == nd_, z3.ForAll([k], z3.Implies(z3.And(0 <= k, k < nx), same_extent(ex, (sel(tx, k), sel(ix, k), sel(yx, k)), (sel(td, k), sel(idd, k), sel(yd, k))))))),
                ("txn-facts:T10.no_side_operand_out_ranks_the_source", z3.ForAll([k], z3.Implies(z3.And(0 <= k, k < L), fit_ok(ex, sel(A.arrs[0], k), in0(ex, sel(A.arrs[0], k)), value_rank(x, hv0))))),
                ("txn-facts:T10.first_reshape_output_is_seen_only_inside_the_chain", unobs(t1_out)),
                ("txn-facts:T10.chain_outputs_are_read_only_inside_the_chain", z3.ForAll([k], z3.Implies(z3.And(0 <= k, k < F.length), readers_in_chain(h.out0(sel(F.arrs[0], k)))))),
                ("txn-facts:T10.no_chain_output_is_a_graph_output_or_captured_by_a_nested_body", z3.ForAll([k], z3.Implies(z3.And(0 <= k, k < F.length), z3.Not(h.escapes(graph, h.out0(sel(F.arrs[0], k))))))),
                ("txn-facts:T10.the_forward_list_enumerates_exactly_the_collected_chain_nodes", z3.And(F.length == L, z3.Or(
                    z3.ForAll([k], z3.Implies(z3.And(0 <= k, k < L), sel(A.arrs[0], k) == sel(F.arrs[0], k))),
                    z3.ForAll([k], z3.Implies(z3.And(0 <= k, k < L), sel(A.arrs[0], k) == sel(F.arrs[0], L - 1 - k)))))),
                ("txn-facts:T10.the_membership_set_holds_chain_nodes_only", set_ok),
            ]
            last_out = h.out0(sel(A.arrs[0], 0))
        finally:
            for kk, vv in ex.heap.items():
                cur.setdefault(kk, vv)
            ex.heap = cur
            ex.ghost["heap_version"] = hv_now
        obl.extend(facts)
        if n_rauw == 1:
            r = rauws[0]
            obl.append(("txn-facts:T10.empty_chain_when_a_single_bypass_happens", L == 0))
            obl.append(("txn-effect:T10.second_reshape_output_replaced_by_the_source_of_the_first_everywhere", z3.And(r[2].term == P.out(t2, 0), r[3].term == src.term, ex.truthy(r[4]))))
        else:
            r0, r1 = rauws
            obl.append(("txn-facts:T10.nonempty_chain_when_two_bypasses_happen", L >= 1))
            obl.append(("txn-effect:T10.first_reshape_output_replaced_by_its_source_everywhere", z3.And(r0[2].term == P.out(t1, 0), r0[3].term == src.term, ex.truthy(r0[4]))))
            obl.append(("txn-effect:T10.second_reshape_output_replaced_by_the_last_chain_output_everywhere", z3.And(r1[2].term == P.out(t2, 0), r1[3].term == last_out, ex.truthy(r1[4]))))
            ref = ex.ghost.get("refreshed")
            first_rauw_i = E.index(r0)
            refresh_after_rewire = all(E.index(e) > first_rauw_i for e in E if e[1] == "refresh")
            # (over the forward list; that it enumerates exactly the collected nodes is a fact of its own)
            obl.append(("txn-effect:T10.declared_shapes_of_all_moved_chain_nodes_recomputed_after_rewiring", z3.And(
                z3.BoolVal(ref is not None and refresh_after_rewire),
                z3.ForAll([k], z3.Implies(z3.And(0 <= k, k < F.length), sel(ref, sel(F.arrs[0], k)))) if ref is not None else z3.BoolVal(False))))
        shp, ty = ex.heap_arrays(VALUE, "shape")[0], ex.heap_arrays(VALUE, "type")[0]
        pshp, pty = P.arrays(VALUE, "shape")[0], P.arrays(VALUE, "type")[0]
        v = z3.Const("v!md", V)
        obl.append(("txn-effect:T10.only_moved_chain_outputs_change_their_declared_shape_and_no_declared_type_changes", z3.ForAll([v], z3.And(
            sel(ty, v) == sel(pty, v),
            z3.Or(sel(shp, v) == sel(pshp, v), z3.Exists([k], z3.And(0 <= k, k < L, v == P.out(sel(A.arrs[0], k), 0))))))))
        return obl

    w.add_contract(Contract(
        f"{MO}:remove_redundant_reshape_pairs_ir", params={"graph": Ref(GRAPH)},
        requires=[("valid_graph", lambda c: z3.And([f for _, f in wf10(c.ex, c["graph"].term)]))],
        loops={0: LoopSpec(invariant=hook10, label="transactions"), 1: LoopSpec(heap_unchanged=True, label="scan"),
               2: LoopSpec(invariant=inv_up, heap_unchanged=True, label="walk-up", types={"v": Opt(Ref(VALUE)), "T1": Opt(Ref(NODE)), "prod_node": Opt(Ref(NODE))}),
               3: LoopSpec(invariant=inv_cons_t1, heap_unchanged=True, label="consumers-of-T1"),
               4: LoopSpec(invariant=inv_nodes_outer, heap_unchanged=True, label="chain-outputs"),
               5: LoopSpec(invariant=inv_cons_t1, heap_unchanged=True, label="consumers-of-chain-output"),
               6: LoopSpec(invariant=inv_refresh10, ghost_havoc=ghost_havoc_refresh, label="refresh")},
        local_types={"allowed_nodes": Seq(Ref(NODE))},
        track_alloc=True, deep_feasibility=True, ret=NoneT, props=["C02", "C08"], opaque_externals=True, witnesses=["C02_reshape_pair_family", "D2", "D3b"],
        modifies=[(NODE, "inputs"), (GRAPH, "nodes"), (GRAPH, "outputs"), (VALUE, "shape")],
    ))

    def law10(part):
        def lemma(world):
            T, S, F = z3.DeclareSort("TensorL"), z3.DeclareSort("ShapeL"), z3.DeclareSort("PointwiseL")
            Rs = z3.Function("ReshapeL", S, T, T)                 # Reshape(x, target)
            shape_of = z3.Function("shapeL", T, S)
            app = z3.Function("applyL", F, T, T)                  # pointwise operator with broadcast-scalar side operands that do not out-rank its data operand
            den, den2 = z3.Function("den_before", z3.IntSort(), T), z3.Function("den_after", z3.IntSort(), T)
            f = z3.Function("chain_op", z3.IntSort(), F)
            s1, s2, x, g, s = z3.Const("s1", S), z3.Const("s2", S), z3.Const("x", T), z3.Const("g", F), z3.Const("s", S)
            L, k, j = z3.Int("L"), z3.Int("k"), z3.Int("j")
            A6a = z3.ForAll([s, x], Rs(shape_of(x), Rs(s, x)) == x)                            # reshaping back to the own shape
            A6b = z3.ForAll([g, s, x], app(g, Rs(s, x)) == Rs(s, app(g, x)))                   # pointwise operators commute with Reshape
            A6c = z3.ForAll([g, x], shape_of(app(g, x)) == shape_of(x))                        # ... and keep the shape of the data operand
            chain = [L >= 0, den(0) == Rs(s1, x), den2(0) == x,
                     z3.ForAll([j], z3.Implies(z3.And(0 <= j, j < L), z3.And(den(j + 1) == app(f(j), den(j)), den2(j + 1) == app(f(j), den2(j)))))]
            ih = lambda i: z3.And(den(i) == Rs(s1, den2(i)), shape_of(den2(i)) == shape_of(x))  # noqa: E731
            if part == "base":
                return ([A6a, A6b, A6c] + chain, ih(0))
            if part == "step":
                return ([A6a, A6b, A6c] + chain + [0 <= k, k < L, ih(k)], ih(k + 1))
            return ([A6a, A6b, A6c] + chain + [z3.ForAll([j], z3.Implies(z3.And(0 <= j, j <= L), ih(j))), s2 == shape_of(x)], Rs(s2, den(L)) == den2(L))
        return lemma
    w.add_contract(Contract(f"{MO}:<law-T10>", kind="lemma", props=["C02"], ensures=[
        ("base_first_chain_value_is_the_reshaped_source", law10("base")),
        ("step_pointwise_operators_commute_with_reshape_and_keep_the_shape", law10("step")),
        ("conclusion_reshaping_the_last_chain_value_to_the_source_shape_is_the_chain_on_the_source", law10("end"))]))
    w.trust("A6 a pointwise operator whose other operands are broadcast scalars of rank <= the rank of its data operand commutes with Reshape and keeps the data operand's shape; Reshape(Reshape(x, s), shape(x)) = x")

    # ---- law of T8/T9 in the tensor algebra (induction over the chain written out: base, step, conclusion)
    def law(part):
        def lemma(world):
            T, Pm, F = z3.DeclareSort("TensorL"), z3.DeclareSort("PermL"), z3.DeclareSort("PointwiseL")
            Tr = z3.Function("TrL", Pm, T, T)
            app = z3.Function("applyL", F, T, T)            # a pointwise operator with its broadcast-scalar side operands fixed
            inv = z3.Function("inverseL", Pm, Pm, z3.BoolSort())
            den, den2 = z3.Function("den_before", z3.IntSort(), T), z3.Function("den_after", z3.IntSort(), T)
            f = z3.Function("chain_op", z3.IntSort(), F)
            p, q, x, g = z3.Const("p", Pm), z3.Const("q", Pm), z3.Const("x", T), z3.Const("g", F)
            L, k, j = z3.Int("L"), z3.Int("k"), z3.Int("j")
            A1 = z3.ForAll([p, q, x], z3.Implies(inv(p, q), Tr(q, Tr(p, x)) == x))
            A23 = z3.ForAll([g, p, x], app(g, Tr(p, x)) == Tr(p, app(g, x)))
            chain = [L >= 0, den(0) == Tr(p, x), den2(0) == x,
                     z3.ForAll([j], z3.Implies(z3.And(0 <= j, j < L), z3.And(den(j + 1) == app(f(j), den(j)), den2(j + 1) == app(f(j), den2(j)))))]
            ih = lambda i: den(i) == Tr(p, den2(i))  # noqa: E731
            if part == "base":
                return ([A1, A23] + chain, ih(0))
            if part == "step":
                return ([A1, A23] + chain + [0 <= k, k < L, ih(k)], ih(k + 1))
            return ([A1, A23] + chain + [z3.ForAll([j], z3.Implies(z3.And(0 <= j, j <= L), ih(j))), inv(p, q)], Tr(q, den(L)) == den2(L))
        return lemma
    w.add_contract(Contract(f"{MO}:<law-T8>", kind="lemma", props=["C02", "C12"], ensures=[
        ("base_first_chain_value_is_the_transposed_source", law("base")),
        ("step_pointwise_operators_with_scalar_side_operands_commute_with_transpose", law("step")),
        ("conclusion_inverse_transpose_of_the_last_chain_value_is_the_chain_on_the_source", law("end"))]))
    register_orphans(w)
    register_swish(w)

    # ---- bounded stand-in for the transactions that are not under contract (T4-T7): labelled bounded, never counted as proved
    def bounded_dag(world, c, out):
        import time
        from pyvc.run import run_witness
        t0 = time.time()
        holds, detail = run_witness("C02_transpose_dag_family", timeout=1800)
        target = f"{MO}:remove_redundant_transpose_pairs_ir+remove_redundant_transpose_add_forests_ir"
        d = {"oid": f"{target}#bounded:T4-T7_change_no_output_and_leave_no_false_declaration", "kind": "bounded", "status": "discharged" if holds else ("refuted" if holds is False else "unknown"), "backend": "enumerated",
             "time": time.time() - t0, "instances": 1, "trivial": 0,
             "bounded": "16 DAG shapes (chains of <= 3 unary ops, binary joins of <= 3 transposed sources, Add chains/forests with fan-out, scalar and full constants) x 5 permutation pairs of rank 3/4 with pairwise different extents x 5 observation variants x 3 pass orders; every graph output and every declared value_info compared with onnxruntime",
             "note": f"T4 (Add forests), T5 (Add chains), T6 (elementwise DAGs), T7 (chains between one pair) are not under contract: the real passes are run on an enumerated family of graphs; {detail}"[:700]}
        if holds is False:
            d.update(args={"witness": "C02_transpose_dag_family"}, replay={"reproduced": True, "detail": detail}, formula="", model=detail)
        out["obls"].append(d)
        out["paths"], out["time"] = 1, time.time() - t0
        return out
    w.add_contract(Contract(f"{MO}:<bounded-T4-T7>", kind="custom", custom=bounded_dag, props=["C02", "C08", "C12"], witnesses=["C02_transpose_dag_family"]))

    # ---- bounded stand-in for T12 (Swish), T13 (rsqrt, env-gated), T14 (Dropout) and the two shape-propagation passes
    def bounded_misc(world, c, out):
        import time
        from pyvc.run import run_witness
        t0 = time.time()
        target = f"{MO}:rewrite_mul_sigmoid_as_swish_ir+rewrite_mul_rsqrt_as_div_ir+inline_dropout_training_mode_constants_ir+propagate_*_shapes_ir"
        for oname, wn, bound in (
                ("T12-T14_and_shape_propagation_change_no_output_and_leave_no_false_declaration", "C02_misc_rewrites_family",
                 "36 Mul/Sigmoid graphs (operand order, same/different value, Sigmoid or Mul output observed, opset 23/24), the rsqrt pattern with the gate off, Dropout with training_mode constant False / graph input, 3 elementwise chains with undeclared intermediates and size-1 constants of higher rank; each pass alone and the whole optimize_graph"),
                ("T14_dropout_with_training_mode_Not_of_a_constant_True_stays_a_valid_model", "D27_dropout_not_true", "Dropout(x, ratio, Not(True constant)), the Not output observed or not; the pass alone and the whole optimize_graph")):
            holds, detail = run_witness(wn, timeout=1800)
            d = {"oid": f"{target}#bounded:{oname}", "kind": "bounded", "status": "discharged" if holds else ("refuted" if holds is False else "unknown"), "backend": "enumerated",
                 "time": time.time() - t0, "instances": 1, "trivial": 0, "bounded": bound, "note": f"not under contract: the real passes are run on an enumerated family of graphs; {detail}"[:700]}
            if holds is False:
                d.update(args={"witness": wn}, replay={"reproduced": True, "detail": detail}, formula="", model=detail)
            out["obls"].append(d)
        out["paths"], out["time"] = 1, time.time() - t0
        return out
    w.add_contract(Contract(f"{MO}:<bounded-T12-T14>", kind="custom", custom=bounded_misc, props=["C02", "C08"], witnesses=["C02_misc_rewrites_family"]))
    w.trust("A2/A3 a pointwise operator whose other operands are broadcast scalars commutes with Transpose; a node whose op_type is in ALLOWED_ELEMWISE denotes the ONNX operator of that name (custom-domain nodes emitted by jax2onnx are functions named <Name>_<n> or contrib operators with the same pointwise meaning)")


# =====================================================================
# T15  remove_orphan_transposes_ir:  a Transpose none of whose outputs is read, listed as graph output or captured   ==>   removed
# =====================================================================
def register_orphans(w):
    sel = z3.Select
    N, V = ref_sort(NODE), ref_sort(VALUE)
    nested_ref = w.c02_preds["nested_ref"]
    observed_as_output = w.c02_observed_as_output
    hv = w.graph_hv
    w.global_overrides[(MO, "DCE_DEBUG")] = VBool(z3.BoolVal(False))

    def name_of(ex, v):
        na = ex.heap_arrays(VALUE, "name")
        return sel(na[0], v), sel(na[1], v)

    def named(ex, v):
        isnone, nm = name_of(ex, v)
        return z3.And(z3.Not(isnone), z3.Length(nm) > 0)

    def in_seq(seq, x):
        k = z3.Int("k!os")
        return z3.Exists([k], z3.And(0 <= k, k < seq.length, sel(seq.arrs[0], k) == x))

    def reads_name(ex, n, nm):
        """node n has an input whose (non-empty) name is nm"""
        ins = ex.heap_arrays(NODE, "inputs")
        i = z3.Int("i!rn")
        x = sel(sel(ins[0], n), i)
        isnone, xn = name_of(ex, x)
        return z3.Exists([i], z3.And(0 <= i, i < sel(ins[1], n), x != null_of(VALUE), z3.Not(isnone), z3.Length(xn) > 0, xn == nm))

    # _has_named_consumer(nodes, producer=, output_name=): False only if no other node of `nodes` reads a value of that name
    def post_hnc(c: Ctx):
        ex = c.ex
        n = z3.Const("n!hn", N)
        return z3.Implies(z3.Not(c.result.term), z3.ForAll([n], z3.Implies(z3.And(in_seq(c["nodes"], n), n != c["producer"].term), z3.Not(reads_name(ex, n, c["output_name"].term)))))

    def inv_hnc_outer(lc):
        ex = lc.ex
        k = z3.Int("k")
        n = sel(lc.seq.arrs[0], k)
        return [("no_reader_among_the_nodes_so_far", z3.ForAll([k], z3.Implies(z3.And(0 <= k, k < lc.idx, n != lc["producer"].term), z3.Not(reads_name(ex, n, lc["output_name"].term)))))]

    def inv_hnc_inner(lc):
        ex = lc.ex
        k = z3.Int("k")
        x = sel(lc.seq.arrs[0], k)
        isnone, xn = name_of(ex, x)
        return [("no_input_so_far_carries_the_name", z3.ForAll([k], z3.Implies(z3.And(0 <= k, k < lc.idx), z3.Not(z3.And(x != null_of(VALUE), z3.Not(isnone), z3.Length(xn) > 0, xn == lc["output_name"].term)))))]

    w.add_contract(Contract(
        f"{MO}:_has_named_consumer", params={"nodes": Seq(Ref(NODE)), "producer": Ref(NODE), "output_name": Str}, ret=Bool, raises=set(),
        requires=[("name_is_not_empty", lambda c: z3.Length(c["output_name"].term) > 0)],
        ensures=[("false_only_if_no_other_node_reads_the_name", post_hnc)],
        loops={0: LoopSpec(invariant=inv_hnc_outer, label="nodes"), 1: LoopSpec(invariant=inv_hnc_inner, label="inputs")}, props=["C02", "C03"],
    ))

    def wf15(ex, graph):
        n, j = z3.Const("n!wf", N), z3.Int("j!wf")
        outs = ex.heap_arrays(NODE, "outputs")
        return [("every_node_output_carries_a_name", z3.ForAll([n, j], z3.Implies(z3.And(0 <= j, j < sel(outs[1], n)), named(ex, sel(sel(outs[0], n), j)))))]

    def dead(ex, graph, nodes, n):
        """no output of n is read by another node of the graph, listed as graph output or captured by a nested body"""
        outs = ex.heap_arrays(NODE, "outputs")
        j, m = z3.Int("j!dd"), z3.Const("m!dd", N)
        o = sel(sel(outs[0], n), j)
        return z3.ForAll([j], z3.Implies(z3.And(0 <= j, j < sel(outs[1], n)), z3.And(
            z3.Not(observed_as_output(ex, graph, o)), z3.Not(nested_ref(o, hv(ex))),
            z3.ForAll([m], z3.Implies(z3.And(in_seq(nodes, m), m != n), z3.Not(w.graph_reads(ex, m, o)))))))

    def inv_collect(lc):
        ex = lc.ex
        tr, nodes, graph = lc["to_remove"], lc["nodes"], lc["graph"].term
        k = z3.Int("k")
        x = sel(tr.arrs[0], k)
        return [("collected_nodes_are_dead_transposes", z3.ForAll([k], z3.Implies(z3.And(0 <= k, k < tr.length), z3.And(
            sel(ex.heap_arrays(NODE, "op_type")[0], x) == z3.StringVal("Transpose"), dead(ex, graph, nodes, x)))))]

    def inv_outs(lc):
        ex = lc.ex
        node, nodes, graph = lc["node"], lc["nodes"], lc["graph"].term
        j, m = z3.Int("j"), z3.Const("m!io", N)
        o = sel(lc.seq.arrs[0], j)
        return [("not_live_so_far", z3.Not(ex.truthy(lc["is_live"]))),
                ("outputs_so_far_are_unobserved", z3.ForAll([j], z3.Implies(z3.And(0 <= j, j < lc.idx), z3.And(
                    z3.Not(observed_as_output(ex, graph, o)), z3.Not(nested_ref(o, hv(ex))),
                    z3.ForAll([m], z3.Implies(z3.And(in_seq(nodes, m), m != node.term), z3.Not(w.graph_reads(ex, m, o))))))))]

    def hook15(lc):
        ex = lc.ex
        graph = lc["graph"].term
        if lc.phase == "assume":
            ex.events[:] = [e for e in ex.events if not (e and e[0] == "mut")]
            for f in structurally_valid(ex):
                ex.pc.append(f)
            return wf15(ex, graph)
        E = muts(ex)
        obl = wf15(ex, graph)
        if lc.phase != "inv-step" or not E:
            return obl
        ok = [e[1] for e in E] == ["remove_many"] and isinstance(lc.get("to_remove"), VSeq) and isinstance(lc.get("nodes"), VSeq)
        obl.append(("txn-effect:T15.events_are_one_removal", z3.BoolVal(ok)))
        if not ok:
            return obl
        e = E[0]
        P = Pre(ex, e[-3])
        tr, nodes = lc["to_remove"], lc["nodes"]
        removed = e[3]
        k = z3.Int("k")
        cur = ex.heap
        ex.heap = dict(P.snap)
        hv_now = ex.ghost.get("heap_version")
        ex.ghost["heap_version"] = e[-2]["hv"]
        try:
            x = sel(tr.arrs[0], k)
            gn = P.graph_nodes(graph)
            facts = [("txn-effect:T15.the_collected_list_is_what_is_removed_from_this_graph", z3.And(z3.BoolVal(removed is tr or (isinstance(removed, VSeq) and removed.arrs[0].eq(tr.arrs[0]) and removed.length.eq(tr.length))), e[2].term == graph)),
                     ("txn-facts:T15.every_removed_node_is_a_transpose_nobody_observes", z3.ForAll([k], z3.Implies(z3.And(0 <= k, k < tr.length), z3.And(
                         sel(ex.heap_arrays(NODE, "op_type")[0], x) == z3.StringVal("Transpose"), dead(ex, graph, nodes, x))))),
                     ("txn-facts:T15.consumer_scans_ranged_over_all_nodes_of_the_graph", z3.And(nodes.length == gn[1], z3.ForAll([k], z3.Implies(z3.And(0 <= k, k < nodes.length), sel(nodes.arrs[0], k) == sel(gn[0], k)))))]
        finally:
            for kk, vv in ex.heap.items():
                cur.setdefault(kk, vv)
            ex.heap = cur
            ex.ghost["heap_version"] = hv_now
        return obl + facts

    w.add_contract(Contract(
        f"{MO}:remove_orphan_transposes_ir", params={"graph": Ref(GRAPH)},
        requires=[("valid_graph", lambda c: z3.And([f for _, f in wf15(c.ex, c["graph"].term)]))],
        loops={0: LoopSpec(invariant=hook15, label="transactions"), 1: LoopSpec(invariant=inv_collect, heap_unchanged=True, label="collect"),
               2: LoopSpec(invariant=inv_outs, heap_unchanged=True, label="outputs")},
        local_types={"to_remove": Seq(Ref(NODE))},
        track_alloc=True, deep_feasibility=True, ret=NoneT, props=["C02", "C03"], opaque_externals=True, witnesses=["D13"],
        modifies=[(GRAPH, "nodes")],
    ))
    w.trust("removing a node none of whose outputs is read by a node, listed as a graph output or captured by a nested body changes no observable value (dead code)")


# =====================================================================
# T12  rewrite_mul_sigmoid_as_swish_ir:  Mul(x, Sigmoid(x))  ==>  Swish(x)        (opset >= 24: C11)
# =====================================================================
def register_swish(w):
    sel = z3.Select
    N, V = ref_sort(NODE), ref_sort(VALUE)
    nested_ref = w.c02_preds["nested_ref"]
    observed_as_output = w.c02_observed_as_output
    unobserved_except = w.txn_unobserved_except
    hv = w.graph_hv
    from specs import ctxmodel
    ctxmodel.register(w)

    def name_of(ex, v):
        na = ex.heap_arrays(VALUE, "name")
        return sel(na[0], v), sel(na[1], v)

    def same_value(ex, a, b):
        """the code's _same_value: identical, or carrying the same non-empty name (names are unique: the same value)"""
        an, av = name_of(ex, a)
        bn, bv = name_of(ex, b)
        return z3.Or(a == b, z3.And(z3.Not(an), z3.Not(bn), z3.Length(av) > 0, av == bv))

    def produces(ex, n, v):
        outs = ex.heap_arrays(NODE, "outputs")
        i = z3.Int("i!ps")
        return z3.Exists([i], z3.And(0 <= i, i < sel(outs[1], n), sel(sel(outs[0], n), i) == v))

    def term_of(v):
        if isinstance(v, VRef):
            return v.term
        if isinstance(v, VNone):
            return null_of(VALUE)
        if isinstance(v, VOpt):
            return z3.If(v.isnone, null_of(VALUE), v.val.term)
        raise OutOfSubset(f"optional value of unexpected kind {v!r}")

    # _match_mul_sigmoid_silu_inputs(nodes, lhs, rhs): (x, S) with S a Sigmoid reading x and producing one operand, x being the other operand
    def post_match(c: Ctx):
        r = c.result
        if isinstance(r, VNone):
            return z3.BoolVal(True)
        ex = c.ex
        x, S = r.items
        lhs, rhs = term_of(c["lhs"]), term_of(c["rhs"])
        ins = ex.heap_arrays(NODE, "inputs")
        op = sel(ex.heap_arrays(NODE, "op_type")[0], S.term)
        pat = lambda so, pt: z3.And(so != null_of(VALUE), pt != null_of(VALUE), produces(ex, S.term, so), same_value(ex, x.term, pt))  # noqa: E731
        return z3.And(op == z3.StringVal("Sigmoid"), sel(ins[1], S.term) == 1, x.term == sel(sel(ins[0], S.term), 0), x.term != null_of(VALUE),
                      z3.Or(pat(lhs, rhs), pat(rhs, lhs)))
    w.add_contract(Contract(
        f"{MO}:_match_mul_sigmoid_silu_inputs", params={"nodes": Seq(Ref(NODE)), "lhs": Opt(Ref(VALUE)), "rhs": Opt(Ref(VALUE))}, ret=Opt(Tup(Ref(VALUE), Ref(NODE))),
        ensures=[("result_is_the_sigmoid_of_the_other_operand", post_match)], raises=set(), props=["C02"], witnesses=["C02_misc_rewrites_family"],
    ))

    def wf12(ex, graph):
        n = z3.Const("n!wf", N)
        op = sel(ex.heap_arrays(NODE, "op_type")[0], n)
        return [("every_node_has_an_output", z3.ForAll([n], sel(ex.heap_arrays(NODE, "outputs")[1], n) >= 1)),
                ("mul_and_sigmoid_nodes_have_one_output", z3.ForAll([n], z3.Implies(z3.Or(op == z3.StringVal("Mul"), op == z3.StringVal("Sigmoid")), sel(ex.heap_arrays(NODE, "outputs")[1], n) == 1)))]

    def hook12(lc):
        ex = lc.ex
        graph = lc["graph"].term
        if lc.phase == "assume":
            ex.events[:] = [e for e in ex.events if not (e and e[0] in ("mut", "node"))]
            for f in structurally_valid(ex):
                ex.pc.append(f)
            return wf12(ex, graph)
        E = muts(ex)
        obl = wf12(ex, graph)
        if lc.phase != "inv-step" or not E:
            return obl
        kinds = [e[1] for e in E if e[1] != "set_meta"]
        made = [e for e in ex.events if e and e[0] == "node"]
        node, sig, x_val = lc.get("node"), lc.get("sigmoid_node"), lc.get("x_val")
        ok = kinds[:3] == ["insert_before", "rauw", "remove"] and all(k_ == "remove" for k_ in kinds[3:]) and len(kinds) <= 4 and len(made) == 1 \
            and isinstance(node, VRef) and isinstance(sig, VRef) and isinstance(x_val, VRef)
        obl.append(("txn-effect:T12.events_are_insert_bypass_remove", z3.BoolVal(ok)))
        if not ok:
            return obl
        ins_e, rauw, rem = [e for e in E if e[1] == "insert_before"][0], [e for e in E if e[1] == "rauw"][0], [e for e in E if e[1] == "remove"]
        P = Pre(ex, E[0][-3])
        hv0 = E[0][-2]["hv"]
        new_node = made[0][1]
        a_old, b_new = rauw[2].term, rauw[3].term
        cur_in = ex.heap_arrays(NODE, "inputs")
        cur_out = ex.heap_arrays(NODE, "outputs")
        cur_op, cur_dom = ex.heap_arrays(NODE, "op_type")[0], ex.heap_arrays(NODE, "domain")[0]
        nn = new_node.term
        born = ex.born(VALUE)
        now0 = E[0][-2]["now"]
        obl.append(("txn-effect:T12.a_standard_swish_node_on_x_with_a_fresh_output_is_inserted", z3.And(
            ins_e[2].term == graph, ins_e[4].term == nn, sel(cur_op, nn) == z3.StringVal("Swish"), sel(cur_dom, nn) == z3.StringVal(""),
            sel(cur_in[1], nn) == 1, sel(sel(cur_in[0], nn), 0) == x_val.term, sel(cur_out[1], nn) == 1, sel(sel(cur_out[0], nn), 0) == b_new, b_new != a_old)))
        obl.append(("txn-effect:T12.mul_output_replaced_by_the_swish_output_everywhere_and_mul_removed", z3.And(
            a_old == P.out(node.term, 0), ex.truthy(rauw[4]), rem[0][3].term == node.term, rem[0][2].term == graph)))
        # facts: Mul of x and Sigmoid(x)
        s_out = P.out(sig.term, 0)
        in0, in1 = P.inp(node.term, 0), P.inp(node.term, 1)
        cur = ex.heap
        ex.heap = dict(P.snap)
        try:
            same = lambda a, b: same_value(ex, a, b)  # noqa: E731
            facts = z3.And(P.op(node.term) == z3.StringVal("Mul"), P.n_in(node.term) == 2, P.op(sig.term) == z3.StringVal("Sigmoid"), P.n_in(sig.term) == 1,
                           x_val.term == P.inp(sig.term, 0), x_val.term != null_of(VALUE),
                           z3.Or(z3.And(in0 == s_out, same(x_val.term, in1)), z3.And(in1 == s_out, same(x_val.term, in0))))
        finally:
            for kk, vv in ex.heap.items():
                cur.setdefault(kk, vv)
            ex.heap = cur
        obl.append(("txn-facts:T12.node_is_mul_of_x_and_sigmoid_of_x", facts))
        # metadata (C08): the new value declares exactly what the Mul output declared
        shp, ty = ex.heap_arrays(VALUE, "shape")[0], ex.heap_arrays(VALUE, "type")[0]
        pshp, pty = P.arrays(VALUE, "shape")[0], P.arrays(VALUE, "type")[0]
        obl.append(("txn-effect:T12.swish_output_declares_what_the_mul_output_declared", z3.And(sel(shp, b_new) == sel(pshp, a_old), sel(ty, b_new) == sel(pty, a_old))))
        v = z3.Const("v!m12", V)
        obl.append(("txn-effect:T12.no_existing_value_changes_its_declaration", z3.ForAll([v], z3.Implies(v != b_new, z3.And(sel(shp, v) == sel(pshp, v), sel(ty, v) == sel(pty, v))))))
        # the Sigmoid may go only when nothing observes its output any more
        if len(rem) == 2:
            Pr = Pre(ex, rem[1][-3])
            hvr = rem[1][-2]["hv"]
            obl.append(("txn-effect:T12.second_removal_is_the_sigmoid", z3.And(rem[1][3].term == sig.term, rem[1][2].term == graph)))
            obl.append(("txn-facts:T12.sigmoid_removed_only_when_nothing_observes_its_output", unobserved_except(ex, Pr, graph, Pr.out(sig.term, 0), [], hvr)))
        return obl

    w.add_contract(Contract(
        f"{MO}:rewrite_mul_sigmoid_as_swish_ir", params={"graph": Ref(GRAPH)},
        requires=[("valid_graph", lambda c: z3.And([f for _, f in wf12(c.ex, c["graph"].term)]))],
        loops={0: LoopSpec(invariant=hook12, label="transactions"), 1: LoopSpec(heap_unchanged=True, label="scan")},
        track_alloc=True, deep_feasibility=True, ret=NoneT, props=["C02", "C08"], opaque_externals=True, witnesses=["C02_misc_rewrites_family"],
        modifies=[(NODE, "inputs"), (GRAPH, "nodes"), (GRAPH, "outputs")],
    ))

    def lemma(world):
        T = z3.DeclareSort("TensorL")
        Mul, Sig, Sw = z3.Function("MulL", T, T, T), z3.Function("SigmoidL", T, T), z3.Function("SwishL", T, T)
        x, y = z3.Const("x", T), z3.Const("y", T)
        A9 = z3.ForAll([x], Mul(x, Sig(x)) == Sw(x))
        comm = z3.ForAll([x, y], Mul(x, y) == Mul(y, x))
        return ([A9, comm], z3.And(Mul(x, Sig(x)) == Sw(x), Mul(Sig(x), x) == Sw(x)))
    w.add_contract(Contract(f"{MO}:<law-T12>", kind="lemma", ensures=[("mul_of_x_and_sigmoid_of_x_is_swish_in_either_operand_order", lemma)], props=["C02"]))
    w.trust("A9 x * Sigmoid(x) = Swish(x) with alpha = 1 (ONNX Swish, opset 24); Mul is commutative")
