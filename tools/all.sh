#!/bin/sh
# usage: all.sh [quick|thorough] : run every claimed check (4 at a time), print the summary lines
T=${1:-quick}
cd /verif
IDS=$(python3 -c "import json;print(' '.join(c['property_id'] if 'property_id' in c else c['id'] for c in json.load(open('MANIFEST.json'))['checks']))" 2>/dev/null || python3 -c "import props;print(' '.join(sorted(props.SPECS)))")
echo $IDS | tr ' ' '\n' | xargs -P 4 -I{} sh -c "./check {} --tier $T 2>&1 | grep -E '^(VIOLATION|KNOWN-FINDING|C[0-9]+:)' | grep -v '^KNOWN-FINDING' ; true"
