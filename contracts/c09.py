"""C09 / C05 — dtype policy functions (precision flag, element-type classes)."""
from __future__ import annotations

import z3

from pyvc.vals import *  # noqa
from pyvc.core import *  # noqa
from pyvc.world import Contract, Ctx
from specs import npdtype
from specs.npdtype import NPDT
from specs import dtypes as D

MI = "jax2onnx.ir_utils"
MC = "jax2onnx.converter.conversion_api"

# numpy dtype name -> ONNX element type, from the ONNX/numpy documentation (not from the code)
SPEC_NP_TO_ONNX = {"bool_": 9, "int8": 3, "int16": 5, "int32": 6, "int64": 7, "uint8": 2, "uint16": 4, "uint32": 12, "uint64": 13,
                   "float16": 10, "float32": 1, "float64": 11, "complex64": 14, "complex128": 15, "bfloat16": 16, "str_": 8}
FLOAT_NAMES = ("float16", "float32", "float64")
DOUBLE, FLOAT = 11, 1


def register(w):
    P = npdtype.register(w)
    mem = P.members

    def cls_of_np(c):
        """0 bool, 1 integer, 2 floating, 3 complex, 4 other (spec classes of C05)"""
        table = {}
        for nm, i in mem.items():
            table[i] = 0 if nm == "bool_" else 1 if nm.startswith(("int", "uint")) else 2 if nm in FLOAT_NAMES or nm == "bfloat16" else 3 if nm.startswith("complex") else 4
        r = z3.IntVal(4)
        for i, v in table.items():
            r = z3.If(c == i, z3.IntVal(v), r)
        return r

    def cls_of_onnx(c):
        r = z3.IntVal(4)
        for k, (nm, kind) in D.ONNX.items():
            v = 0 if kind == "bool" else 4 if kind == "other" else {"int": 1, "float": 2, "complex": 3}[kind[0]]
            r = z3.If(c == k, z3.IntVal(v), r)
        return r

    w.cls_of_np, w.cls_of_onnx = cls_of_np, cls_of_onnx
    w.dtype_policy_relation = lambda code, dbl, r: policy_relation(code, dbl, r)

    def post_policy(c: Ctx):
        dt, dbl, r = c["dtype"], c["enable_double_precision"].term, c.result.term
        if isinstance(dt, VNone):
            return r == z3.If(dbl, DOUBLE, FLOAT)
        return policy_relation(dt.term, dbl, r)

    def policy_relation(code, dbl, r):
        """the element-type policy of the property: (numpy dtype code, precision flag) -> ONNX element type r"""
        exact_int = z3.And([z3.Implies(code == mem[nm], r == SPEC_NP_TO_ONNX[nm]) for nm in mem if nm.startswith(("int", "uint", "bool", "complex"))])
        return z3.And(
            # C09: the flag decides float32 / unknown floats; float16 and float64 keep their width
            z3.Implies(z3.And(z3.Not(dbl), code != mem["float64"]), r != DOUBLE),
            z3.Implies(z3.And(dbl, code == mem["float32"]), r == DOUBLE),
            z3.Implies(code == mem["float64"], r == DOUBLE),
            z3.Implies(code == mem["float16"], r == SPEC_NP_TO_ONNX["float16"]),
            z3.Implies(z3.And(z3.Not(dbl), code == mem["float32"]), r == FLOAT),
            # C05: same class; integers/bool/complex keep exactly their ONNX counterpart
            z3.Implies(cls_of_np(code) != 4, cls_of_onnx(r) == cls_of_np(code)),
            exact_int,
        )

    def replay_policy(model, args):
        import importlib
        import numpy as np
        mod = importlib.import_module(MI)
        code = args["dtype"]
        dt = None if code is None else P.objs[code]
        try:
            got = mod.numpy_dtype_to_ir_with_float_policy(dt, args["enable_double_precision"])
        except TypeError as e:
            return False, f"raised TypeError {e}"
        want_cls = None if dt is None else ("b" if dt.kind == "b" else "i" if dt.kind in "iu" else "f" if dt.kind == "f" else "c" if dt.kind == "c" else None)
        kind = D.ONNX[int(got.value)][1]
        got_cls = "b" if kind == "bool" else None if kind == "other" else {"int": "i", "float": "f", "complex": "c"}[kind[0]]
        bad = False
        if dt is not None and want_cls is not None and got_cls != want_cls:
            bad = True
        if dt is not None and dt.name in SPEC_NP_TO_ONNX.get and False:
            pass
        dbl = args["enable_double_precision"]
        if dt is None and int(got.value) != (DOUBLE if dbl else FLOAT):
            bad = True
        if dt is not None:
            if not dbl and dt != np.float64 and int(got.value) == DOUBLE:
                bad = True
            if dbl and dt == np.float32 and int(got.value) != DOUBLE:
                bad = True
            if dt == np.float64 and int(got.value) != DOUBLE:
                bad = True
            if dt == np.float16 and int(got.value) != 10:
                bad = True
            if not dbl and dt == np.float32 and int(got.value) != FLOAT:
                bad = True
            nm = dt.name if dt.name != "bool" else "bool_"
            if nm in SPEC_NP_TO_ONNX and not nm.startswith("float") and nm != "bfloat16" and nm != "str_" and int(got.value) != SPEC_NP_TO_ONNX[nm]:
                bad = True
        return bad, f"numpy_dtype_to_ir_with_float_policy({dt}, enable_double_precision={dbl}) returned {got.name}"

    w.add_contract(Contract(
        f"{MI}:numpy_dtype_to_ir_with_float_policy",
        params={"dtype": Opt(Enum(NPDT)), "enable_double_precision": Bool},
        requires=[("member", lambda c: z3.BoolVal(True) if isinstance(c["dtype"], VNone) else z3.Or([c["dtype"].term == i for i in P.objs]))],
        ensures=[("float_policy_and_class_preserved", post_policy)],
        raises={"TypeError"}, ret=Enum("DataType"), props=["C09", "C05"], replay=replay_policy,
    ))

    # _to_ir_dtype_from_np: graph *input* element types (layout-adapted inputs)
    def post_from_np(c: Ctx):
        code, r = c["np_dtype"].term, c.result.term
        return z3.And(
            z3.Implies(code == mem["float64"], r == DOUBLE),
            z3.Implies(code == mem["float32"], r == FLOAT),
            z3.Implies(z3.And(cls_of_np(code) != 4, cls_of_np(code) != 3), cls_of_onnx(r) == cls_of_np(code)),
            z3.And([z3.Implies(code == mem[nm], r == SPEC_NP_TO_ONNX[nm]) for nm in mem if nm.startswith(("int", "uint", "bool"))]),
        )

    w.add_contract(Contract(
        f"{MC}:_to_ir_dtype_from_np", params={"np_dtype": Enum(NPDT)},
        requires=[("member", lambda c: z3.Or([c["np_dtype"].term == i for i in P.objs]))],
        ensures=[("class_preserved_ints_exact", post_from_np)],
        raises=set(), ret=Enum("DataType"), props=["C05"], inline_callees=True,
    ))
    register_pipeline(w)
    register_builder_payload(w)


def register_bounded_constants(w):
    """Constant binding / promotion (bind_const_for_var, _bind_literal_value_for_var, _promote_float_array, ir_postprocess) is
    not under contract: a bounded stand-in runs double-precision exports with near-equal float64 literals (never counted as proved)."""
    def custom(world, c, out):
        import time
        from pyvc.run import run_witness
        t0 = time.time()
        for oname, wn, bound in (("float64_literals_survive_a_double_precision_export_exactly", "C09_literal_precision_family",
                                  "4 programs (top level, fori_loop body, cond branch, @onnx_function body) with pairs of literals equal to float32 resolution, x64 flag off/on, 2 inputs each; compared with float64 numpy at 1e-13"),
                                 ("function_body_constants_follow_the_requested_precision", "C09_function_body_constants_follow_precision", "one @onnx_function body, both precision settings"),
                                 ("builder_helpers_store_payloads_as_the_precision_policy_requires", "C09_builder_payload_family",
                                  "IRBuilder.add_initializer_from_scalar/_array: 12 values (python/numpy floats of 3 widths, ints, bool, arrays) x precision flag x graph/function mode"),
                                 ("arctan2_is_computed_in_the_requested_precision", "D48", "one program: jnp.arctan2 on float64[4] with enable_double_precision=True, compared with float64 numpy at 1e-12")):
            holds, detail = run_witness(wn, timeout=900)
            d = {"oid": f"jax2onnx.converter.ir_context:IRContext.bind_const_for_var+_bind_literal_value_for_var#bounded:{oname}", "kind": "bounded",
                 "status": "discharged" if holds else ("refuted" if holds is False else "unknown"), "backend": "enumerated", "time": time.time() - t0, "instances": 1, "trivial": 0,
                 "bounded": bound, "note": f"constant binding is not under contract; the real export is run on an enumerated family; {detail}"[:500]}
            if holds is False:
                d.update(args={"witness": wn}, replay={"reproduced": True, "detail": detail}, formula="", model=detail)
            out["obls"].append(d)
        out["paths"], out["time"] = 1, time.time() - t0
        return out
    w.add_contract(Contract("jax2onnx.converter.ir_context:<bounded-constants>", kind="custom", custom=custom, props=["C09"], witnesses=["C09_literal_precision_family", "C09_builder_payload_family", "D48"]))


def register_pipeline(w):
    register_bounded_constants(w)
    """conversion_api.to_onnx: every pipeline stage (tracing, constant binding, lowering, finalisation) runs
    with the JAX x64 flag equal to enable_double_precision, in the documented order."""
    from specs import opaque
    from specs.opaque import OPQ
    opaque.install(w)
    STAGES = ["_trace_to_jaxpr", "_create_ir_context", "_bind_closed_jaxpr_constants", "_bind_jaxpr_inputs", "_lower_jaxpr_equations", "_bind_jaxpr_outputs", "_build_and_finalize_ir_model"]

    def cell(ex):
        if "x64" not in ex.ghost:
            ex.ghost["x64"] = z3.Bool("x64_at_entry")
            ex.ghost["x64_0"] = ex.ghost["x64"]
        return ex.ghost["x64"]

    def stage(name):
        def rec(c: Ctx):
            c.ex.ghost.setdefault("stages", []).append((name, cell(c.ex)))
            return z3.BoolVal(True)
        return rec

    for nm in STAGES:
        w.add_contract(Contract(f"{MC}:{nm}", params={}, ret=Ref(OPQ), assumed=True, may_raise=["AnyException"],
                                ensures=[("ghost_stage", stage(nm))], exc_ensures=[("ghost_stage", stage(nm))],
                                note="pipeline stage: opaque here; what matters is under which x64 setting it runs"))

    def force_cm(ex, c, bound, body_thunk):
        old = cell(ex)
        ex.ghost["x64"] = ex.truthy(bound["enable_double_precision"])
        try:
            body_thunk(NONE)
        finally:
            ex.ghost["x64"] = old  # contract of _force_jax_x64 (verified for all exits in C13): flag as before
    fc = w.contracts.get(f"{MC}:_force_jax_x64")
    if fc is not None:
        fc.cm_contract = force_cm

    def post_stages(c: Ctx):
        st = list(c.ex.ghost.get("stages", []))
        want = c.ex.truthy(c["enable_double_precision"])
        names = [n for n, _ in st]
        conj = [z3.BoolVal(names == STAGES)]
        for n, flag in st:
            conj.append(flag == want)
        return z3.And(conj)

    def exc_stages(c: Ctx):
        st = list(c.ex.ghost.get("stages", []))
        want = c.ex.truthy(c["enable_double_precision"])
        names = [n for n, _ in st]
        return z3.And([z3.BoolVal(names == STAGES[:len(names)])] + [flag == want for _, flag in st])

    def post_flag(c: Ctx):
        return cell(c.ex) == c.ex.ghost["x64_0"]

    params = {k: Ref(OPQ) for k in ("fn", "inputs", "input_params", "record_primitive_calls_file", "inputs_as_nchw", "outputs_as_nchw", "input_names", "output_names", "strict_optimizer_failures")}
    params.update({"model_name": Str, "opset": Int, "enable_double_precision": Bool, "protective_clone": Bool, "normalization_mode": Str})
    w.add_contract(Contract(
        f"{MC}:to_onnx", params=params, ghost_init=lambda ex, env: cell(ex),
        ensures=[("every_stage_runs_under_the_requested_precision_in_order", post_stages), ("x64_flag_as_before", post_flag)],
        exc_ensures=[("stages_so_far_ran_under_the_requested_precision", exc_stages), ("x64_flag_as_before", post_flag)],
        ret=Ref(OPQ), props=["C09", "C13"], opaque_externals=True, witnesses=["C09_function_body_constants_follow_precision"],
    ))


def register_builder_payload(w):
    """IRBuilder.add_initializer_from_scalar: the payload handed to ir.tensor is np.asarray(value) itself when double precision
    is enabled or the value is not floating, and its float32 cast otherwise - in graph mode and in function mode alike."""
    from specs import nparr, ctxmodel, opaque
    from specs.nparr import FARR, K_FLOAT
    from specs.ctxmodel import BLD
    from specs.opaque import OPQ
    opaque.install(w)
    N = nparr.register(w) if getattr(w, "npmodel", None) is None else w.npmodel
    ctxmodel.register(w)
    MB = "jax2onnx.converter.ir_builder"
    w.fields.setdefault((BLD, "_function_mode"), Bool)
    w.fields.setdefault((BLD, "graph"), Ref(OPQ))
    w.fields.setdefault((BLD, "_tape_builder"), Ref(OPQ))
    w.fields.setdefault((BLD, "nodes"), Ref(OPQ))
    as_f32 = w.fn("astype_float32", N.A, N.A)

    def astype_hook(ex, recv, name, args, kw):
        if name == "astype" and N.is_arr(recv) and args and isinstance(args[0], VPy) and args[0].path == "numpy.float32":
            r = as_f32(recv.term)
            ex.assume(z3.And(r != null_of(FARR), N.dkind(r) == K_FLOAT, N.shape(r) == N.shape(recv.term), N.size(r) == N.size(recv.term), N.ndim(r) == N.ndim(recv.term)))
            return (VRef(FARR, r),)
        return None
    w.method_hooks.insert(0, astype_hook)

    def record_payloads(ex, env):
        """ghost: every array handed to ir.tensor while this function runs (wraps whichever model of ir.tensor is installed)"""
        cur = w.path_models.get("onnx_ir.tensor")
        if getattr(cur, "_records_payload", False):
            return

        def rec(ex2, args, kw):
            if args and N.is_arr(args[0]):
                ex2.ghost.setdefault("tensor_payloads", []).append(args[0].term)
            elif "tensor_payloads" in ex2.ghost or (ex2.frames and ex2.frames[0].get("fid", "").endswith("add_initializer_from_scalar")):
                raise OutOfSubset("ir.tensor of something that is not a modelled array")
            return cur(ex2, args, kw) if cur is not None else opaque.fresh_opaque(ex2)
        rec._records_payload = True
        w.path_models["onnx_ir.tensor"] = rec
    mk_shape0 = w.path_models.get("onnx_ir.Shape()")

    def mk_shape(ex, args, kw):
        # ir.Shape(arr.shape): the dims of a numpy shape tuple are not modelled - a shape object with unknown integer dims
        if args and isinstance(args[0], VRef) and args[0].sort == nparr.SHP:
            from specs.ctxmodel import SHAPE, IRDIM
            r = ex.new_object(SHAPE, "irshape")
            d = ex.fresh("npdims", Seq(IRDIM))
            ex.assume(d.length >= 0)
            ex.write_field(r, "dims", d)
            return r
        return mk_shape0(ex, args, kw)
    if mk_shape0 is not None:
        w.path_models["onnx_ir.Shape()"] = mk_shape

    local_const_view = Contract("jax2onnx.ir_utils:const_value_to_numpy", params={"value": Ref(OPQ)}, ret=Opt(Ref(FARR)), assumed=True,
                                note="numpy view of a value's constant payload, or None")

    # only while add_initializer_from_scalar is verified: there the argument is a dtype of the array model (specs/nparr.py), while the policy
    # function is under contract over the dtype table (specs/npdtype.py); everywhere else _dtype_to_ir is executed from its source
    local_dtype_to_ir = Contract(f"{MB}:_dtype_to_ir", params={"dtype": Ref(nparr.DT), "enable_double": Bool}, ret=Enum("DataType"), assumed=True,
                                 note="declared element type of the Constant value in function mode; does not influence the payload")

    local_stacktrace = Contract(f"{MB}:IRBuilder._maybe_attach_stacktrace_to_nodes", params={"self": Ref(BLD), "nodes": Ref(OPQ)}, ret=NoneT, assumed=True,
                                note="debug metadata on freshly created nodes; no effect on payloads")

    def post_payload(c: Ctx):
        ex = c.ex
        got = ex.ghost.get("tensor_payloads", [])
        a0 = c["value"].term
        dbl = ex.truthy(ex.read_field(c["self"], "enable_double_precision", heap=c.old_heap) if False else ex.read_field(c["self"], "enable_double_precision"))
        want = z3.If(z3.And(z3.Not(dbl), N.dkind(a0) == K_FLOAT), as_f32(a0), a0)
        if len(got) > 1:
            return z3.BoolVal(False)
        if not got:
            return z3.BoolVal(True)       # the existing-initializer path stores nothing new
        return got[0] == want

    c_payload = Contract(
        f"{MB}:IRBuilder.add_initializer_from_scalar", params={"self": Ref(BLD), "name": Str, "value": Ref(FARR)},
        ensures=[("stored_payload_follows_the_precision_policy_in_every_mode", post_payload)], raises={"ValueError"}, ret=Ref(OPQ),
        props=["C09"], opaque_externals=True, witnesses=["C09_builder_payload_family"], ghost_init=record_payloads,
    )
    c_payload.local_contracts = {f"{MB}:_dtype_to_ir": local_dtype_to_ir, "jax2onnx.ir_utils:const_value_to_numpy": local_const_view,
                                 f"{MB}:IRBuilder._maybe_attach_stacktrace_to_nodes": local_stacktrace}
    w.add_contract(c_payload)
