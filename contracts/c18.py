"""C18 — the bundled validation helper is a sound oracle (_run_allclose)."""
from __future__ import annotations

import z3

from pyvc.vals import *  # noqa
from pyvc.core import *  # noqa
from pyvc.world import Contract, Ctx
from pyvc.stmts import LoopSpec
from specs import nparr
from specs.nparr import FARR, K_FLOAT, K_COMPLEX, FIN, NAN
from specs.opaque import OPQ

MU = "jax2onnx.user_interface"


def register(w):
    N = nparr.register(w)
    OUTS = Seq(Ref(FARR))

    for nm in ("_build_ort_inputs", "_to_jax_array", "_to_jax_kwarg"):
        w.add_contract(Contract(f"{MU}:{nm}", ret=Ref(OPQ), assumed=True, note="feeds/JAX arguments: opaque to the comparison", props=[], params={}))

    def is_float(a):
        return z3.Or(N.dkind(a) == K_FLOAT, N.dkind(a) == K_COMPLEX)

    def close(e, g, rtol, atol):
        """the property's notion: both NaN, or both the same infinity, or finite and
        |e-g| <= atol + rtol*|g| with g the value ONNX Runtime returned"""
        (c1, v1), (c2, v2) = e, g
        d = v1 - v2
        absd = z3.If(d >= 0, d, -d)
        absg = z3.If(v2 >= 0, v2, -v2)
        return z3.Or(z3.And(c1 == NAN, c2 == NAN), z3.And(c1 == FIN, c2 == FIN, absd <= atol + rtol * absg), z3.And(c1 == c2, c1 != FIN, c1 != NAN))

    def match(e, g, rtol, atol):
        j = z3.Int("j!m")
        rng = z3.And(0 <= j, j < N.size(e))
        real_pair = z3.And(N.dkind(e) != K_COMPLEX, N.dkind(g) != K_COMPLEX)
        return z3.And(
            z3.Implies(real_pair, N.shape(e) == N.shape(g)),
            z3.Implies(z3.And(real_pair, z3.Or(is_float(e), is_float(g))), z3.ForAll([j], z3.Implies(rng, close(N.el(e, j), N.el(g, j), rtol, atol)))),
            z3.Implies(z3.And(real_pair, z3.Not(is_float(e)), z3.Not(is_float(g))), z3.ForAll([j], z3.Implies(rng, N.e_eq(N.el(e, j), N.el(g, j))))),
        )

    def all_match(J: VSeq, O: VSeq, upto, rtol, atol):
        k = z3.Int("k!am")
        return z3.ForAll([k], z3.Implies(z3.And(0 <= k, k < upto), match(z3.Select(J.arrs[0], k), z3.Select(O.arrs[0], k), rtol, atol)))

    def inv(lc):
        J, O = lc["jax_outputs"], lc["ort_outputs"]
        return [("outputs_so_far_match", all_match(J, O, lc.idx, lc["rtol"].term, lc["atol"].term))]

    def post(c: Ctx):
        r = c.result
        ok = r.items[0]
        J, O = c.env.lookup("jax_outputs"), c.env.lookup("ort_outputs")
        if J is None or O is None or not isinstance(J, VSeq):
            return z3.Not(ex_truth(c, ok))  # returned before the outputs existed: must not report a match
        return z3.Implies(ex_truth(c, ok), z3.And(J.length == O.length, all_match(J, O, J.length, c["rtol"].term, c["atol"].term)))

    def ex_truth(c, v):
        return c.ex.truthy(v)

    w.add_contract(Contract(
        f"{MU}:_run_allclose",
        params={"fn": Ref(OPQ), "model_path": Str, "xs": Seq(Ref(OPQ)), "params": Const(VDict([])), "rtol": Real, "atol": Real,
                "inputs_as_nchw": Const(NONE), "outputs_as_nchw": Const(NONE)},
        requires=[("tolerances_nonnegative", lambda c: z3.And(c["rtol"].term >= 0, c["atol"].term >= 0))],
        local_types={"ort_outputs": OUTS, "jax_outputs": OUTS},
        loops={1: LoopSpec(invariant=inv, label="compare-outputs")},
        ensures=[("match_implies_count_shape_and_every_element_within_tolerance", post)],
        ret=Tup(Bool, Str), props=["C18"], opaque_externals=True,
        witnesses=["D9a", "D9b", "D9c", "D9d", "C18_nan_vs_finite", "C18_inf_vs_finite", "C18_shape_mismatch", "C18_count_mismatch", "C18_beyond_tolerance"],
    ))

    # ---- bounded stand-in (never counted as proved): feed construction
    def bounded_feeds(world, c, out):
        import time
        from pyvc.run import run_witness
        t0 = time.time()
        holds, detail = run_witness("C18_feed_construction_family", timeout=600)
        d = {"oid": f"{MU}:_build_ort_inputs#bounded:every_session_input_gets_its_parameter_or_the_next_positional_array", "kind": "bounded",
             "status": "discharged" if holds else ("refuted" if holds is False else "unknown"), "backend": "enumerated", "time": time.time() - t0, "instances": 1, "trivial": 0,
             "bounded": "0..4 session inputs x every subset supplied as named parameters x 0..5 positional arrays",
             "note": f"_build_ort_inputs (iterator protocol over the positional arrays) is opaque to the _run_allclose contract; the real function is run on an enumerated family of fake sessions; {detail}"[:400]}
        if holds is False:
            d.update(args={"witness": "C18_feed_construction_family"}, replay={"reproduced": True, "detail": detail}, formula="", model=detail)
        out["obls"].append(d)
        out["paths"], out["time"] = 1, time.time() - t0
        return out
    w.add_contract(Contract(f"{MU}:<bounded-feeds>", kind="custom", custom=bounded_feeds, props=["C18"], witnesses=["C18_feed_construction_family"]))
