"""C04 — symbolic-shape exports are right for every binding: LowerDimExpr.

For one arbitrary, fixed binding β of the symbols to integers, every ir.Value
emitted by LowerDimExpr is a one-element int64 vector; ival(v) is that
element.  Contracts state ival(result) = sem(argument), where `sem` is the
semantics of JAX dimension expressions written from JAX's documentation:

  sem_e(e) = Σ_k coeff_k · sem_t(term_k)
  sem_t(t) = Π_k ipow(sem_f(factor_k), power_k)          (empty product = 1)
  sem_f(f) = β(var)                                        if operation is None
           = ⌊sem_o(a)/sem_o(b)⌋ | sem_o(a) mod sem_o(b) | max | min   otherwise  (Python floor semantics)
  sem_o(x) = x if int else sem_e(x)

ONNX integer operator semantics (A11): Div truncates toward zero, Mod (fmod=0)
takes the sign of the divisor, Add/Sub/Mul/Max/Min/Pow as in ℤ,
Shape(v)[axis:axis+1] is the run-time extent of v at axis.
"""
from __future__ import annotations

import z3

from pyvc.vals import *  # noqa
from pyvc.core import *  # noqa
from pyvc.exprs import py_floordiv, py_mod
from pyvc.world import Contract, Ctx
from pyvc.stmts import LoopSpec
from specs import ctxmodel
from specs.ctxmodel import CTX, BLD, VALUE

ML = "jax2onnx.converter.lower_dimexpr"
LDE, DE, DT_, DF, ORG = "LowerDimExpr", "DimExpr", "DimTerm", "DimFactor", "SymOrigin"
OPERAND = Dyn("int", "ref:" + DE)


def tdiv(a, b):
    """ONNX integer Div: truncation toward zero (b != 0)"""
    absa, absb = z3.If(a >= 0, a, -a), z3.If(b >= 0, b, -b)
    q = absa / absb
    return z3.If((a >= 0) == (b > 0), q, -q)


def register(w):
    M = ctxmodel.register(w)
    sel = z3.Select
    f = w.fields
    f[(LDE, "ctx")] = Ref(CTX)
    f[(DE, "_sorted_terms")] = Seq(Tup(Ref(DT_), Int))
    f[(DT_, "_factors")] = Seq(Tup(Ref(DF), Int))
    f[(DT_, "is_constant")] = Bool
    f[(DF, "operation")] = Opt(Str)
    f[(DF, "var")] = Dyn("str", "none")
    f[(DF, "operands")] = Seq(OPERAND)
    f[(ORG, "value")] = Ref(VALUE)
    f[(ORG, "axis")] = Int
    w.repo_classes = dict(getattr(w, "repo_classes", {}))
    w.repo_classes[LDE] = (ML, "LowerDimExpr")
    w.ref_classes[DE] = {"jax2onnx.utils.shape_poly.DimExprLike"}
    V, E, T, F = ref_sort(VALUE), ref_sort(DE), ref_sort(DT_), ref_sort(DF)
    ival = w.fn("ival", V, z3.IntSort())
    beta = w.fn("beta", z3.StringSort(), z3.IntSort())
    dimval = w.fn("runtime_dim", V, z3.IntSort(), z3.IntSort())
    sem_e, sem_t, sem_f = w.fn("sem_e", E, z3.IntSort()), w.fn("sem_t", T, z3.IntSort()), w.fn("sem_f", F, z3.IntSort())
    sum_to = w.fn("sum_to", E, z3.IntSort(), z3.IntSort())
    prod_to = w.fn("prod_to", T, z3.IntSort(), z3.IntSort())
    ipow = w.fn("ipow", z3.IntSort(), z3.IntSort(), z3.IntSort())
    reprE, reprT, reprF = w.fn("str_of_expr", E, z3.StringSort()), w.fn("str_of_term", T, z3.StringSort()), w.fn("str_of_factor", F, z3.StringSort())
    x, p = z3.Ints("x!p p!p")
    w.add_axiom(z3.ForAll([x], ipow(x, 1) == x, patterns=[ipow(x, 1)]))
    w.trust("A11: ONNX int64 Div truncates toward zero, Mod(fmod=0) has the sign of the divisor, Add/Sub/Mul/Max/Min/Pow as in Z; Shape(v)[a:a+1] is the run-time extent (ONNX operator documentation); A-int64: no overflow")
    w.trust("operations inside dimension expressions are floordiv/mod/max/min (any other operation is rejected by _convert_op with RuntimeError: loud)")
    w.trust("JAX dimension expressions: normal form sum of coeff*term, term = product of factor**power, factor = symbol or floordiv/mod/max/min of operands with Python floor semantics (jax.export shape polymorphism documentation); a constant term has no factors; an expression has at least one term")

    # ---- str() of expression objects (used in cache keys)
    def str_hook(ex, v):
        if isinstance(v, VRef) and v.sort == DE:
            return VStr(reprE(v.term))
        if isinstance(v, VRef) and v.sort == DT_:
            return VStr(reprT(v.term))
        if isinstance(v, VRef) and v.sort == DF:
            return VStr(reprF(v.term))
        if isinstance(v, VTuple):
            parts = [z3.StringVal("(")]
            for i, it in enumerate(v.items):
                if i:
                    parts.append(z3.StringVal(", "))
                parts.append(ex.to_str(it).term)  # repr == str for ints and for these objects
            if len(v.items) == 1:
                parts.append(z3.StringVal(","))
            parts.append(z3.StringVal(")"))
            return VStr(z3.Concat(*parts))
        if isinstance(v, VSeq):
            return VStr(ex.world.fn("str_of_operands", *[a.sort() for a in v.arrs], z3.IntSort(), z3.StringSort())(*v.arrs, v.length))
        return None
    w.str_hooks.append(str_hook)

    # ---- semantic axioms over the current heap (instantiated in `requires`)
    def semantics(c: Ctx):
        ex = c.ex
        e, t, fct, k = z3.Const("e!s", E), z3.Const("t!s", T), z3.Const("f!s", F), z3.Int("k!s")
        terms = ex.heap_arrays(DE, "_sorted_terms")     # [term arr, coeff arr, len]
        facs = ex.heap_arrays(DT_, "_factors")          # [factor arr, power arr, len]
        opn = ex.heap_arrays(DF, "operation")           # [isnone, str]
        var = ex.heap_arrays(DF, "var")                 # [tag, str]
        ops = ex.heap_arrays(DF, "operands")            # [tag, int, expr, len]
        is_const = ex.heap_arrays(DT_, "is_constant")[0]

        def operand(fc, j):
            tag, iv, ev = sel(sel(ops[0], fc), j), sel(sel(ops[1], fc), j), sel(sel(ops[2], fc), j)
            return z3.If(tag == 0, iv, sem_e(ev))
        a, b = operand(fct, 0), operand(fct, 1)
        opname = sel(opn[1], fct)
        return z3.And(
            z3.ForAll([e], z3.And(sel(terms[2], e) >= 1, sum_to(e, 0) == 0, sem_e(e) == sum_to(e, sel(terms[2], e))), patterns=[sem_e(e)]),
            z3.ForAll([t], z3.And(sel(facs[2], t) >= 0, prod_to(t, 0) == 1, sem_t(t) == prod_to(t, sel(facs[2], t)), sel(is_const, t) == (sel(facs[2], t) == 0)), patterns=[sem_t(t)]),
            z3.ForAll([fct], z3.If(sel(opn[0], fct),
                                   z3.And(sel(var[0], fct) == 0, sem_f(fct) == beta(sel(var[1], fct))),
                                   z3.And(sel(ops[3], fct) == 2,
                                          z3.Or([opname == z3.StringVal(o) for o in ("floordiv", "mod", "max", "min")]),
                                          z3.Implies(opname == z3.StringVal("floordiv"), z3.And(b != 0, sem_f(fct) == py_floordiv(a, b))),
                                          z3.Implies(opname == z3.StringVal("mod"), z3.And(b != 0, sem_f(fct) == py_mod(a, b))),
                                          z3.Implies(opname == z3.StringVal("max"), sem_f(fct) == z3.If(a >= b, a, b)),
                                          z3.Implies(opname == z3.StringVal("min"), sem_f(fct) == z3.If(a <= b, a, b)))), patterns=[sem_f(fct)]),
        )
    w.c04_semantics = semantics

    # ground instances of the two recursive definitions (sum over terms, product over factors)
    def unfold_sum(ex, e, k):
        terms = ex.heap_arrays(DE, "_sorted_terms")
        return z3.And(sum_to(e, 0) == 0, z3.Implies(k >= 0, sum_to(e, k + 1) == sum_to(e, k) + sel(sel(terms[1], e), k) * sem_t(sel(sel(terms[0], e), k))))

    def unfold_prod(ex, t, k):
        facs = ex.heap_arrays(DT_, "_factors")
        step = ipow(sem_f(sel(sel(facs[0], t), k)), sel(sel(facs[1], t), k))
        return z3.And(prod_to(t, 0) == 1, z3.Implies(k == 0, prod_to(t, 1) == step), z3.Implies(k >= 0, prod_to(t, k + 1) == prod_to(t, k) * step))
    w.c04_unfold = (unfold_sum, unfold_prod)

    # ---- ONNX integer semantics of emitted operators
    def emit_semantics(ex, op, args, kw, out):
        vals = [a for a in args if isinstance(a, VRef) and a.sort == VALUE]
        o = ival(out.term)
        if op in ("Add", "Sub", "Mul", "Div", "Mod", "Pow", "Max", "Min") and len(vals) == 2 and len(args) == 2:
            a, b = ival(vals[0].term), ival(vals[1].term)
            r = {"Add": a + b, "Sub": a - b, "Mul": a * b, "Div": tdiv(a, b), "Mod": py_mod(a, b), "Pow": ipow(a, b),
                 "Max": z3.If(a >= b, a, b), "Min": z3.If(a <= b, a, b)}[op]
            ex.assume(o == r)
        elif op == "Shape" and len(vals) == 1 and "start" in kw and "end" in kw:
            s, e_ = ex.as_int_term(kw["start"]), ex.as_int_term(kw["end"])
            ex.assume(z3.Implies(e_ == s + 1, o == dimval(vals[0].term, s)))
    w.emit_semantics = emit_semantics

    # ---- assumed helpers
    w.add_contract(Contract(
        "jax2onnx.plugins.jax.lax._index_utils:_const_i64", params={"ctx": Ref(CTX), "values": Seq(Int), "name_hint": Opt(Str), "name": Opt(Str)},
        ret=Ref(VALUE), assumed=True, fresh_result=True,
        ensures=[("holds_the_values", lambda c: z3.Implies(c["values"].length == 1, ival(c.result.term) == sel(c["values"].arrs[0], 0)))],
        note="creates an int64 constant holding exactly the given values",
    ))
    for nm, params in (("_stamp_type_and_shape", {"v": Ref(VALUE), "dims": Seq(Int)}), ("_ensure_value_metadata", {"ctx": Ref(CTX), "v": Opt(Ref(VALUE))})):
        w.add_contract(Contract(f"jax2onnx.plugins._ir_shapes:{nm}", params=params, ret=NoneT, assumed=True, modifies=[(VALUE, "shape"), (VALUE, "type")], note="metadata stamping (C08)"))

    def post_origin(c: Ctx):
        r = c.result
        if isinstance(r, VNone):
            return z3.BoolVal(True)
        dim = c["dim"]
        if not isinstance(dim, VStr):
            return z3.BoolVal(True)
        return dimval(c.field(r, "value").term, c.field(r, "axis").term) == beta(dim.term)

    w.add_contract(Contract(
        "jax2onnx.converter.ir_context:IRContext.get_symbolic_dim_origin", params={"self": Ref(CTX), "dim": Dyn("str", "ref:" + DE)},
        ret=Opt(Ref(ORG)), assumed=True, ensures=[("origin_invariant", post_origin)],
        note="OriginInv: a recorded origin (value, axis) of symbol s satisfies runtime_dim(value, axis) = β(s); established by record_symbolic_dim_origins under its call-site precondition (C05/C12 contracts) and truthful declared input shapes",
    ))

    # ---- the memo cache: mixed int / str keys; meaning of a key is fixed by its kind-tagged pattern
    CACHE = VPy(obj=("lde_cache",))
    f[(LDE, "cache_int")] = MapT(Int, Ref(VALUE))
    f[(LDE, "cache_str")] = MapT(Str, Ref(VALUE))
    key_meaning = w.fn("key_meaning", z3.StringSort(), z3.IntSort())

    def lde_getattr(ex, base, attr):
        if base.sort == LDE and attr == "compute_cache":
            m = VPy(obj=("lde_cache", base))
            return m
        return None
    w.ref_getattr_hooks.append(lde_getattr)

    def is_cache(v):
        return isinstance(v, VPy) and isinstance(v.obj, tuple) and v.obj and v.obj[0] == "lde_cache"

    def cache_maps(ex, cache, key):
        self_v = cache.obj[1]
        if isinstance(key, VInt):
            return ex.read_field(self_v, "cache_int"), "cache_int", self_v
        if isinstance(key, VStr):
            return ex.read_field(self_v, "cache_str"), "cache_str", self_v
        raise OutOfSubset(f"cache key {key!r}")

    def contains_hook(ex, item, cont):
        if not is_cache(cont):
            return None
        m, _, _ = cache_maps(ex, cont, item)
        ex.events.append(("cache_key", item))
        return sel(m.present, pack(item, m.k)[0])
    w.contains_hooks.append(contains_hook)

    def getitem_hook(ex, base, idx):
        if not is_cache(base):
            return None
        m, _, _ = cache_maps(ex, base, idx)
        k = pack(idx, m.k)[0]
        if ex.branch(z3.Not(sel(m.present, k))):
            raise PyRaise("KeyError")
        v = VRef(VALUE, sel(m.arrs[0], k))
        return v
    w.getitem_hooks.append(getitem_hook)

    def setitem_hook(ex, base, idx, v):
        if not is_cache(base):
            return False
        m, field, self_v = cache_maps(ex, base, idx)
        k = pack(idx, m.k)[0]
        m.present = z3.Store(m.present, k, z3.BoolVal(True))
        m.arrs = [z3.Store(m.arrs[0], k, v.term)]
        ex.write_field(self_v, field, m)
        # obligation: what is stored under a key has the meaning the key stands for
        fid = ex.frames[-1]["fid"] if ex.frames else "?"
        if isinstance(idx, VInt):
            ex.oblige(f"{fid}#cache:int_key_holds_its_value", "inv-step", ival(v.term) == idx.term)
        else:
            ex.oblige(f"{fid}#cache:stored_value_has_the_meaning_of_its_key", "inv-step", ival(v.term) == key_meaning(idx.term))
        return True
    w.setitem_hooks.append(setitem_hook)

    def cache_inv(c_or_ex, self_term):
        ex = c_or_ex
        ci, cs = ex.heap_arrays(LDE, "cache_int"), ex.heap_arrays(LDE, "cache_str")
        n, s = z3.Int("n!ci"), z3.String("s!cs")

        def has_ite(t):
            stack, seen = [t], set()
            while stack:
                x = stack.pop()
                if x.get_id() in seen:
                    continue
                seen.add(x.get_id())
                if z3.is_app_of(x, z3.Z3_OP_ITE):
                    return True
                stack.extend(x.children())
            return False

        def q(vs, body, pat):
            if has_ite(pat):
                return z3.ForAll(vs, body)
            return z3.ForAll(vs, body, patterns=[pat])
        return z3.And(
            q([n], z3.Implies(sel(sel(ci[0], self_term), n), ival(sel(sel(ci[1], self_term), n)) == n), sel(sel(ci[0], self_term), n)),
            q([s], z3.Implies(sel(sel(cs[0], self_term), s), ival(sel(sel(cs[1], self_term), s)) == key_meaning(s)), sel(sel(cs[0], self_term), s)),
        )

    # meaning of the kind-tagged keys.  Consistent only if patterns of different kinds never collide:
    # that disjointness is a LEMMA obligation (below), extracted from the key expressions the code builds.
    def key_axioms(patterns):
        axs = []
        e, t, fct = z3.Const("e!k", E), z3.Const("t!k", T), z3.Const("f!k", F)
        pw, co = z3.Int("pw!k"), z3.Int("co!k")
        nm = z3.String("nm!k")
        if "expr" in patterns:
            axs.append(z3.ForAll([e], key_meaning(patterns["expr"](e)) == sem_e(e)))
        if "term" in patterns:
            axs.append(z3.ForAll([t], key_meaning(patterns["term"](t)) == sem_t(t)))
        if "term_with_coeff" in patterns:
            axs.append(z3.ForAll([t, co], key_meaning(patterns["term_with_coeff"](t, co)) == co * sem_t(t)))
        if "factor" in patterns:
            axs.append(z3.ForAll([fct, pw], key_meaning(patterns["factor"](fct, pw)) == ipow(sem_f(fct), pw)))
        return axs

    w.c04 = dict(ival=ival, beta=beta, dimval=dimval, sem_e=sem_e, sem_t=sem_t, sem_f=sem_f, sum_to=sum_to, prod_to=prod_to, ipow=ipow,
                 key_meaning=key_meaning, cache_inv=cache_inv, reprE=reprE, reprT=reprT, reprF=reprF, key_axioms=key_axioms, semantics=semantics)
    register_methods(w)
    register_methods2(w)


def register_methods(w):
    C = w.c04
    M = w.ctxmodel
    sel = z3.Select
    ival, beta, sem_e, sem_t, sem_f, sum_to, prod_to, ipow, key_meaning = (C[k] for k in ("ival", "beta", "sem_e", "sem_t", "sem_f", "sum_to", "prod_to", "ipow", "key_meaning"))
    reprE, reprT, reprF = C["reprE"], C["reprT"], C["reprF"]
    E, T, F = ref_sort(DE), ref_sort(DT_), ref_sort(DF)

    # ---- key patterns, extracted MECHANICALLY from the real source: the expression the code builds as key
    def extract_patterns():
        """symbolically evaluate, in each method, the first expression used as a compute_cache key"""
        import ast
        from pyvc import source as S
        from pyvc.world import Exec
        mod = S.load_module(ML)
        cls = mod.find("LowerDimExpr")
        out = {}
        spec = {"_lower_factor": ("factor", lambda ex: VTuple([VRef(DF, z3.Const("pf", F)), VInt(z3.Int("pp"))])),
                "_lower_term": ("term", lambda ex: VRef(DT_, z3.Const("pt", T))),
                "_lower_term_with_mult": ("term_with_coeff", lambda ex: VTuple([VRef(DT_, z3.Const("pt", T)), VInt(z3.Int("pc"))])),
                "_lower_expr": ("expr", lambda ex: VRef(DE, z3.Const("pe", E)))}
        for st in cls.body:
            if isinstance(st, ast.FunctionDef) and st.name in spec:
                kind, mk = spec[st.name]
                argname = st.args.args[1].arg
                key_node = None
                for n in ast.walk(st):
                    if isinstance(n, ast.Compare) and len(n.ops) == 1 and isinstance(n.ops[0], ast.In) and isinstance(n.comparators[0], ast.Attribute) and n.comparators[0].attr == "compute_cache":
                        key_node = n.left
                        break
                if key_node is None:
                    raise S.ToolError(f"{ML}:LowerDimExpr.{st.name}: no compute_cache membership test found")
                ex = Exec(w)
                ex.begin_path([])
                ex.frames.append({"fid": "pattern", "loops": [], "loop_specs": {}})
                env = Env(module=mod)
                env.vars[argname] = mk(ex)
                # the key may be a local assigned just before: evaluate simple preceding assignments
                for s2 in st.body:
                    if isinstance(s2, ast.Assign) and len(s2.targets) == 1 and isinstance(s2.targets[0], ast.Name) and isinstance(s2.value, (ast.JoinedStr, ast.Call, ast.Name)):
                        try:
                            env.vars[s2.targets[0].id] = ex.ev(s2.value, env)
                        except Exception:
                            pass
                    if any(n is key_node for n in ast.walk(s2)):
                        break
                out[kind] = ex.ev(key_node, env).term
        pf, pp, pt, pc, pe = z3.Const("pf", F), z3.Int("pp"), z3.Const("pt", T), z3.Int("pc"), z3.Const("pe", E)
        pats = {}
        if "factor" in out:
            pats["factor"] = lambda f_, p_: z3.substitute(out["factor"], (pf, f_), (pp, p_))
        if "term" in out:
            pats["term"] = lambda t_: z3.substitute(out["term"], (pt, t_))
        if "term_with_coeff" in out:
            pats["term_with_coeff"] = lambda t_, c_: z3.substitute(out["term_with_coeff"], (pt, t_), (pc, c_))
        if "expr" in out:
            pats["expr"] = lambda e_: z3.substitute(out["expr"], (pe, e_))
        return pats

    _pat_cache = {}

    def patterns():
        if "p" not in _pat_cache:
            _pat_cache["p"] = extract_patterns()
        return _pat_cache["p"]

    def disjoint_clauses():
        """no key of one kind can equal a key of another kind (so `key_meaning` is well defined);
        identifiers (symbol names, op names) contain no '#', '(' or ' '."""
        P = patterns()
        f1, t1, t2, e1 = z3.Const("f1", F), z3.Const("t1", T), z3.Const("t2", T), z3.Const("e1", E)
        p1, c1 = z3.Int("p1"), z3.Int("c1")
        keys = {"factor": P["factor"](f1, p1), "term": P["term"](t1), "term_with_coeff": P["term_with_coeff"](t2, c1), "expr": P["expr"](e1)}
        kinds = sorted(keys)
        out = []
        for i in range(len(kinds)):
            for j in range(i + 1, len(kinds)):
                out.append((f"{kinds[i]}_vs_{kinds[j]}", keys[kinds[i]] != keys[kinds[j]]))
        name = z3.String("sym")
        ident = z3.InRe(name, z3.Plus(z3.Union(z3.Range("a", "z"), z3.Range("A", "Z"), z3.Range("0", "9"), z3.Re("_"))))
        opk = z3.Concat(z3.String("opname"), z3.StringVal("#"), z3.String("rest"))
        handled = z3.Or([z3.String("opname") == z3.StringVal(o) for o in ("floordiv", "max", "min", "mod")])
        for k in kinds:
            out.append((f"{k}_vs_symbol_name", z3.Implies(ident, keys[k] != name)))
            out.append((f"{k}_vs_op_key", z3.Implies(handled, keys[k] != opk)))
        out.append(("symbol_name_vs_op_key", z3.Implies(z3.And(ident, handled), name != opk)))
        return out

    names = ["expr_vs_factor", "expr_vs_term", "expr_vs_term_with_coeff", "factor_vs_term", "factor_vs_term_with_coeff", "term_vs_term_with_coeff",
             "expr_vs_symbol_name", "expr_vs_op_key", "factor_vs_symbol_name", "factor_vs_op_key", "term_vs_symbol_name", "term_vs_op_key",
             "term_with_coeff_vs_symbol_name", "term_with_coeff_vs_op_key", "symbol_name_vs_op_key"]

    def clause(nm):
        return lambda world: dict(disjoint_clauses())[nm]

    w.add_contract(Contract(f"{ML}:LowerDimExpr.<cache-keys>", kind="lemma", ensures=[(nm, clause(nm)) for nm in names], props=["C04"], witnesses=["D6"]))

    def key_instance(c: Ctx, q):
        """meaning of THIS call's cache key (ground instance of the per-kind key definition)"""
        P = patterns()
        if q == "_lower_factor":
            fct, pw = c["factor"].items
            return key_meaning(P["factor"](fct.term, pw.term)) == ipow(sem_f(fct.term), pw.term)
        if q == "_lower_term":
            return key_meaning(P["term"](c["term"].term)) == sem_t(c["term"].term)
        if q == "_lower_term_with_mult":
            t, co = c["term"].items
            return key_meaning(P["term_with_coeff"](t.term, co.term)) == co.term * sem_t(t.term)
        if q == "_lower_expr" and isinstance(c["expr"], VRef):
            return key_meaning(P["expr"](c["expr"].term)) == sem_e(c["expr"].term)
        return z3.BoolVal(True)

    def req_for(q):
        def req(c: Ctx):
            return z3.And(C["semantics"](c), C["cache_inv"](c.ex, c["self"].term))
        return req
    req = req_for("")

    def defs_for(q):
        return [("meaning_of_this_cache_key", lambda c: key_instance(c, q))]
    w.c04_defs_for = defs_for

    def post_inv(c: Ctx):
        return C["cache_inv"](c.ex, c["self"].term)

    MODS = [(LDE, "cache_int"), (LDE, "cache_str"), (VALUE, "shape"), (VALUE, "type"), (VALUE, "name")]
    w.c04_req, w.c04_post_inv, w.c04_mods, w.c04_req_for = req, post_inv, MODS, req_for
    common = dict(requires=[("semantics_and_cache_invariant", req)], modifies=MODS, props=["C04"], witnesses=["D5", "D6", "C04_dimexpr_family"])

    def cls(name):
        return f"{ML}:LowerDimExpr.{name}"

    # _get_scalar(k): denotes k
    w.add_contract(Contract(cls("_get_scalar"), params={"self": Ref(LDE), "scalar": Int},
                            ensures=[("denotes_the_scalar", lambda c: ival(c.result.term) == c["scalar"].term), ("cache_invariant", post_inv)],
                            raises=set(), ret=Ref(VALUE), **common))

    # _get_dim_value(name): denotes β(name), or raises ValueError when there is no origin
    w.add_contract(Contract(cls("_get_dim_value"), params={"self": Ref(LDE), "name": Str},
                            requires=[("semantics_and_cache_invariant", req)], modifies=MODS,
                            definitions=[("symbol_name_key_means_the_symbol", lambda c: key_meaning(c["name"].term) == beta(c["name"].term))], props=["C04", "C16"], witnesses=["C04_dimexpr_family"],
                            ensures=[("denotes_the_symbol", lambda c: ival(c.result.term) == beta(c["name"].term)), ("cache_invariant", post_inv)],
                            raises={"ValueError"}, ret=Ref(VALUE)))
    w.add_contract(Contract(cls("_set_metadata"), params={"self": Ref(LDE), "value": Ref(VALUE), "size": Int}, ret=NoneT, assumed=True,
                            modifies=[(VALUE, "shape"), (VALUE, "type")], note="stamps int64/(size,) metadata (C08)"))

    # _convert_op(name, [a, b])
    def post_convert(c: Ctx):
        ops = c["operands"]
        a, b = ival(sel(ops.arrs[0], 0)), ival(sel(ops.arrs[0], 1))
        nm, r = c["name"].term, ival(c.result.term)
        return z3.And(
            z3.Implies(nm == z3.StringVal("floordiv"), r == py_floordiv(a, b)),
            z3.Implies(nm == z3.StringVal("mod"), r == py_mod(a, b)),
            z3.Implies(nm == z3.StringVal("max"), r == z3.If(a >= b, a, b)),
            z3.Implies(nm == z3.StringVal("min"), r == z3.If(a <= b, a, b)),
        )

    w.add_contract(Contract(cls("_convert_op"), params={"self": Ref(LDE), "name": Str, "operands": Seq(Ref(VALUE))},
                            requires=[("two_operands_nonzero_divisor", lambda c: z3.And(c["operands"].length == 2, z3.Implies(z3.Or(c["name"].term == z3.StringVal("floordiv"), c["name"].term == z3.StringVal("mod")), ival(sel(c["operands"].arrs[0], 1)) != 0)))],
                            ensures=[("python_floor_semantics", post_convert)], raises={"RuntimeError"}, ret=Ref(VALUE),
                            modifies=[(VALUE, "shape"), (VALUE, "type"), (VALUE, "name")], props=["C04"], witnesses=["D5", "C04_dimexpr_family"]))


def register_methods2(w):
    C = w.c04
    sel = z3.Select
    ival, beta, sem_e, sem_t, sem_f, sum_to, prod_to, ipow, key_meaning = (C[k] for k in ("ival", "beta", "sem_e", "sem_t", "sem_f", "sum_to", "prod_to", "ipow", "key_meaning"))
    req, post_inv, MODS, req_for = w.c04_req, w.c04_post_inv, w.c04_mods, w.c04_req_for

    def cls(name):
        return f"{ML}:LowerDimExpr.{name}"

    def common_for(q):
        return dict(requires=[("semantics_and_cache_invariant", req_for(q))], definitions=w.c04_defs_for(q), modifies=MODS, props=["C04"], witnesses=["D5", "D6", "C04_dimexpr_family"])

    def operand_sem(c, x):
        if isinstance(x, VInt):
            return x.term
        return sem_e(x.term)

    # _lower_expr(expr | int)
    def post_expr(c: Ctx):
        e = c["expr"]
        return ival(c.result.term) == (e.term if isinstance(e, VInt) else sem_e(e.term))

    def inv_expr(lc):
        e = lc["expr"]
        return [("prefix_sum", ival(lc["result_value"].term) == sum_to(e.term, 1 + lc.idx)), ("cache_invariant", C["cache_inv"](lc.ex, lc["self"].term))]

    unfold_sum, unfold_prod = w.c04_unfold

    def hints_expr(lc):
        e = lc["expr"].term
        return [unfold_sum(lc.ex, e, z3.IntVal(0)), unfold_sum(lc.ex, e, 1 + lc.idx)]

    def hints_term(lc):
        t = lc["term"].term
        return [unfold_prod(lc.ex, t, z3.IntVal(0)), unfold_prod(lc.ex, t, 1 + lc.idx)]

    w.add_contract(Contract(cls("_lower_expr"), params={"self": Ref(LDE), "expr": OPERAND},
                            loops={0: LoopSpec(invariant=inv_expr, label="terms", havoc_fields=MODS, hints=hints_expr)},
                            ensures=[("denotes_the_expression", post_expr), ("cache_invariant", post_inv)], ret=Ref(VALUE), **common_for("_lower_expr")))

    # _lower_term_with_mult((term, coeff))
    w.add_contract(Contract(cls("_lower_term_with_mult"), params={"self": Ref(LDE), "term": Tup(Ref(DT_), Int)},
                            ensures=[("denotes_coeff_times_term", lambda c: ival(c.result.term) == c["term"].items[1].term * sem_t(c["term"].items[0].term)), ("cache_invariant", post_inv)],
                            ret=Ref(VALUE), **common_for("_lower_term_with_mult")))

    # _lower_term(term)
    def inv_term(lc):
        t = lc["term"]
        return [("prefix_product", ival(lc["result_value"].term) == prod_to(t.term, 1 + lc.idx)), ("cache_invariant", C["cache_inv"](lc.ex, lc["self"].term))]

    w.add_contract(Contract(cls("_lower_term"), params={"self": Ref(LDE), "term": Ref(DT_)},
                            loops={0: LoopSpec(invariant=inv_term, label="factors", havoc_fields=MODS, hints=hints_term)},
                            ensures=[("denotes_the_term", lambda c: ival(c.result.term) == sem_t(c["term"].term)), ("cache_invariant", post_inv)], ret=Ref(VALUE), **common_for("_lower_term")))

    # _lower_factor((factor, power))
    w.add_contract(Contract(cls("_lower_factor"), params={"self": Ref(LDE), "factor": Tup(Ref(DF), Int)},
                            ensures=[("denotes_factor_to_the_power", lambda c: ival(c.result.term) == ipow(sem_f(c["factor"].items[0].term), c["factor"].items[1].term)), ("cache_invariant", post_inv)],
                            raises={"TypeError", "ValueError", "RuntimeError"}, ret=Ref(VALUE), **common_for("_lower_factor")))

    # _lower_op(name, (a, b))
    def post_op(c: Ctx):
        ops = c["operands"]
        def sem_o(j):
            tag, iv, ev = sel(ops.arrs[0], j), sel(ops.arrs[1], j), sel(ops.arrs[2], j)
            return z3.If(tag == 0, iv, sem_e(ev))
        a, b = sem_o(0), sem_o(1)
        nm, r = c["name"].term, ival(c.result.term)
        return z3.And(
            z3.Implies(nm == z3.StringVal("floordiv"), r == py_floordiv(a, b)),
            z3.Implies(nm == z3.StringVal("mod"), r == py_mod(a, b)),
            z3.Implies(nm == z3.StringVal("max"), r == z3.If(a >= b, a, b)),
            z3.Implies(nm == z3.StringVal("min"), r == z3.If(a <= b, a, b)))

    def req_op(c: Ctx):
        ops = c["operands"]
        def sem_o(j):
            tag, iv, ev = sel(ops.arrs[0], j), sel(ops.arrs[1], j), sel(ops.arrs[2], j)
            return z3.If(tag == 0, iv, sem_e(ev))
        nm = c["name"].term
        a, b = sem_o(0), sem_o(1)
        meaning = z3.If(nm == z3.StringVal("floordiv"), py_floordiv(a, b), z3.If(nm == z3.StringVal("mod"), py_mod(a, b), z3.If(nm == z3.StringVal("max"), z3.If(a >= b, a, b), z3.If(a <= b, a, b))))
        handled = z3.Or([nm == z3.StringVal(o) for o in ("floordiv", "max", "min", "mod")])
        # the op key "<name>#<operands>" stands for the op applied to its operands (per-kind injectivity of str assumed)
        key = z3.Concat(nm, z3.StringVal("#"), c.ex.to_str(ops).term)
        if c.extra.get("as_definition"):
            return z3.Implies(handled, key_meaning(key) == meaning)
        return z3.And(req(c), ops.length == 2, handled, z3.Implies(z3.Or(nm == z3.StringVal("floordiv"), nm == z3.StringVal("mod")), b != 0))

    def def_op(c: Ctx):
        c.extra["as_definition"] = True
        try:
            return req_op(c)
        finally:
            c.extra.pop("as_definition", None)

    w.add_contract(Contract(cls("_lower_op"), params={"self": Ref(LDE), "name": Str, "operands": Seq(OPERAND)},
                            requires=[("semantics_cache_invariant_binary_op", req_op)], definitions=[("op_key_means_the_op_applied_to_its_operands", def_op)],
                            modifies=MODS, props=["C04"], witnesses=["D5", "C04_dimexpr_family"],
                            ensures=[("python_floor_semantics", post_op), ("cache_invariant", post_inv)], raises={"RuntimeError", "ValueError", "TypeError"}, ret=Ref(VALUE)))

    # ---- bounded stand-in (never counted as proved): dimension symbols inside @onnx_function bodies shared between call sites
    def bounded_function_symbols(world, c, out):
        import time
        from pyvc.run import run_witness
        t0 = time.time()
        holds, detail = run_witness("C04_function_symbol_binding_family", timeout=1200)
        d = {"oid": "jax2onnx.plugins.plugin_system:FunctionPlugin._lower_and_call#bounded:call_sites_sharing_a_function_body_correlate_their_dimension_symbols_alike", "kind": "bounded",
             "status": "discharged" if holds else ("refuted" if holds is False else "unknown"), "backend": "enumerated", "time": time.time() - t0, "instances": 1, "trivial": 0,
             "bounded": "2 @onnx_function targets x 3 orders of two call sites (f(a,a)/f(a,b)/f(b,a)) with inputs [('T',3),('S',3)], (T,S) in {(1,3),(3,1),(2,2),(2,5),(4,3)}",
             "note": f"the function de-duplication key and the re-anchoring of symbols on function inputs are not under contract; the real export is run and compared with JAX; {detail}"[:500]}
        if holds is False:
            d.update(args={"witness": "C04_function_symbol_binding_family"}, replay={"reproduced": True, "detail": detail}, formula="", model=detail)
        out["obls"].append(d)
        out["paths"], out["time"] = 1, time.time() - t0
        return out
    w.add_contract(Contract("jax2onnx.plugins.plugin_system:<bounded-function-symbols>", kind="custom", custom=bounded_function_symbols, props=["C04"], witnesses=["C04_function_symbol_binding_family"]))
