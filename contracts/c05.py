"""C05 / C12 — the model interface mirrors the signature: layout adapter and
output binding (order, one output per result leaf, boundary transposes)."""
from __future__ import annotations

import z3

from pyvc.vals import *  # noqa
from pyvc.core import *  # noqa
from pyvc.world import Contract, Ctx
from pyvc.stmts import LoopSpec
from specs import ctxmodel
from specs.ctxmodel import CTX, BLD, JVAR, AVAL, LAD, JAXPR, VALUE, DIM, TT, SHAPE

MC = "jax2onnx.converter.conversion_api"
MIC = "jax2onnx.converter.ir_context"
NHWC_TO_NCHW = (0, 3, 1, 2)   # from the property: NCHW version of an NHWC tensor
NCHW_TO_NHWC = (0, 2, 3, 1)


def register(w):
    M = ctxmodel.register(w)
    sel = z3.Select

    def bld(c, ctx_v):
        return M.builder_of(c.ex, ctx_v.term)

    def outs_now(c, b):
        return M.outputs(c.ex, b)

    def outs_old(c, b):
        cur = c.ex.heap
        c.ex.heap = dict(c.old_heap)
        try:
            r = M.outputs(c.ex, b)
            for k, a in c.ex.heap.items():
                cur.setdefault(k, a)
        finally:
            c.ex.heap = cur
        return r

    def plain_or_cast(out, var):
        t = M.tvar(var)
        return z3.Or(M.den(out) == t, M.den(out) == M.castT(t))

    def nchw_of(out, var):
        return M.den(out) == M.Tr(*NHWC_TO_NCHW, M.tvar(var))

    def rank_agrees(c):
        """C08 (assumed here): a value bound to a var declares the var's rank"""
        ex = c.ex
        shp = z3.Select(ex.heap_arrays(VALUE, "shape")[0], c.result.term)
        aval = z3.Select(ex.heap_arrays(JVAR, "aval")[0], c["var"].term)
        n_decl = z3.Select(ex.heap_arrays(SHAPE, "dims")[-1], shp)
        n_aval = z3.Select(ex.heap_arrays(AVAL, "shape")[-1], aval)
        return z3.Implies(z3.And(shp != null_of(SHAPE), aval != null_of(AVAL)), n_decl == n_aval)

    # ---- IRContext.get_value_for_var: the value bound to (or allocated for) a var denotes that var
    w.add_contract(Contract(
        f"{MIC}:IRContext.get_value_for_var", params={"self": Ref(CTX), "var": Ref(JVAR), "name_hint": Opt(Str), "prefer_np_dtype": Opt(Enum("NpDT"))},
        ret=Ref(VALUE), assumed=True, may_raise=["TypeError"],
        ensures=[("denotes_var", lambda c: M.den(c.result.term) == M.tvar(c["var"].term)), ("declared_rank_is_jax_rank", lambda c: rank_agrees(c))],
        note="IRContext.get_value_for_var returns the IR value carrying the data of the JAX variable (binding invariant of _var2val, established by the lowering dispatcher: C16)",
    ))
    w.add_contract(Contract(
        f"{MIC}:IRContext.add_node", params={"self": Ref(CTX), "node": Ref("Node"), "inputs": Opt(Seq(Ref(VALUE))), "outputs": Opt(Seq(Ref(VALUE)))},
        ret=Ref("Node"), assumed=True, note="appends the node to the builder's node list (outputs/inputs untouched)",
    ))
    w.add_contract(Contract(
        f"{MIC}:IRContext.fresh_name", params={"self": Ref(CTX), "base": Str}, ret=Str, assumed=True, note="see C03",
    ))

    # ---- IRContext.add_graph_output_value / add_graph_input_value (verified: one append)
    def post_append(field):
        def f(c: Ctx):
            b = bld(c, c["self"])
            arr1, n1 = (M.outputs if field == "outputs" else M.inputs)(c.ex, b)
            cur = c.ex.heap
            c.ex.heap = dict(c.old_heap)
            arr0, n0 = (M.outputs if field == "outputs" else M.inputs)(c.ex, b)
            c.ex.heap = cur
            k = z3.Int("k")
            return z3.And(n1 == n0 + 1, sel(arr1, n0) == c["value"].term, z3.ForAll([k], z3.Implies(z3.And(0 <= k, k < n0), sel(arr1, k) == sel(arr0, k))))
        return f

    for nm, field in (("add_graph_output_value", "outputs"), ("add_graph_input_value", "inputs")):
        w.add_contract(Contract(
            f"{MIC}:IRContext.{nm}", params={"self": Ref(CTX), "value": Ref(VALUE)},
            requires=[("len_nonneg", lambda c, field=field: (M.outputs if field == "outputs" else M.inputs)(c.ex, bld(c, c["self"]))[1] >= 0)],
            ensures=[("appended_last_prefix_unchanged", post_append(field))], modifies=[(BLD, field)],
            raises=set(), ret=Ref(VALUE), props=["C05"],
        ))

    # ---- IRContext.add_outputs_from_vars: one output per var, in order, denoting that var (possibly cast)
    def post_add_outputs(c: Ctx):
        b = bld(c, c["self"])
        arr1, n1 = outs_now(c, b)
        arr0, n0 = outs_old(c, b)
        vs = c["outvars"]
        k = z3.Int("k")
        return z3.And(
            n1 == n0 + vs.length,
            z3.ForAll([k], z3.Implies(z3.And(0 <= k, k < n0), sel(arr1, k) == sel(arr0, k))),
            z3.ForAll([k], z3.Implies(z3.And(0 <= k, k < vs.length), plain_or_cast(sel(arr1, n0 + k), sel(vs.arrs[0], k)))),
        )

    def inv_add_outputs(lc):
        ex = lc.ex
        b = M.builder_of(ex, lc["self"].term)
        arr1, n1 = M.outputs(ex, b)
        arr0, n0 = lc.ex.ghost["outs0"]
        vs, i = lc.seq, lc.idx
        k = z3.Int("k")
        return [
            ("count", n1 == n0 + i),
            ("prefix_unchanged", z3.ForAll([k], z3.Implies(z3.And(0 <= k, k < n0), sel(arr1, k) == sel(arr0, k)))),
            ("one_output_per_var_in_order", z3.ForAll([k], z3.Implies(z3.And(0 <= k, k < i), plain_or_cast(sel(arr1, n0 + k), sel(vs.arrs[1], k))))),
        ]

    def ginit_outs(ex, env):
        self_v = env.lookup("self")
        b = M.builder_of(ex, (ex.read_field(self_v, "ctx").term if self_v.sort == LAD else self_v.term))
        arr, n = M.outputs(ex, b)
        ex.ghost["outs0"] = (arr, n)
        ex.assume(n >= 0)

    w.add_contract(Contract(
        f"{MIC}:IRContext.add_outputs_from_vars", params={"self": Ref(CTX), "outvars": Seq(Ref(JVAR))},
        ghost_init=ginit_outs, loops={0: LoopSpec(invariant=inv_add_outputs, label="outvars", havoc_fields=[(BLD, "outputs"), (VALUE, "type"), (VALUE, "shape")])},
        ensures=[("one_output_per_var_in_order", post_add_outputs)], modifies=[(BLD, "outputs"), (VALUE, "type"), (VALUE, "shape")],
        ret=NoneT, props=["C05"], witnesses=["C05_output_order_family"],
    ))
    register_layout(w)
    register_inputs(w)
    register_inputs2(w)


def register_layout(w):
    M = w.ctxmodel
    sel = z3.Select

    def outs(ex, ctx_term):
        return M.outputs(ex, M.builder_of(ex, ctx_term))

    def ins(ex, ctx_term):
        return M.inputs(ex, M.builder_of(ex, ctx_term))

    def with_old(c, f):
        cur = c.ex.heap
        c.ex.heap = dict(c.old_heap)
        try:
            r = f()
            for k, a in c.ex.heap.items():
                cur.setdefault(k, a)
        finally:
            c.ex.heap = cur
        return r

    def ctx_of(c):
        return c.ex.read_field(c["self"], "ctx").term

    def aval_shape(ex, var_term):
        """(tag, int, sym, len) arrays of var.aval.shape"""
        aval = z3.Select(ex.heap_arrays(JVAR, "aval")[0], var_term)
        a = ex.heap_arrays(AVAL, "shape")
        return [sel(x, aval) for x in a]

    # ---- _require_4d
    w.add_contract(Contract(
        f"{MC}:_LayoutAdapter._require_4d", params={"shape": Seq(DIM), "kind": Str, "index": Int},
        ensures=[("rank_is_4", lambda c: c["shape"].length == 4)], raises={"ValueError"}, ret=NoneT, props=["C12"],
    ))

    # ---- bind_output: exactly one output appended, the NCHW transpose of the var's value
    def post_bind_output(c: Ctx):
        ct = ctx_of(c)
        arr1, n1 = outs(c.ex, ct)
        arr0, n0 = with_old(c, lambda: outs(c.ex, ct))
        k = z3.Int("k")
        return z3.And(n1 == n0 + 1, M.den(sel(arr1, n0)) == M.Tr(*NHWC_TO_NCHW, M.tvar(c["out_var"].term)),
                      z3.ForAll([k], z3.Implies(z3.And(0 <= k, k < n0), sel(arr1, k) == sel(arr0, k))))

    def exc_unchanged_outputs(c: Ctx):
        ct = ctx_of(c)
        arr1, n1 = outs(c.ex, ct)
        arr0, n0 = with_old(c, lambda: outs(c.ex, ct))
        return z3.And(n1 == n0, arr1 == arr0)

    def req_aval(c: Ctx, name):
        aval = z3.Select(c.ex.heap_arrays(JVAR, "aval")[0], c[name].term)
        return aval != null_of(AVAL)

    def req_outs_len(c: Ctx):
        return outs(c.ex, ctx_of(c))[1] >= 0

    w.add_contract(Contract(
        f"{MC}:_LayoutAdapter.bind_output", params={"self": Ref(LAD), "out_var": Ref(JVAR), "index": Int},
        requires=[("var_has_aval", lambda c: req_aval(c, "out_var")), ("len_nonneg", req_outs_len)],
        ensures=[("appends_nchw_transpose_of_var", post_bind_output)], exc_ensures=[("outputs_untouched_on_rejection", exc_unchanged_outputs)],
        raises={"ValueError", "TypeError"}, modifies=[(BLD, "outputs"), (VALUE, "type"), (VALUE, "shape"), (VALUE, "name")],
        ret=NoneT, props=["C12", "C05"], witnesses=["C05_output_order_family"], inline_callees=False,
    ))

    # ---- bind_outputs: one output per result leaf, in order; flagged ones NCHW, the others plain
    def flagged(c_or_lc_seq: VSeq, i):
        j = z3.Int("j!fl")
        return z3.Exists([j], z3.And(0 <= j, j < c_or_lc_seq.length, sel(c_or_lc_seq.arrs[0], j) == i))

    def leaf_ok(ex, arr1, n0, k, var, flags: VSeq):
        o = sel(arr1, n0 + k)
        t = M.tvar(var)
        return z3.If(flagged(flags, k), M.den(o) == M.Tr(*NHWC_TO_NCHW, t), z3.Or(M.den(o) == t, M.den(o) == M.castT(t)))

    def post_bind_outputs(c: Ctx):
        ct = ctx_of(c)
        arr1, n1 = outs(c.ex, ct)
        arr0, n0 = with_old(c, lambda: outs(c.ex, ct))
        ov = c.ex.read_field(c["jpr"], "outvars")
        flags = c["outputs_as_nchw"]
        k = z3.Int("k")
        return z3.And(
            n1 == n0 + ov.length,
            z3.ForAll([k], z3.Implies(z3.And(0 <= k, k < n0), sel(arr1, k) == sel(arr0, k))),
            z3.ForAll([k], z3.Implies(z3.And(0 <= k, k < ov.length), leaf_ok(c.ex, arr1, n0, k, sel(ov.arrs[0], k), flags))),
        )

    def inv_bind_outputs(lc):
        ex = lc.ex
        ct = ex.read_field(lc["self"], "ctx").term
        arr1, n1 = outs(ex, ct)
        arr0, n0 = ex.ghost["outs0"]
        i = lc.idx
        flags = lc["outputs_as_nchw"]
        ov = ex.read_field(lc["jpr"], "outvars")
        k = z3.Int("k")
        return [
            ("count", n1 == n0 + i),
            ("prefix_unchanged", z3.ForAll([k], z3.Implies(z3.And(0 <= k, k < n0), sel(arr1, k) == sel(arr0, k)))),
            ("one_output_per_leaf_in_order", z3.ForAll([k], z3.Implies(z3.And(0 <= k, k < i), leaf_ok(ex, arr1, n0, k, sel(ov.arrs[0], k), flags)))),
        ]

    def ginit(ex, env):
        self_v = env.lookup("self")
        ct = ex.read_field(self_v, "ctx").term
        arr, n = outs(ex, ct)
        ex.ghost["outs0"] = (arr, n)
        ex.assume(n >= 0)

    def req_all_avals(c: Ctx):
        ov = c.ex.read_field(c["jpr"], "outvars")
        k = z3.Int("k")
        avals = c.ex.heap_arrays(JVAR, "aval")[0]
        return z3.ForAll([k], z3.Implies(z3.And(0 <= k, k < ov.length), sel(avals, sel(ov.arrs[0], k)) != null_of(AVAL)))

    w.add_contract(Contract(
        f"{MC}:_LayoutAdapter.bind_outputs", params={"self": Ref(LAD), "jpr": Ref(JAXPR), "outputs_as_nchw": Seq(Int)},
        requires=[("vars_have_avals", req_all_avals)], ghost_init=ginit,
        loops={0: LoopSpec(invariant=inv_bind_outputs, label="outvars", havoc_fields=[(BLD, "outputs"), (VALUE, "type"), (VALUE, "shape"), (VALUE, "name")])},
        ensures=[("one_output_per_leaf_in_order_flagged_are_nchw", post_bind_outputs)],
        raises={"ValueError", "TypeError"}, modifies=[(BLD, "outputs"), (VALUE, "type"), (VALUE, "shape"), (VALUE, "name")],
        ret=NoneT, props=["C05", "C12"], witnesses=["C05_output_order_family"],
    ))


def register_inputs(w):
    """bind_input / bind_inputs / add_input_for_invar and the symbolic-origin precondition (C12, C05, C04)."""
    M = w.ctxmodel
    sel = z3.Select
    from specs.ctxmodel import SYMDIM

    def shape_corresponds(ex, dims: VSeq, value_term, perm=None):
        """declared shape of `value` has one entry per dim: an int is that int, a symbolic dim its label"""
        shp = sel(ex.heap_arrays(VALUE, "shape")[0], value_term)
        d = ex.heap_arrays(SHAPE, "dims")
        tag_o, int_o, sym_o, n_o = [sel(x, shp) for x in (d[0], d[1], d[2], d[-1])]
        tag_i, int_i, sym_i = dims.arrs[0], dims.arrs[1], dims.arrs[2]
        k = z3.Int("k!sc")
        return z3.And(shp != null_of(SHAPE), n_o == dims.length, z3.ForAll([k], z3.Implies(z3.And(0 <= k, k < dims.length), z3.And(
            z3.Implies(sel(tag_i, k) == 0, z3.And(sel(tag_o, k) == 0, sel(int_o, k) == sel(int_i, k))),
            z3.Implies(sel(tag_i, k) == 1, z3.And(sel(tag_o, k) == 1, M.symdim_is(ex, sel(sym_o, k), M.label(sel(sym_i, k)))))))))
    w.shape_corresponds = shape_corresponds

    def dims_at_axes_correspond(ex, dims: VSeq, value_term, axes: VSeq):
        """dims[i] is the declared dim of `value` at axis axes[i] (an int is that int, a symbolic dim its label)"""
        shp = sel(ex.heap_arrays(VALUE, "shape")[0], value_term)
        d = ex.heap_arrays(SHAPE, "dims")
        tag_o, int_o, sym_o, n_o = [sel(x, shp) for x in (d[0], d[1], d[2], d[-1])]
        tag_i, int_i, sym_i = dims.arrs[0], dims.arrs[1], dims.arrs[2]
        k = z3.Int("k!sa")
        ax = sel(axes.arrs[0], k)
        return z3.And(shp != null_of(SHAPE), axes.length == dims.length, z3.ForAll([k], z3.Implies(z3.And(0 <= k, k < dims.length), z3.And(
            0 <= ax, ax < n_o,
            z3.Implies(sel(tag_i, k) == 0, z3.And(sel(tag_o, ax) == 0, sel(int_o, ax) == sel(int_i, k))),
            z3.Implies(sel(tag_i, k) == 1, z3.And(sel(tag_o, ax) == 1, M.symdim_is(ex, sel(sym_o, ax), M.label(sel(sym_i, k)))))))))

    def req_origins(c: Ctx):
        ax = c["axes"]
        if isinstance(ax, VNone):
            return shape_corresponds(c.ex, c["dims"], c["value"].term)
        if isinstance(ax, VSeq):
            return dims_at_axes_correspond(c.ex, c["dims"], c["value"].term, ax)
        raise OutOfSubset("axes of record_symbolic_dim_origins of unexpected kind")

    # record_symbolic_dim_origins(dims, value, axes=None): OriginInv is only established if dims[i] IS the value's declared dim at axis i (at axes[i])
    w.add_contract(Contract(
        f"{MIC}:IRContext.record_symbolic_dim_origins",
        params={"self": Ref(CTX), "dims": Seq(DIM), "value": Ref(VALUE), "axes": Opt(Seq(Int))},
        requires=[("dims_are_the_declared_shape_of_value", req_origins)],
        assumed=True, ret=NoneT, may_raise=[], props=["C04", "C12"],
        note="records (value, axis) as the run-time origin of each symbolic dim; only meaningful under its precondition",
    ))

    def req_var_shape(c: Ctx):
        ex = c.ex
        aval = sel(ex.heap_arrays(JVAR, "aval")[0], c["var"].term)
        a = ex.heap_arrays(AVAL, "shape")
        dims = VSeq(DIM, [sel(x, aval) for x in a[:-1]], sel(a[-1], aval))
        return z3.Implies(aval != null_of(AVAL), shape_corresponds(ex, dims, c["value"].term))

    w.add_contract(Contract(
        f"{MIC}:IRContext.record_var_symbolic_dim_origins", params={"self": Ref(CTX), "var": Ref(JVAR), "value": Ref(VALUE)},
        requires=[("value_declares_the_vars_shape", req_var_shape)], assumed=True, ret=NoneT, props=["C04", "C12"],
        note="as record_symbolic_dim_origins with dims = var.aval.shape",
    ))

    def ctx_of(c):
        return c.ex.read_field(c["self"], "ctx").term

    def with_old(c, f):
        cur = c.ex.heap
        c.ex.heap = dict(c.old_heap)
        try:
            r = f()
            for k, a in c.ex.heap.items():
                cur.setdefault(k, a)
        finally:
            c.ex.heap = cur
        return r

    def inputs_of(ex, ct):
        return M.inputs(ex, M.builder_of(ex, ct))

    def var2val(ex, ct, var_term):
        b = M.builder_of(ex, ct)
        m = ex.heap_arrays(BLD, "_var2val")
        return sel(sel(m[0], b), var_term), sel(sel(m[1], b), var_term)

    def permuted_shape_ok(ex, var_term, value_term, perm):
        aval = sel(ex.heap_arrays(JVAR, "aval")[0], var_term)
        a = ex.heap_arrays(AVAL, "shape")
        tag_i, int_i, sym_i, n_i = [sel(x, aval) for x in (a[0], a[1], a[2], a[-1])]
        shp = sel(ex.heap_arrays(VALUE, "shape")[0], value_term)
        d = ex.heap_arrays(SHAPE, "dims")
        tag_o, int_o, sym_o, n_o = [sel(x, shp) for x in (d[0], d[1], d[2], d[-1])]
        conj = [shp != null_of(SHAPE), n_o == 4, n_i == 4]
        for k, p in enumerate(perm):
            conj.append(z3.Implies(sel(tag_i, p) == 0, z3.And(sel(tag_o, k) == 0, sel(int_o, k) == sel(int_i, p))))
            conj.append(z3.Implies(sel(tag_i, p) == 1, z3.And(sel(tag_o, k) == 1, M.symdim_is(ex, sel(sym_o, k), M.label(sel(sym_i, p))))))
        return z3.And(conj)

    def post_bind_input(c: Ctx):
        ex = c.ex
        ct = ctx_of(c)
        arr1, n1 = inputs_of(ex, ct)
        arr0, n0 = with_old(c, lambda: inputs_of(ex, ct))
        new_in = sel(arr1, n0)
        present, bound = var2val(ex, ct, c["var"].term)
        k = z3.Int("k")
        idx = c["index"].term
        name_arr = ex.heap_arrays(VALUE, "name")
        want_name = z3.Concat(z3.StringVal("in_"), z3.If(idx >= 0, z3.IntToStr(idx), z3.Concat(z3.StringVal("-"), z3.IntToStr(-idx))), z3.StringVal("_nchw"))
        return [
            ("one_input_appended", z3.And(n1 == n0 + 1, z3.ForAll([k], z3.Implies(z3.And(0 <= k, k < n0), sel(arr1, k) == sel(arr0, k))))),
            # the JAX program sees the NHWC version of the fed NCHW tensor
            ("var_bound_to_nhwc_transpose_of_input", z3.And(present, M.den(bound) == M.Tr(*NCHW_TO_NHWC, M.den(new_in)))),
            # the graph input declares the NCHW-permuted shape, is named in_<i>_nchw
            ("input_declares_nchw_permuted_shape", permuted_shape_ok(ex, c["var"].term, new_in, NHWC_TO_NCHW)),
            ("input_named_in_i_nchw", z3.And(z3.Not(sel(name_arr[0], new_in)), sel(name_arr[1], new_in) == want_name)),
            # a layout flag changes the layout only: the element type follows the same policy as a plain input
            ("input_element_type_follows_the_dtype_policy", input_dtype_ok(ex, c["var"].term, new_in, ex.read_field(c["self"], "enable_double_precision").term)),
        ]

    def input_dtype_ok(ex, var_term, value_term, dbl):
        from contracts import c09  # noqa: F401
        aval = sel(ex.heap_arrays(JVAR, "aval")[0], var_term)
        code = sel(ex.heap_arrays(AVAL, "dtype")[0], aval)
        ty = sel(ex.heap_arrays(VALUE, "type")[0], value_term)
        r = sel(ex.heap_arrays(TT, "dtype")[0], ty)
        return z3.And(ty != null_of(TT), w.dtype_policy_relation(code, dbl, r))
    w.c05_input_dtype_ok = input_dtype_ok

    def req_aval(c: Ctx):
        return sel(c.ex.heap_arrays(JVAR, "aval")[0], c["var"].term) != null_of(AVAL)

    w.add_contract(Contract(
        f"{MC}:_LayoutAdapter.bind_input", params={"self": Ref(LAD), "var": Ref(JVAR), "index": Int},
        requires=[("var_has_aval", req_aval), ("len_nonneg", lambda c: inputs_of(c.ex, ctx_of(c))[1] >= 0)],
        ensures=[("nchw_input", post_bind_input)],
        raises={"ValueError", "TypeError"}, modifies=[(BLD, "inputs"), (BLD, "_var2val"), (VALUE, "type"), (VALUE, "shape"), (VALUE, "name"), (TT, "dtype"), (SHAPE, "dims"), ("IrSymDim", "value")],
        ret=NoneT, props=["C12", "C05", "C04"], witnesses=["C12_nchw_symbolic_dims", "D16"],
    ))


def register_inputs2(w):
    """add_input_for_invar (plain positional input) and bind_inputs (order, one input per argument)."""
    M = w.ctxmodel
    sel = z3.Select

    def inputs_of(ex, ct):
        return M.inputs(ex, M.builder_of(ex, ct))

    def with_old(c, f):
        cur = c.ex.heap
        c.ex.heap = dict(c.old_heap)
        try:
            r = f()
            for k, a in c.ex.heap.items():
                cur.setdefault(k, a)
        finally:
            c.ex.heap = cur
        return r

    def int_str(t):
        return z3.If(t >= 0, z3.IntToStr(t), z3.Concat(z3.StringVal("-"), z3.IntToStr(-t)))

    def post_add_input(c: Ctx):
        ex = c.ex
        ct = c["self"].term
        arr1, n1 = inputs_of(ex, ct)
        arr0, n0 = with_old(c, lambda: inputs_of(ex, ct))
        new_in = sel(arr1, n0)
        k = z3.Int("k")
        b = M.builder_of(ex, ct)
        m = ex.heap_arrays(BLD, "_var2val")
        name_arr = ex.heap_arrays(VALUE, "name")
        aval = sel(ex.heap_arrays(JVAR, "aval")[0], c["var"].term)
        a = ex.heap_arrays(AVAL, "shape")
        dims = VSeq(DIM, [sel(x, aval) for x in a[:-1]], sel(a[-1], aval))
        return [
            ("one_input_appended", z3.And(n1 == n0 + 1, z3.ForAll([k], z3.Implies(z3.And(0 <= k, k < n0), sel(arr1, k) == sel(arr0, k))))),
            ("var_bound_to_the_input_itself", z3.And(sel(sel(m[0], b), c["var"].term), sel(sel(m[1], b), c["var"].term) == new_in, c.result.term == new_in)),
            ("input_named_in_i", z3.And(z3.Not(sel(name_arr[0], new_in)), sel(name_arr[1], new_in) == z3.Concat(z3.StringVal("in_"), int_str(c["index"].term)))),
            ("input_declares_the_jax_shape", w.shape_corresponds(ex, dims, new_in)),
            # (function bodies may keep float32 on request: the model interface is the top graph, not function mode)
            ("input_element_type_follows_the_dtype_policy", z3.Implies(
                z3.Not(z3.And(ex.truthy(ex.read_field(c["self"], "_function_mode")), ex.truthy(ex.read_field(c["self"], "_keep_function_float32")))),
                w.c05_input_dtype_ok(ex, c["var"].term, new_in, sel(ex.heap_arrays(BLD, "enable_double_precision")[0], b)))),
        ]

    w.add_contract(Contract(
        f"{MIC}:IRContext.add_input_for_invar", params={"self": Ref(CTX), "var": Ref(JVAR), "index": Int},
        requires=[("len_nonneg", lambda c: inputs_of(c.ex, c["self"].term)[1] >= 0)],
        ensures=[("plain_input", post_add_input)], raises={"TypeError"},
        modifies=[(BLD, "inputs"), (BLD, "_var2val"), (VALUE, "type"), (VALUE, "shape"), (VALUE, "name"), (TT, "dtype"), (SHAPE, "dims"), ("IrSymDim", "value")],
        ret=Ref(VALUE), props=["C05", "C04"], witnesses=["D7"],
    ))

    # bind_inputs: exactly one graph input per positional argument, in order
    def ginit(ex, env):
        self_v = env.lookup("self")
        ct = ex.read_field(self_v, "ctx").term
        arr, n = inputs_of(ex, ct)
        ex.ghost["ins0"] = (arr, n)
        ex.assume(n >= 0)

    def inv_bind_inputs(lc):
        ex = lc.ex
        ct = ex.read_field(lc["self"], "ctx").term
        arr1, n1 = inputs_of(ex, ct)
        arr0, n0 = ex.ghost["ins0"]
        k = z3.Int("k")
        return [("count", n1 == n0 + lc.idx), ("prefix_unchanged", z3.ForAll([k], z3.Implies(z3.And(0 <= k, k < n0), sel(arr1, k) == sel(arr0, k))))]

    def post_bind_inputs(c: Ctx):
        ex = c.ex
        ct = ex.read_field(c["self"], "ctx").term
        arr1, n1 = inputs_of(ex, ct)
        arr0, n0 = with_old(c, lambda: inputs_of(ex, ct))
        iv = ex.read_field(c["jpr"], "invars")
        return n1 == n0 + iv.length

    def req_avals(c: Ctx):
        iv = c.ex.read_field(c["jpr"], "invars")
        k = z3.Int("k")
        avals = c.ex.heap_arrays(JVAR, "aval")[0]
        return z3.ForAll([k], z3.Implies(z3.And(0 <= k, k < iv.length), sel(avals, sel(iv.arrs[0], k)) != null_of(AVAL)))

    w.add_contract(Contract(
        f"{MC}:_LayoutAdapter.bind_inputs", params={"self": Ref(LAD), "jpr": Ref(JAXPR), "inputs_as_nchw": Seq(Int)},
        requires=[("vars_have_avals", req_avals)], ghost_init=ginit,
        loops={0: LoopSpec(invariant=inv_bind_inputs, label="invars", havoc_fields=[(BLD, "inputs"), (BLD, "_var2val"), (VALUE, "type"), (VALUE, "shape"), (VALUE, "name"), (TT, "dtype"), (SHAPE, "dims"), ("IrSymDim", "value")])},
        ensures=[("one_graph_input_per_argument", post_bind_inputs)], raises={"ValueError", "TypeError"},
        modifies=[(BLD, "inputs"), (BLD, "_var2val"), (VALUE, "type"), (VALUE, "shape"), (VALUE, "name"), (TT, "dtype"), (SHAPE, "dims"), ("IrSymDim", "value")],
        ret=NoneT, props=["C05", "C12"], witnesses=["D7", "C12_nchw_symbolic_dims"],
    ))
