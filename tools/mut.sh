#!/bin/sh
# usage: mut.sh <file-relative-to-repo> <python-regex-old> <new> -- <check args>   : apply a textual mutation on a scratch copy and run ./check against it
F=$1; OLD=$2; NEW=$3; shift 3; [ "$1" = "--" ] && shift
D=$(mktemp -d /tmp/mut-XXXXXX); trap 'rm -rf "$D"' EXIT
rsync -a --exclude .git /repo/ "$D/"
python3 - "$D/$F" "$OLD" "$NEW" <<'PY' || exit 9
import sys,re
p,old,new=sys.argv[1:4]
s=open(p).read()
n=len(re.findall(old,s))
if n!=1: print("mutation pattern matches",n,"times"); sys.exit(1)
open(p,'w').write(re.sub(old,new,s,count=1))
PY
mkdir -p "$D/_ev" "$D/_rp"; cd /verif && PYVC_EVIDENCE_DIR="$D/_ev" PYVC_REPLAY_DIR="$D/_rp" PYVC_REPO=$D "$@"
