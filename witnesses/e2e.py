"""End-to-end witness families: concrete programs run through the real
jax2onnx (imported from the tree under check) and ONNX Runtime.

Each witness returns (holds: bool, detail: str).  They are *never* the
deciding step of a check: a check is decided by discharged obligations; a
witness family is what a refuted obligation is replayed with (DESIGN §2.5).
"""
from __future__ import annotations

import io
import os
import tempfile
import numpy as np


def _jax():
    import jax
    import jax.numpy as jnp
    return jax, jnp


def _export(fn, inputs, **kw):
    from jax2onnx import to_onnx
    return to_onnx(fn, inputs, **kw)


def _run(model, feeds):
    import onnxruntime as ort
    so = ort.SessionOptions()
    so.log_severity_level = 4
    sess = ort.InferenceSession(model.SerializeToString(), so, providers=["CPUExecutionProvider"])
    names = [i.name for i in sess.get_inputs()]
    if not isinstance(feeds, dict):
        feeds = dict(zip(names, feeds))
    return sess.run(None, feeds), sess


def _cmp(fn, inputs_spec, arrays, **kw):
    """export fn, run on arrays, compare with eager jax. holds iff equal."""
    jax, jnp = _jax()
    try:
        model = _export(fn, inputs_spec, **kw)
    except Exception as e:  # a loud export failure is not a silent wrong model
        return True, f"export raised {type(e).__name__}: {e}"[:300]
    try:
        got, sess = _run(model, list(arrays))
    except Exception as e:
        return False, f"model failed in ORT: {type(e).__name__}: {str(e)[:300]}"
    exp = fn(*[jnp.asarray(a) for a in arrays])
    if not isinstance(exp, (tuple, list)):
        exp = (exp,)
    exp = [np.asarray(e) for e in jax.tree_util.tree_leaves(exp)]
    if len(exp) != len(got):
        return False, f"output count {len(got)} != {len(exp)}"
    for k, (e, g) in enumerate(zip(exp, got)):
        if tuple(e.shape) != tuple(g.shape):
            return False, f"output {k}: shape {g.shape} != jax {e.shape}"
        if not np.allclose(e, g, rtol=1e-5, atol=1e-5):
            return False, f"output {k}: max abs err {float(np.max(np.abs(e.astype(np.float64) - g.astype(np.float64))))}"
        # declared output shape must not contradict run time (C08)
        decl = model.graph.output[k].type.tensor_type.shape.dim
        for ax, d in enumerate(decl):
            if d.HasField("dim_value") and d.dim_value != g.shape[ax]:
                return False, f"output {k}: declared dim {ax}={d.dim_value}, runtime {g.shape[ax]}"
    return True, "agrees with JAX"


# ---------------------------------------------------------------- C02 / C12
def D1_max_nonscalar_side_operand():
    jax, jnp = _jax()
    rng = np.random.default_rng(0)
    x = rng.standard_normal((2, 3, 4, 5)).astype(np.float32)
    y = rng.standard_normal((2, 4, 5, 3)).astype(np.float32)

    def f(x, y):
        return jnp.transpose(jnp.maximum(jnp.transpose(x, (0, 2, 3, 1)), y), (0, 3, 1, 2))
    return _cmp(f, [(2, 3, 4, 5), (2, 4, 5, 3)], [x, y])


def D2_reshape_max_nonscalar():
    jax, jnp = _jax()
    rng = np.random.default_rng(1)
    x = rng.standard_normal((2, 3)).astype(np.float32)
    y = rng.standard_normal((6,)).astype(np.float32)

    def f(x, y):
        return jnp.maximum(x.reshape(6), y).reshape(2, 3)
    return _cmp(f, [(2, 3), (6,)], [x, y])


def D3_transpose_chain_intermediate_is_output():
    jax, jnp = _jax()
    x = np.random.default_rng(2).standard_normal((2, 3, 4, 5)).astype(np.float32)

    def f(x):
        y = jax.nn.relu(jnp.transpose(x, (0, 2, 3, 1)))
        return y, jnp.transpose(y, (0, 3, 1, 2))
    return _cmp(f, [(2, 3, 4, 5)], [x])


def D3_reshape_chain_intermediate_is_output():
    jax, jnp = _jax()
    x = np.random.default_rng(3).standard_normal((2, 3)).astype(np.float32)

    def f(x):
        y = jnp.tanh(x.reshape(6))
        return y, y.reshape(2, 3)
    return _cmp(f, [(2, 3)], [x])


def D3_reduce_intermediate_is_output():
    jax, jnp = _jax()
    x = np.random.default_rng(4).standard_normal((2, 3, 4, 5)).astype(np.float32)

    def f(x):
        r = jnp.mean(jnp.transpose(x, (0, 2, 3, 1)), axis=(1, 2), keepdims=True)
        return r, jnp.transpose(r, (0, 3, 1, 2))
    return _cmp(f, [(2, 3, 4, 5)], [x])


def D3_t1_out_is_output():
    jax, jnp = _jax()
    x = np.random.default_rng(5).standard_normal((2, 3, 4, 5)).astype(np.float32)

    def f(x):
        t = jnp.transpose(x, (0, 2, 3, 1))
        return t, jnp.transpose(jax.nn.relu(t), (0, 3, 1, 2))
    return _cmp(f, [(2, 3, 4, 5)], [x])


def D3_chain_intermediate_captured_by_cond():
    jax, jnp = _jax()
    x = np.random.default_rng(6).standard_normal((2, 3, 4, 5)).astype(np.float32)
    p = np.asarray(True)

    def f(p, x):
        y = jax.nn.relu(jnp.transpose(x, (0, 2, 3, 1)))
        z = jax.lax.cond(p, lambda: y * 2.0, lambda: y - 1.0)
        return z, jnp.transpose(y, (0, 3, 1, 2))
    import jax as _j
    return _cmp(f, [_j.ShapeDtypeStruct((), np.bool_), (2, 3, 4, 5)], [p, x])


def D13_orphan_transpose_feeding_only_cond():
    jax, jnp = _jax()
    x = np.random.default_rng(7).standard_normal((3, 4)).astype(np.float32)
    p = np.asarray(False)

    def f(p, x):
        t = x.T
        return jax.lax.cond(p, lambda: t * 2.0, lambda: t - 1.0)
    import jax as _j
    return _cmp(f, [_j.ShapeDtypeStruct((), np.bool_), (3, 4)], [p, x])


# ---------------------------------------------------------------- C04
def D4_symbolic_reshape_swap():
    jax, jnp = _jax()
    x = np.arange(6, dtype=np.float32).reshape(2, 3)

    def f(x):
        return x.reshape(-1).reshape(x.shape[1], x.shape[0])
    return _cmp(f, [("B", "N")], [x])


def D5_floordiv_negative():
    jax, jnp = _jax()
    x = np.ones((2, 4), dtype=np.float32)

    def f(x):
        b = x.shape[0]
        return x[0] * ((b - 5) // 2 + 3)
    return _cmp(f, [("B", 4)], [x])


def D6_cache_key_collision():
    jax, jnp = _jax()
    x = np.ones((3, 4), dtype=np.float32)

    def f(x):
        b = x.shape[0]
        return x[0] * (b * b + 2 * b)
    return _cmp(f, [("B", 4)], [x])


# ---------------------------------------------------------------- C05 / C12
def D7_unused_nchw_input_kept():
    try:
        model = _export(lambda x, y: y * 2.0, [(1, 2, 2, 3), (3,)], inputs_as_nchw=[0])
    except Exception as e:
        return True, f"export raised {type(e).__name__}"
    names = [i.name for i in model.graph.input]
    if len(names) != 2:
        return False, f"model inputs {names}: positional input 0 was dropped"
    return True, f"inputs {names}"


# ---------------------------------------------------------------- C13
def D8_monkey_patch_leak_on_failing_acquire():
    import jax
    import jax.numpy as jnp
    from jax2onnx import onnx_function, to_onnx
    from jax2onnx.plugins import plugin_system as ps

    def outer_factory():
        def nested(x):
            return x + 1.0
        return onnx_function(nested)

    @onnx_function
    def first(x):
        return x * 2.0

    nested = outer_factory()
    import sys
    mod = sys.modules[first.__module__] if hasattr(first, "__module__") and first.__module__ in sys.modules else None
    before = dict(ps._PATCH_STATE)
    snap = {}
    for patch_fn, targets, attr in ps._iter_patch_specs():
        for tgt in targets:
            snap[(id(tgt), attr)] = (tgt, attr, getattr(tgt, attr, None))
    raised = None
    try:
        to_onnx(lambda x: first(x) + nested(x), [(3,)])
    except Exception as e:
        raised = e
    leaked = [(getattr(t, "__name__", str(t)), a) for (t, a, v) in snap.values() if getattr(t, a, None) is not v]
    extra = [k for k in ps._PATCH_STATE if k not in before]
    if leaked or extra:
        return False, f"to_onnx raised {type(raised).__name__ if raised else None}; leaked patches: {leaked[:4]} state keys +{len(extra)}"
    return True, f"raised={type(raised).__name__ if raised else None}; nothing leaked"


# ---------------------------------------------------------------- C18
def _const_model(arr, path):
    import onnx
    from onnx import helper, numpy_helper
    t = numpy_helper.from_array(np.asarray(arr), "c")
    node = helper.make_node("Constant", [], ["c_out"], value=t)
    # a dummy input so allclose has something to feed
    ident = helper.make_node("Identity", ["c_out"], ["y"])
    g = helper.make_graph(
        [node, ident], "g",
        [helper.make_tensor_value_info("x", onnx.TensorProto.FLOAT, [1])],
        [helper.make_tensor_value_info("y", numpy_helper.from_array(np.asarray(arr)).data_type, list(np.asarray(arr).shape))],
    )
    m = helper.make_model(g, opset_imports=[helper.make_opsetid("", 21)])
    m.ir_version = 10
    onnx.save(m, path)


def D9_allclose_narrowing(kind="int64_wrap"):
    import jax.numpy as jnp
    from jax2onnx import allclose
    cases = {
        "int64_wrap": (np.asarray([2 ** 32 + 5], dtype=np.int64), lambda x: jnp.asarray([5], dtype=jnp.int32)),
        "float_trunc": (np.asarray([1.9], dtype=np.float32), lambda x: jnp.asarray([1], dtype=jnp.int32)),
        "int_to_bool": (np.asarray([2], dtype=np.int32), lambda x: jnp.asarray([True])),
        "f64_overflow": (np.asarray([1e300], dtype=np.float64), lambda x: jnp.asarray([np.inf], dtype=jnp.float32)),
    }
    model_const, fn = cases[kind]
    with tempfile.TemporaryDirectory() as d:
        p = os.path.join(d, "m.onnx")
        _const_model(model_const, p)
        try:
            res = allclose(fn, p, [np.zeros((1,), np.float32)])
        except Exception as e:
            return True, f"allclose raised {type(e).__name__}"
    ok = bool(res[0]) if isinstance(res, tuple) else bool(res)
    if ok:
        return False, f"allclose reported a match although ORT returns {model_const.tolist()} ({model_const.dtype}) and fn returns a different value"
    return True, f"mismatch reported: {res[1] if isinstance(res, tuple) else ''}"[:200]


def _allclose_case(model_const, fn_value, expect_match, what, n_outputs=1):
    """store a model returning model_const; fn returns fn_value; allclose must report `expect_match`"""
    import jax.numpy as jnp
    from jax2onnx import allclose
    with tempfile.TemporaryDirectory() as d:
        p = os.path.join(d, "m.onnx")
        _const_model(model_const, p)
        fn = (lambda x: jnp.asarray(fn_value)) if n_outputs == 1 else (lambda x: tuple(jnp.asarray(fn_value) for _ in range(n_outputs)))
        try:
            res = allclose(fn, p, [np.zeros((1,), np.float32)])
        except Exception as e:
            return True, f"allclose raised {type(e).__name__}"
    ok = bool(res[0]) if isinstance(res, tuple) else bool(res)
    if ok != expect_match:
        return False, f"{what}: allclose reported {'a match' if ok else 'a mismatch'} (model returns {np.asarray(model_const).tolist()}, fn returns {np.asarray(fn_value).tolist()})"
    return True, f"{what}: reported {'match' if ok else 'mismatch'} as required"


def C18_nan_vs_finite():
    a = _allclose_case(np.asarray([1.0, 2.0, np.nan, 4.0], np.float32), np.asarray([1.0, 2.0, 3.0, 4.0], np.float32), False, "NaN in the model only")
    if not a[0]:
        return a
    b = _allclose_case(np.asarray([1.0, 2.0, 3.0], np.float32), np.asarray([1.0, np.nan, 3.0], np.float32), False, "NaN in fn only")
    if not b[0]:
        return b
    return _allclose_case(np.asarray([1.0, np.nan], np.float32), np.asarray([1.0, np.nan], np.float32), True, "NaN on both sides")


def C18_inf_vs_finite():
    a = _allclose_case(np.asarray([1.0, np.inf], np.float32), np.asarray([1.0, 0.0], np.float32), False, "+inf in the model only")
    if not a[0]:
        return a
    b = _allclose_case(np.asarray([1.0, -np.inf], np.float32), np.asarray([1.0, np.inf], np.float32), False, "opposite infinities")
    if not b[0]:
        return b
    return _allclose_case(np.asarray([np.inf, 2.0], np.float32), np.asarray([np.inf, 2.0], np.float32), True, "same infinity on both sides")


def C18_shape_mismatch():
    return _allclose_case(np.zeros((2, 3), np.float32), np.zeros((3, 2), np.float32), False, "shape (2,3) vs (3,2)")


def C18_count_mismatch():
    return _allclose_case(np.zeros((2,), np.float32), np.zeros((2,), np.float32), False, "1 model output vs 2 fn outputs", n_outputs=2)


def C18_beyond_tolerance():
    a = _allclose_case(np.asarray([1.0, 2.0], np.float32), np.asarray([1.0, 2.1], np.float32), False, "one element off by 0.1")
    if not a[0]:
        return a
    return _allclose_case(np.asarray([3, 4], np.int32), np.asarray([3, 5], np.int32), False, "integer element differs")


# ---------------------------------------------------------------- C08
def D15_forest_fold_stale_shape():
    jax, jnp = _jax()
    rng = np.random.default_rng(8)
    a = rng.standard_normal((2, 3, 4, 5)).astype(np.float32)
    b = rng.standard_normal((2, 3, 4, 5)).astype(np.float32)

    def f(a, b):
        s = jnp.transpose(a, (0, 2, 3, 1)) + jnp.transpose(b, (0, 2, 3, 1))
        return jnp.transpose(jnp.exp(jnp.abs(s)), (0, 3, 1, 2))
    return _cmp(f, [(2, 3, 4, 5), (2, 3, 4, 5)], [a, b])


def D16_nchw_input_dtype_matches_plain():
    """C12/C05: a layout-flagged export declares the same input/output element types as the plain export"""
    import jax
    f = lambda x: x * 2  # noqa: E731
    for dt in (np.float16, np.float32, np.float64, np.int32):
        for dbl in (False, True):
            if dt is np.float64 and not dbl:
                continue
            spec = [jax.ShapeDtypeStruct((1, 2, 2, 3), dt)]
            try:
                plain = _export(f, spec, enable_double_precision=dbl)
                flagged = _export(f, spec, inputs_as_nchw=[0], outputs_as_nchw=[0], enable_double_precision=dbl)
            except Exception as e:
                return True, f"export raised {type(e).__name__}"
            tp = (plain.graph.input[0].type.tensor_type.elem_type, plain.graph.output[0].type.tensor_type.elem_type)
            tf = (flagged.graph.input[0].type.tensor_type.elem_type, flagged.graph.output[0].type.tensor_type.elem_type)
            if tp != tf:
                return False, f"{np.dtype(dt).name} input, double={dbl}: plain export declares (in,out) element types {tp}, layout-flagged export declares {tf}"
    return True, "flagged and plain exports declare the same element types"


def C12_nchw_symbolic_dims():
    """flagged export fed NCHW must return the NCHW version of the plain export's result, for programs
    that read symbolic H/W/C at run time"""
    import jax
    jax_, jnp = _jax()

    def f(x):
        n = x.shape[1] * x.shape[2]
        return x - jnp.sum(x, axis=(1, 2), keepdims=True) / n + x.shape[3] * 0.5 + x.shape[2] * 0.25

    for dims in (("B", "H", "W", 3), ("B", "H", "W", "C"), (2, "H", 5, 3)):
        spec = [jax.ShapeDtypeStruct(dims, np.float32)]
        try:
            plain = _export(f, spec)
            flagged = _export(f, spec, inputs_as_nchw=[0], outputs_as_nchw=[0])
        except Exception as e:
            return True, f"export raised {type(e).__name__}: {str(e)[:100]}"
        for shape in ((2, 4, 5, 3), (2, 7, 5, 3)):
            x = np.random.default_rng(sum(shape)).standard_normal(shape).astype(np.float32)
            try:
                y_plain = _run(plain, [x])[0][0]
                y_flag = _run(flagged, [np.transpose(x, (0, 3, 1, 2))])[0][0]
            except Exception as e:
                return False, f"dims {dims}, input {shape}: ORT failed: {str(e)[:200]}"
            want = np.transpose(y_plain, (0, 3, 1, 2))
            if y_flag.shape != want.shape or not np.allclose(y_flag, want, atol=1e-4):
                return False, f"dims {dims}, input {shape}: flagged export differs from NCHW(plain export), max abs diff {float(np.max(np.abs(y_flag - want))) if y_flag.shape == want.shape else 'shape ' + str(y_flag.shape)}"
    return True, "flagged == NCHW(plain) for symbolic H/W/C"


def C16_reverse_scan_is_loud():
    """every reverse scan (with/without xs, with/without stacked outputs) either raises at export
    time or exports a model that agrees with JAX"""
    jax, jnp = _jax()
    x0 = np.arange(3, dtype=np.float32)
    xs = np.arange(12, dtype=np.float32).reshape(4, 3)

    def no_xs_with_ys(c):
        return jax.lax.scan(lambda c, _: (c * 2.0 + 1.0, c), c, None, length=4, reverse=True)

    def no_xs_carry_only(c):
        return jax.lax.scan(lambda c, _: (c + 1.0, None), c, None, length=4, reverse=True)[0]

    def with_xs(c, xs):
        return jax.lax.scan(lambda c, x: (c + x, c * x), c, xs, reverse=True)

    for name, f, spec, arrs in (("reverse scan without xs, stacked ys", no_xs_with_ys, [(3,)], [x0]),
                                ("reverse scan without xs, carry only", no_xs_carry_only, [(3,)], [x0]),
                                ("reverse scan with xs", with_xs, [(3,), (4, 3)], [x0, xs])):
        ok, detail = _cmp(f, spec, arrs)
        if not ok:
            return False, f"{name}: exported without an error but {detail}"
    return True, "reverse scans are rejected or exported correctly"


def C16_unbound_output_is_loud():
    """assert_eqn_outputs_bound must raise for an equation whose output var has no connected value"""
    from types import SimpleNamespace
    from jax2onnx.converter import output_binding as ob

    class Var:
        pass
    v = Var()
    ctx = SimpleNamespace(builder=SimpleNamespace(_var2val={}, inputs=[], initializers=[], nodes=[]))
    eqn = SimpleNamespace(outvars=[v])
    try:
        ob.assert_eqn_outputs_bound(ctx, eqn, primitive_name="p", eqn_index=0)
    except RuntimeError:
        pass
    else:
        return False, "an equation with an unbound output var was accepted"
    import onnx_ir as ir
    val = ir.Value(name="floating")
    ctx.builder._var2val[v] = val
    try:
        ob.assert_eqn_outputs_bound(ctx, eqn, primitive_name="p", eqn_index=0)
    except RuntimeError:
        return True, "unbound and disconnected outputs are rejected"
    return False, "an output bound to a value that no node/input/initializer defines was accepted"


def C04_dimexpr_family():
    """dimension arithmetic on a symbolic B evaluated by the exported model for B = 1..9 must equal JAX"""
    jax, jnp = _jax()
    exprs = {
        "b*b + 2*b": lambda b: b * b + 2 * b,
        "(b-5)//2 + 3": lambda b: (b - 5) // 2 + 3,
        "-(-b//2)": lambda b: -(-b // 2),
        "b % 3 + 1": lambda b: b % 3 + 1,
        "2*b - 3 + 4": lambda b: 2 * b - 3 + 4,
        "b*b - b + 1": lambda b: b * b - b + 1,
        "7 - b//2": lambda b: 7 - b // 2,
        "10 - b": lambda b: 10 - b,
        "(b*b*b)//4": lambda b: (b * b * b) // 4,
    }
    for name, g in exprs.items():
        def f(x, g=g):
            return x[0] * g(x.shape[0])
        try:
            model = _export(f, [("B", 4)])
        except Exception as e:
            continue  # a loud refusal is not a wrong model
        for b in range(1, 10):
            x = np.ones((b, 4), dtype=np.float32)
            try:
                got = _run(model, [x])[0][0]
            except Exception as e:
                return False, f"{name} at B={b}: model failed in ORT: {str(e)[:150]}"
            want = np.asarray(f(jnp.asarray(x)))
            if got.shape != want.shape or not np.allclose(got, want):
                return False, f"{name} at B={b}: model gives {got.reshape(-1)[0]}, JAX gives {want.reshape(-1)[0]}"
    return True, f"{len(exprs)} dimension expressions agree with JAX for B=1..9"


def C02_table_family():
    """every operator the optimizer tables accept as elementwise, placed between an inverse Transpose pair and
    between a shape-restoring Reshape pair with ALL of its outputs observed: optimize_graph must not change any
    output (value, shape) ONNX Runtime produces."""
    import onnx
    import onnx.defs as D
    import onnx_ir as ir
    import onnxruntime as ort
    from onnx import helper, TensorProto, numpy_helper
    from jax2onnx.converter import ir_optimizations as opt

    def schema(op, opset):
        best = None
        for s_ in D.get_all_schemas_with_history():
            if s_.name == op and s_.domain == "" and s_.since_version <= opset and (best is None or s_.since_version > best.since_version):
                best = s_
        return best

    def run(model_proto, x):
        so = ort.SessionOptions()
        so.log_severity_level = 4
        so.graph_optimization_level = ort.GraphOptimizationLevel.ORT_DISABLE_ALL
        sess = ort.InferenceSession(model_proto.SerializeToString(), so, providers=["CPUExecutionProvider"])
        return sess.run(None, {"x": x})

    ops = sorted(set(opt.ALLOWED_ELEMWISE) | set(opt.ELEMENTWISE_UNARY_OPS) | set(opt.ELEMENTWISE_BINARY_OPS))
    x = (np.random.default_rng(5).standard_normal((2, 3, 4)).astype(np.float32) + 2.0)
    checked = 0
    for op in ops:
        for wrap in ("transpose", "reshape"):
            opset = 21
            sc = schema(op, opset)
            if sc is None:
                opset = 24
                sc = schema(op, opset)
            if sc is None:
                continue
            n_out = len(sc.outputs)
            ins = ["a"]
            inits = []
            if op in ("Add", "Sub", "Mul", "Div", "Max", "Min", "Pow"):
                inits.append(numpy_helper.from_array(np.asarray(1.5, dtype=np.float32), "k"))
                ins.append("k")
            if op == "CastLike":
                inits.append(numpy_helper.from_array(np.asarray(0.0, dtype=np.float32), "k"))
                ins.append("k")
            attrs = {"to": TensorProto.FLOAT} if op == "Cast" else {}
            outs = [f"o{i}" for i in range(n_out)]
            data_in, is_bool = "x", op == "Not"
            pre = []
            if is_bool:
                inits.append(numpy_helper.from_array(np.asarray(2.0, dtype=np.float32), "thr"))
                pre = [helper.make_node("Greater", ["x", "thr"], ["xb"])]
                data_in = "xb"
            if wrap == "transpose":
                nodes = pre + [helper.make_node("Transpose", [data_in], ["a"], perm=[0, 2, 1]), helper.make_node(op, ins, outs, **attrs),
                               helper.make_node("Transpose", ["o0"], ["y"], perm=[0, 2, 1])]
            else:
                inits += [numpy_helper.from_array(np.asarray([6, 4], dtype=np.int64), "s1"), numpy_helper.from_array(np.asarray([2, 3, 4], dtype=np.int64), "s2")]
                nodes = pre + [helper.make_node("Reshape", [data_in, "s1"], ["a"]), helper.make_node(op, ins, outs, **attrs),
                               helper.make_node("Reshape", ["o0", "s2"], ["y"])]
            out_infos = [helper.make_empty_tensor_value_info("y")] + [helper.make_empty_tensor_value_info(o) for o in outs[1:]]
            g = helper.make_graph(nodes, "g", [helper.make_tensor_value_info("x", TensorProto.FLOAT, [2, 3, 4])], out_infos, initializer=inits)
            m = helper.make_model(g, opset_imports=[helper.make_opsetid("", opset)])
            m.ir_version = 10
            try:
                m = onnx.shape_inference.infer_shapes(m)
                before = run(m, x)
            except Exception:
                continue  # ORT cannot run this operator here: inconclusive, not a failure
            irm = ir.serde.deserialize_model(m)
            try:
                opt.optimize_graph(irm)
            except Exception:
                continue
            m2 = ir.serde.serialize_model(irm)
            try:
                after = run(m2, x)
            except Exception as e:
                return False, f"{op} between a {wrap} pair: the optimized model no longer runs: {str(e)[:150]}"
            checked += 1
            names = [o.name for o in m.graph.output]
            for nm, b, a_ in zip(names, before, after):
                if b.shape != a_.shape or not np.array_equal(b, a_):
                    return False, f"{op} between a {wrap} pair: output `{nm}` changes from shape {b.shape} to {a_.shape} after optimize_graph"
    return True, f"{checked} (operator, wrapper) graphs unchanged by the optimizer"


def _ops_newer_than_declared(model):
    import onnx.defs as D
    first = {}
    for s_ in D.get_all_schemas_with_history():
        if s_.domain == "":
            first[s_.name] = min(first.get(s_.name, 10 ** 6), s_.since_version)
    declared = {o.domain: o.version for o in model.opset_import}.get("", None)
    bad = []

    def walk(graph):
        for n in graph.node:
            if n.domain == "" and first.get(n.op_type, 0) > declared:
                bad.append((n.op_type, first[n.op_type]))
            for a in n.attribute:
                if a.g.node:
                    walk(a.g)
                for g in a.graphs:
                    walk(g)
    walk(model.graph)
    for f in model.functions:
        fdecl = {o.domain: o.version for o in f.opset_import}.get("", declared)
        for n in f.node:
            if n.domain == "" and first.get(n.op_type, 0) > min(fdecl, declared):
                bad.append((f"{n.op_type} (in function {f.name})", first[n.op_type]))
    return declared, bad


def _opset_case(fn, spec, opset, what):
    try:
        model = _export(fn, spec, opset=opset)
    except Exception as e:
        return True, f"{what} at opset {opset}: export raised {type(e).__name__} (explicit refusal)"
    declared, bad = _ops_newer_than_declared(model)
    if bad:
        return False, f"{what} exported at opset {declared} contains {bad[0][0]}, which ONNX defines only from opset {bad[0][1]}"
    return True, f"{what} at opset {opset}: every operator exists in the declared opset"


def D10_cumprod_lax():
    jax, jnp = _jax()
    return _opset_case(lambda x: jax.lax.cumprod(x, axis=0), [(3, 4)], 23, "lax.cumprod")


def D10_cumprod_jnp():
    jax, jnp = _jax()
    return _opset_case(lambda x: jnp.cumprod(x, axis=1), [(3, 4)], 23, "jnp.cumprod")


def D10_bitcast():
    jax, jnp = _jax()
    return _opset_case(lambda x: jax.lax.bitcast_convert_type(x, jnp.int32), [(3, 4)], 23, "lax.bitcast_convert_type")


def C11_ops_within_opset():
    """components with opset-gated lowerings exported at every opset 21..24: nothing newer than declared"""
    jax, jnp = _jax()
    from flax import nnx
    cases = [("jax.nn.silu", lambda x: jax.nn.silu(x), [(3, 4)]),
             ("x * sigmoid(x)", lambda x: x * jax.nn.sigmoid(x), [(3, 4)])]
    try:
        norm = nnx.RMSNorm(4, rngs=nnx.Rngs(0))
        cases.append(("nnx.RMSNorm", lambda x: norm(x), [(3, 4)]))
    except Exception:
        pass
    for what, f, spec in cases:
        for opset in (21, 22, 23, 24):
            ok, detail = _opset_case(f, spec, opset, what)
            if not ok:
                return ok, detail
    return True, f"{len(cases)} gated components x opsets 21..24 stay within the declared opset"


def C11_function_body_opset():
    """an opset-gated component inside an @onnx_function body at opsets 21/22/23"""
    jax, jnp = _jax()
    from witnesses import _fnmods
    NormBlock, act = _fnmods.NormBlock, _fnmods.silu_act

    blk = NormBlock()
    n_exported = 0
    for what, f in (("nnx.RMSNorm inside @onnx_function", lambda x: blk(x)), ("silu inside @onnx_function", lambda x: act(x))):
        for opset in (21, 22, 23):
            ok, detail = _opset_case(f, [(3, 4)], opset, what)
            if not ok:
                return ok, detail
            n_exported += "export raised" not in detail
    return True, f"function bodies are lowered at the declared opset ({n_exported} exports)"


def C09_function_body_constants_follow_precision():
    """enable_double_precision=True from a process whose x64 flag is off: python constants inside an
    @onnx_function body must be true doubles (no float32 round trip); with False: no double tensor anywhere."""
    import jax
    from witnesses import _fnmods
    import onnx
    from onnx import numpy_helper
    start = bool(jax.config.jax_enable_x64)
    try:
        jax.config.update("jax_enable_x64", False)
        m = _export(lambda x: _fnmods.scale_by_tenth(x), [jax.ShapeDtypeStruct((3,), np.float64)], enable_double_precision=True)
        x = np.asarray([1.0, 2.0, 3.0], dtype=np.float64)
        got = _run(m, [x])[0][0]
        want = x * 0.1 + 0.3
        if got.dtype != np.float64 or float(np.max(np.abs(got - want))) > 1e-13:
            return False, f"double-precision export: model gives {got.tolist()} ({got.dtype}), float64 evaluation gives {want.tolist()} (max abs err {float(np.max(np.abs(got.astype(np.float64) - want)))})"
        jax.config.update("jax_enable_x64", True)
        m2 = _export(lambda x: _fnmods.scale_by_tenth(x), [jax.ShapeDtypeStruct((3,), np.float32)], enable_double_precision=False)

        def doubles(model):
            out = []
            graphs = [("main", model.graph.node)] + [(f.name, f.node) for f in model.functions]
            for where, nodes in graphs:
                for n in nodes:
                    for a in n.attribute:
                        if a.t.data_type == onnx.TensorProto.DOUBLE:
                            out.append(f"{where}:{n.op_type}")
            out += [f"initializer {i.name}" for i in model.graph.initializer if i.data_type == onnx.TensorProto.DOUBLE]
            return out
        d = doubles(m2)
        if d:
            return False, f"single-precision export from an x64 process contains double tensors: {d[:3]}"
    finally:
        jax.config.update("jax_enable_x64", start)
    return True, "function-body constants follow the requested precision in both directions"


def C09_literal_precision_family():
    """double-precision exports whose program contains pairs of float64 literals that agree to float32 resolution
    (1.0 / 1+1e-9, 0.1 / float(float32(0.1)), pi / 3.14159265) at top level, inside a fori_loop body, a cond branch and an
    @onnx_function body: ONNX Runtime (graph optimisations off) must agree with a float64 numpy evaluation to 1e-13 relative,
    and the single-precision export of the same programs contains no DOUBLE tensor."""
    import math
    import jax
    import onnx
    import onnxruntime as ort
    from jax import lax
    import jax.numpy as jnp
    from witnesses import _fnmods
    lo = float(np.float32(0.1))

    def top(x):
        return (x + 1.0) * 1.000000001 + 0.1 - lo

    def in_loop(x):
        return lax.fori_loop(0, 2, lambda i, c: (c * 1.0 + 0.1) * (1.0 - 1e-10) - lo, x)

    def in_cond(x):
        return lax.cond(x[0] > 0.0, lambda v: v * math.pi - 3.14159265 * v, lambda v: v * 1.000000001 - v * 1.0, x)

    def in_fn(x):
        return _fnmods.near_equal_literals(x)

    def ref(name, x):
        if name == "top":
            return (x + 1.0) * 1.000000001 + 0.1 - lo
        if name == "in_loop":
            c = x
            for _ in range(2):
                c = (c * 1.0 + 0.1) * (1.0 - 1e-10) - lo
            return c
        if name == "in_cond":
            return x * math.pi - 3.14159265 * x if x[0] > 0 else x * 1.000000001 - x * 1.0
        return (x + 1.0) * 1.000000001 - 3.14159265 + 3.141592653589793
    start = bool(jax.config.jax_enable_x64)
    n = 0
    try:
        for x64 in (False, True):
            jax.config.update("jax_enable_x64", x64)
            for name, fn in (("top", top), ("in_loop", in_loop), ("in_cond", in_cond), ("in_fn", in_fn)):
                try:
                    m = _export(fn, [jax.ShapeDtypeStruct((3,), np.float64)], enable_double_precision=True)
                except Exception as e:
                    continue      # a loud export failure is not a silent precision loss
                so = ort.SessionOptions()
                so.log_severity_level = 4
                so.graph_optimization_level = ort.GraphOptimizationLevel.ORT_DISABLE_ALL
                sess = ort.InferenceSession(m.SerializeToString(), so, providers=["CPUExecutionProvider"])
                for x in (np.asarray([1.0, 2.0, 3.0]), np.asarray([-1.5, 0.25, 7.0])):
                    got = sess.run(None, {sess.get_inputs()[0].name: x})[0]
                    want = ref(name, x)
                    err = float(np.max(np.abs(got - want) / np.maximum(1e-30, np.maximum(np.abs(want), 1e-9))))
                    if got.dtype != np.float64 or not np.allclose(got, want, rtol=1e-13, atol=1e-18):
                        return False, f"double-precision export of `{name}` (x64 flag {x64}): model gives {got.tolist()}, float64 evaluation gives {want.tolist()} (relative error {err:.2e})"
                    n += 1
    finally:
        jax.config.update("jax_enable_x64", start)
    return True, f"{n} double-precision evaluations agree with float64 numpy to 1e-13"


def C19_reduction_kwargs_history_family(only_prod_default=False):
    """keyword arguments of the jnp reductions must act on every trace, whatever was traced before in the same process:
    jnp.sum/prod/max/min/mean/any/all with every combination of axis (None, 0, -1, (0, 1)), keepdims, dtype and
    (sum/prod) promote_integers on int8/int16/uint8/float32 operands, exported one after the other; the declared output
    element type and shape of each export must be those of jax.eval_shape of the same call."""
    import itertools
    import jax
    import jax.numpy as jnp
    import onnx
    import jax2onnx
    np2onnx = {np.dtype(k): v for k, v in {"int8": 3, "int16": 5, "int32": 6, "int64": 7, "uint8": 2, "uint16": 4, "uint32": 12, "uint64": 13, "float32": 1, "float64": 11, "bool": 9, "float16": 10}.items()}
    n = 0
    calls = []
    for red in ("sum", "prod", "max", "min", "mean", "any", "all"):
        for in_dt in (np.int8, np.int16, np.uint8, np.float32):
            for axis, keepdims in ((None, False), (0, False), (-1, True), ((0, 1), False)):
                extra = [{}]
                if red in ("sum", "prod"):
                    extra = [{}, {"promote_integers": False}, {"promote_integers": True}, {"dtype": np.float32}]
                for kw in extra:
                    calls.append((red, in_dt, axis, keepdims, kw))
    # known finding D32 (separate witness): jnp.prod of a narrow integer operand without dtype= is not promoted to the default integer
    is_d32 = lambda c_: c_[0] == "prod" and np.dtype(c_[1]).kind in "iu" and "dtype" not in c_[4]  # noqa: E731
    if only_prod_default:
        calls = [c_ for c_ in calls if is_d32(c_) and not c_[4]][:4]
    else:
        calls = [c_ for c_ in calls if not is_d32(c_)]
        rnd = np.random.default_rng(0)
        rnd.shuffle(calls)
        calls = calls[:70]
    for red, in_dt, axis, keepdims, kw in calls + calls[:20][::-1]:       # a second visit of some calls, in another order
        fn = lambda x, red=red, axis=axis, keepdims=keepdims, kw=kw: getattr(jnp, red)(x, axis=axis, keepdims=keepdims, **kw)  # noqa: E731
        spec = jax.ShapeDtypeStruct((2, 3), in_dt)
        try:
            want = jax.eval_shape(fn, spec)
        except Exception:
            continue
        try:
            m = jax2onnx.to_onnx(fn, [spec], model_name="c19hist")
        except Exception:
            continue          # a loud rejection is not a silently ignored argument
        out = m.graph.output[0].type.tensor_type
        got_shape = tuple(d.dim_value for d in out.shape.dim)
        if out.elem_type != np2onnx.get(np.dtype(want.dtype)) or got_shape != tuple(want.shape):
            return False, f"jnp.{red}(x:{np.dtype(in_dt).name}[2,3], axis={axis}, keepdims={keepdims}, {kw}) exported after {n} other traces: model output {onnx.TensorProto.DataType.Name(out.elem_type)}{list(got_shape)}, JAX gives {np.dtype(want.dtype).name}{list(want.shape)}"
        n += 1
    return True, f"{n} reduction exports in one process declare the JAX result type"


def C05_output_integer_types_family():
    """declared element types of integer / bool / float16 results: programs whose lowering computes in a wider integer
    than JAX (lax.scan with narrow-integer carries and stacked outputs, jax.random.bits of uint8/uint16, argmax/argmin,
    comparisons, narrow-integer arithmetic, clip, where) returned directly; x64 off and on.  Each declared output type must
    be the jax.eval_shape type, or INT64 for an integer result."""
    import jax
    import jax.numpy as jnp
    from jax import lax
    import jax2onnx
    np2onnx = {"int8": 3, "int16": 5, "int32": 6, "int64": 7, "uint8": 2, "uint16": 4, "uint32": 12, "uint64": 13, "float32": 1, "float64": 11, "bool": 9, "float16": 10, "bfloat16": 16}

    def scan_counter(x):
        def step(c, _):
            c = c + jnp.asarray(1, x.dtype)
            return c, c
        return lax.scan(step, x, None, length=3)

    progs = [
        ("scan counter int8", scan_counter, jax.ShapeDtypeStruct((), np.int8)),
        ("scan counter uint8", scan_counter, jax.ShapeDtypeStruct((), np.uint8)),
        ("scan counter int16", scan_counter, jax.ShapeDtypeStruct((), np.int16)),
        ("argmax", lambda x: jnp.argmax(x, axis=-1), jax.ShapeDtypeStruct((2, 5), np.float32)),
        ("compare", lambda x: x > 0, jax.ShapeDtypeStruct((2, 5), np.float32)),
        ("int8 add", lambda x: x + x, jax.ShapeDtypeStruct((4,), np.int8)),
        ("uint16 mul", lambda x: x * x, jax.ShapeDtypeStruct((4,), np.uint16)),
        ("int16 clip", lambda x: jnp.clip(x, -3, 3), jax.ShapeDtypeStruct((4,), np.int16)),
        ("where int8", lambda x: jnp.where(x > 0, x, -x), jax.ShapeDtypeStruct((4,), np.int8)),
        ("float16 tanh", lambda x: jnp.tanh(x), jax.ShapeDtypeStruct((4,), np.float16)),
        ("cast to int8", lambda x: x.astype(jnp.int8), jax.ShapeDtypeStruct((4,), np.float32)),
        ("sum int16 unpromoted", lambda x: jnp.sum(x, promote_integers=False), jax.ShapeDtypeStruct((4,), np.int16)),
    ]
    start = bool(jax.config.jax_enable_x64)
    n = 0
    try:
        for x64, double in ((False, False), (True, False), (False, True), (True, True)):
            for what, fn, spec in progs:
                try:
                    jax.config.update("jax_enable_x64", double)       # the JAX result at the precision the export asks for
                    want = jax.tree_util.tree_leaves(jax.eval_shape(fn, spec))
                    jax.config.update("jax_enable_x64", x64)          # the host process may have either setting
                    m = jax2onnx.to_onnx(fn, [spec], model_name="c05types", enable_double_precision=double)
                except Exception:
                    continue      # loud
                outs = list(m.graph.output)
                if len(outs) != len(want):
                    return False, f"{what} (x64 {x64}, double {double}): {len(outs)} outputs for {len(want)} result leaves"
                for k, (o, w_) in enumerate(zip(outs, want)):
                    et = o.type.tensor_type.elem_type
                    exp = np2onnx.get(np.dtype(w_.dtype).name)
                    ok = et == exp or (np.dtype(w_.dtype).kind in "iu" and et == 7)
                    if not ok:
                        import onnx
                        return False, f"{what} (host x64 {x64}, enable_double_precision {double}): output {k} declares {onnx.TensorProto.DataType.Name(et)}, JAX result is {np.dtype(w_.dtype).name}"
                    n += 1
    finally:
        jax.config.update("jax_enable_x64", start)
    return True, f"{n} declared output types are the JAX type (or INT64 for integers)"


def C16_function_dim_without_origin_is_loud():
    """C16: a symbolic dimension used inside an @onnx_function body that no input of the function carries (passed in by
    value as a static keyword) has no origin inside the body: the export must raise, or give a well-formed model that agrees
    with JAX for several bindings - never a body that reads a value of its caller"""
    jax, jnp = _jax()
    import jax2onnx
    import onnxruntime as ort
    from witnesses import _fnmods as F

    def prog(x, y):
        return F.scale_by_count(y, n=x.shape[0])
    try:
        m = jax2onnx.to_onnx(prog, [("b", 2), (3,)], model_name="c16dim")
    except Exception as e:
        return True, f"export raised {type(e).__name__} (loud)"
    ok, why = _wellformed(m)
    if not ok:
        return False, f"the export returned a model instead of raising, and {why}"
    so = ort.SessionOptions()
    so.log_severity_level = 4
    sess = ort.InferenceSession(m.SerializeToString(), so, providers=["CPUExecutionProvider"])
    for b in (1, 2, 5):
        x = np.ones((b, 2), np.float32)
        y = np.asarray([1.0, 2.0, 3.0], np.float32)
        got = sess.run(None, dict(zip([i.name for i in sess.get_inputs()], [x, y])))[0]
        want = np.asarray(prog(jnp.asarray(x), jnp.asarray(y)))
        if got.shape != want.shape or not np.allclose(got, want):
            return False, f"b={b}: model gives {got.tolist()}, JAX {want.tolist()}"
    return True, "agrees with JAX for b in {1,2,5}"


def D34_tensorscatter_mode_at_opset_24():
    """C11/C03: at opset 24 the dynamic_update_slice fast path emits TensorScatter with an attribute value the schema does not allow"""
    jax, jnp = _jax()
    from jax import lax
    import jax2onnx
    fn = lambda c, u, p: lax.dynamic_update_slice(c, u, (0, p, 0))  # noqa: E731
    try:
        m = jax2onnx.to_onnx(fn, [jax.ShapeDtypeStruct((2, 5, 3), np.float32), jax.ShapeDtypeStruct((2, 2, 3), np.float32), jax.ShapeDtypeStruct((), np.int32)], model_name="d34", opset=24)
    except Exception as e:
        return True, f"export raised {type(e).__name__} (loud)"
    return _wellformed(m)


def D35_float32_constant_next_to_a_float32_cast_under_double_precision():
    """C09/C03: enable_double_precision=True, x.astype(float32) * float32(0.25): the constant is promoted to DOUBLE, the cast operand stays FLOAT"""
    jax, jnp = _jax()
    import jax2onnx
    try:
        m = jax2onnx.to_onnx(lambda x: x.astype(jnp.float32) * jnp.float32(0.25), [("B", 4)], model_name="d35", enable_double_precision=True)
    except Exception as e:
        return True, f"export raised {type(e).__name__} (loud)"
    return _wellformed(m)


def C18_feed_construction_family():
    """user_interface._build_ort_inputs on fake sessions with 0..4 inputs, every subset of them supplied as named
    parameters, and 0..5 positional arrays: parameters are fed by name, the remaining inputs take the positional arrays in
    order, every session input gets exactly one feed, and too few / too many positional arrays raise ValueError."""
    import itertools
    from types import SimpleNamespace
    from jax2onnx import user_interface as ui
    n_cases = 0
    for n_in in range(0, 5):
        names = [f"i{k}" for k in range(n_in)]
        for r in range(0, n_in + 1):
            for named in itertools.combinations(names, r):
                metas = [SimpleNamespace(name=nm, type="tensor(float)", shape=[2]) for nm in names]
                sess = SimpleNamespace(get_inputs=lambda metas=metas: metas)
                params = {nm: np.full((2,), 100.0 + names.index(nm), np.float32) for nm in named}
                n_pos = n_in - r
                for n_xs in range(0, 6):
                    xs = [np.full((2,), float(k), np.float64) for k in range(n_xs)]
                    try:
                        feed = ui._build_ort_inputs(sess, xs, params)
                    except ValueError:
                        if n_xs == n_pos:
                            return False, f"inputs {names}, named {list(named)}, {n_xs} positional arrays: raised although the counts match"
                        n_cases += 1
                        continue
                    if n_xs != n_pos:
                        return False, f"inputs {names}, named {list(named)}: {n_xs} positional arrays accepted where {n_pos} are needed"
                    if sorted(feed) != sorted(names):
                        return False, f"inputs {names}, named {list(named)}: feed has the keys {sorted(feed)}"
                    pos = 0
                    for nm in names:
                        want = 100.0 + names.index(nm) if nm in named else float(pos)
                        if nm not in named:
                            pos += 1
                        if feed[nm].dtype != np.float32 or float(feed[nm][0]) != want:
                            return False, f"inputs {names}, named {list(named)}: input {nm} is fed {feed[nm].tolist()} ({feed[nm].dtype}), expected {want} as float32"
                    n_cases += 1
    return True, f"{n_cases} feed constructions consistent"


def C06_loop_trip_family():
    """exported Loop/Scan bodies against JAX for every trip count they can take: while_loop with a scalar state started so
    that it runs 0, 1, 2, 5 times (data-dependent bound), a vmapped while_loop whose lanes stop at different iterations and
    whose predicate is not monotone (a finished lane must stay frozen), fori_loop over a symbolic-free range with a captured
    array, scan with a carry and stacked outputs of length 1 and 4, a while_loop nested in a fori_loop."""
    import threading
    import jax
    import jax.numpy as jnp
    from jax import lax
    import jax2onnx
    import onnxruntime as ort

    def wl(v):
        return lax.while_loop(lambda c: c < 5.0, lambda c: c * 1.5 + 1.0, v)

    def one_lane(v):
        return lax.while_loop(lambda c: jnp.logical_and(c != 3.0, c < 6.0), lambda c: c + 1.0, v)

    def fori_cap(x, w):
        return lax.fori_loop(0, 3, lambda i, c: c * w + i.astype(c.dtype), x)

    def scan_stack(x):
        def step(c, t):
            c = c * 0.5 + t
            return c, c * 2.0
        return lax.scan(step, x[0], x)

    def nested(v):
        return lax.fori_loop(0, 2, lambda i, c: lax.while_loop(lambda d: d < 4.0, lambda d: d + 1.5, c) - 3.0, v)

    progs = [
        ("while_loop scalar", wl, [jax.ShapeDtypeStruct((), np.float32)], [[np.asarray(v, np.float32)] for v in (9.0, 4.5, 2.0, 0.0)]),
        ("vmapped while_loop", jax.vmap(one_lane), [jax.ShapeDtypeStruct((2,), np.float32)], [[np.asarray(v, np.float32)] for v in ([0.0, 1.0], [3.0, 3.0], [3.0, 0.0], [2.0, 0.5])]),
        ("fori_loop with a captured array", fori_cap, [jax.ShapeDtypeStruct((3,), np.float32), jax.ShapeDtypeStruct((3,), np.float32)], [[np.asarray([1.0, 2.0, 3.0], np.float32), np.asarray([0.5, -1.0, 2.0], np.float32)]]),
        ("scan length 4", scan_stack, [jax.ShapeDtypeStruct((4,), np.float32)], [[np.asarray([1.0, -2.0, 0.5, 4.0], np.float32)]]),
        ("scan length 1", scan_stack, [jax.ShapeDtypeStruct((1,), np.float32)], [[np.asarray([3.0], np.float32)]]),
        ("while_loop nested in fori_loop", nested, [jax.ShapeDtypeStruct((), np.float32)], [[np.asarray(v, np.float32)] for v in (0.0, 3.9, 10.0)]),
    ]
    n = 0
    for what, fn, specs, feeds_list in progs:
        try:
            m = jax2onnx.to_onnx(fn, specs, model_name="c06")
        except Exception:
            continue          # loud
        so = ort.SessionOptions()
        so.log_severity_level = 4
        sess = ort.InferenceSession(m.SerializeToString(), so, providers=["CPUExecutionProvider"])
        names = [i.name for i in sess.get_inputs()]
        for arrs in feeds_list:
            opts = ort.RunOptions()
            timed_out = threading.Event()

            def _kill():
                timed_out.set()
                opts.terminate = True
            timer = threading.Timer(20.0, _kill)
            timer.start()
            try:
                got = sess.run(None, dict(zip(names, arrs)), run_options=opts)
            except Exception as e:
                if timed_out.is_set():
                    return False, f"{what} on {[np.asarray(a).tolist() for a in arrs]}: the exported Loop does not terminate"
                return False, f"{what}: ONNX Runtime failed: {str(e)[:160]}"
            finally:
                timer.cancel()
            want = jax.tree_util.tree_leaves(fn(*[jnp.asarray(a) for a in arrs]))
            if len(got) != len(want):
                return False, f"{what}: {len(got)} outputs for {len(want)} results"
            for g, w_ in zip(got, want):
                w_ = np.asarray(w_)
                if g.shape != w_.shape or not np.allclose(g, w_, rtol=1e-5, atol=1e-6):
                    return False, f"{what} on {[np.asarray(a).tolist() for a in arrs]}: model gives {np.asarray(g).tolist()}, JAX gives {w_.tolist()}"
            n += 1
    return True, f"{n} loop evaluations agree with JAX"


def C03_function_identifiers_unique():
    """the same @onnx_function instantiated inside another function (2,3) and at top level (2,5): every
    function definition has its own (domain, name), the model passes the ONNX checker and agrees with JAX"""
    import onnx
    jax, jnp = _jax()
    from witnesses import _fnmods
    outer, top = _fnmods.Outer(), _fnmods.Project(5, 4)

    def f(a, b):
        return outer(a) + top(b)
    a = np.random.default_rng(1).standard_normal((2, 3)).astype(np.float32)
    b = np.random.default_rng(2).standard_normal((2, 5)).astype(np.float32)
    try:
        model = _export(f, [(2, 3), (2, 5)])
    except Exception as e:
        return True, f"export raised {type(e).__name__}"
    ids = [(fn.domain, fn.name) for fn in model.functions]
    if len(ids) != len(set(ids)):
        return False, f"two function definitions share the identifier: {sorted(ids)}"
    calls = [(n.domain, n.op_type) for n in list(model.graph.node) + [n for fn in model.functions for n in fn.node] if n.domain not in ("", "ai.onnx")]
    missing = [c for c in calls if c not in ids]
    if missing:
        return False, f"call sites without a definition: {missing[:3]}"
    if len(set(c for c in calls if c[1] == "Project")) < 2:
        return False, f"Project is called with two different input shapes but only one definition exists: {sorted(set(calls))}"
    try:
        onnx.checker.check_model(model, full_check=True)
    except Exception as e:
        return False, f"onnx.checker rejects the model: {str(e)[:160]}"
    ok, detail = _cmp(f, [(2, 3), (2, 5)], [a, b])
    if not ok:
        return ok, detail
    # two DIFFERENT targets with the same display name in one program: two definitions, two identifiers
    def g(x, y):
        return _fnmods.block_scale(x) + _fnmods.block_mix(x, y)
    try:
        model = _export(g, [(2, 3), (2, 3)])
    except Exception as e:
        return True, f"export raised {type(e).__name__}"
    ids = [(fn.domain, fn.name) for fn in model.functions]
    if len(ids) != 2 or len(set(ids)) != 2:
        return False, f"two different functions displayed as `Block` give the definitions {sorted(ids)} (expected two distinct identifiers)"
    return _cmp(g, [(2, 3), (2, 3)], [a, a * 0.5 + 1.0])


def C07_sharing_family():
    """call sites may share one function definition only if they compute the same function: instances with
    identical weights but different static configuration (closure identity, python scalar), different keyword
    arguments, different input shapes"""
    jax, jnp = _jax()
    from witnesses import _fnmods as F
    x = np.asarray([[1.0, -2.0, 3.0, -4.0], [-0.5, 0.25, -1.5, 2.0]], dtype=np.float32)
    a, b = F.UniqueBlock(F.leaky(0.01)), F.UniqueBlock(F.leaky(0.9))
    c, d = F.UniqueBlock(F.leaky(0.5), scale=1.0), F.UniqueBlock(F.leaky(0.5), scale=3.0)
    cases = [
        ("unique=True instances differing only by a closure", lambda x: a(x) - b(x), [(2, 4)], [x]),
        ("unique=True instances differing only by a python scalar attribute", lambda x: c(x) + d(x), [(2, 4)], [x]),
        ("same function with different keyword arguments", lambda x: F.scaled(x, k=2.0) + F.scaled(x, k=5.0), [(2, 4)], [x]),
        ("same function on different input shapes", lambda x, y: jnp.sum(F.scaled(x)) + jnp.sum(F.scaled(y)), [(2, 4), (3,)], [x, np.ones(3, np.float32)]),
    ]
    for what, f, spec, arrs in cases:
        ok, detail = _cmp(f, spec, arrs)
        if not ok:
            return False, f"{what}: {detail}"
    return True, f"{len(cases)} sharing scenarios agree with JAX"


def C06_fori_trip_counts():
    """fori_loop(lower, upper) for every lower, upper in [-2, 4]: same carried value as JAX (0, 1, k trips, offset index)"""
    jax, jnp = _jax()
    x = np.asarray([1.0, 2.0, 3.0], dtype=np.float32)
    for lo in range(-2, 5):
        for up in range(-2, 5):
            def f(x, lo=lo, up=up):
                return jax.lax.fori_loop(lo, up, lambda i, c: c * 2.0 + i, x)
            ok, detail = _cmp(f, [(3,)], [x])
            if not ok:
                return False, f"fori_loop({lo}, {up}): {detail}"
    return True, "49 (lower, upper) pairs agree with JAX"


def C06_scan_arity_family():
    """scan_arity on every small split of total_invars in both parameter encodings"""
    from jax2onnx._compat import jax as jc

    class G(list):
        pass
    for total in range(0, 6):
        for nc in range(0, total + 1):
            for ny in range(0, total - nc + 1):
                nx = total - nc - ny
                want = (nc, ny, nx)
                got = jc.scan_arity({"num_consts": nc, "num_carry": ny}, total)
                if tuple(got) != want:
                    return False, f"scan_arity(num_consts={nc}, num_carry={ny}, total={total}) = {got}, expected {want}"
                ft = type("FT", (), {"elts": [G(range(nc)), G(range(ny)), G(range(nx))]})()
                got = jc.scan_arity({"ft_in": ft}, total)
                if tuple(got) != want:
                    return False, f"scan_arity(ft_in groups {want}, total={total}) = {got}"
                try:
                    jc.scan_arity({"ft_in": ft}, total + 1)
                    return False, f"scan_arity accepted ft_in groups {want} for {total + 1} invars"
                except ValueError:
                    pass
    return True, "all splits of up to 5 invars decoded consistently"


def C05_output_order_family():
    """results (a4d, b4d, c1d, d4d) under every ordered subset of outputs_as_nchw over the 4-D leaves:
    output k must be leaf k (NCHW-transposed iff flagged)."""
    import itertools
    jax, jnp = _jax()
    x = np.random.default_rng(11).standard_normal((2, 3, 4, 6)).astype(np.float32)

    def f(x):
        return x + 1.0, x * 2.0, jnp.sum(x, axis=(0, 1, 2)), x - 3.0
    exp = [np.asarray(e) for e in f(jnp.asarray(x))]
    n = 0
    for r in (1, 2, 3):
        for flags in itertools.permutations((0, 1, 3), r):
            try:
                model = _export(f, [(2, 3, 4, 6)], outputs_as_nchw=list(flags))
            except Exception as e:
                return True, f"export raised {type(e).__name__}"
            try:
                got, _ = _run(model, [x])
            except Exception as e:
                return False, f"outputs_as_nchw={list(flags)}: model failed in ORT: {str(e)[:200]}"
            n += 1
            if len(got) != 4:
                return False, f"outputs_as_nchw={list(flags)}: {len(got)} outputs for 4 result leaves"
            for k in range(4):
                want = np.transpose(exp[k], (0, 3, 1, 2)) if k in flags else exp[k]
                if tuple(got[k].shape) != tuple(want.shape) or not np.allclose(got[k], want, atol=1e-5):
                    return False, f"outputs_as_nchw={list(flags)}: model output {k} is not result leaf {k} (shape {got[k].shape}, expected {want.shape})"
    return True, f"{n} flag orders: every output is its own leaf"


# ---------------------------------------------------------------- C13 (no jax needed)
def C13_apply_patches_restores():
    """Exhaustive small family: spec lists of length <= 3 over 2 targets x 2 attrs
    (one own, one inherited, one missing), both spec kinds, a factory failing at
    each position, the body raising or not.  After the context exits (normally or
    not) every attribute must resolve to the same object as before."""
    import itertools
    from jax2onnx.plugins._patching import apply_patches, AssignSpec, MonkeyPatchSpec

    class Base:
        inherited = staticmethod(lambda: "base")

    class T(Base):
        own = staticmethod(lambda: "own")

    class U:
        own = "u-own"

    sentinel = object()

    def snapshot():
        # the resolved object AND whether the class owns the attribute (an inherited attribute must be inherited again)
        return {(c.__name__, a): (getattr(c, a, sentinel), a in vars(c)) for c in (Base, T, U) for a in ("own", "inherited", "missing")}

    class Boom(Exception):
        pass

    keys = [(T, "own"), (T, "inherited"), (T, "missing"), (U, "own")]
    kinds = ["assign", "monkey", "monkey_fail"]
    n_cases = 0
    for n in (1, 2, 3):
        for ks in itertools.product(keys, repeat=n):
            for kd in itertools.product(kinds, repeat=n):
                if kd.count("monkey_fail") > 1:
                    continue
                for body_raises in (False, True):
                    specs = []
                    for i, ((tgt, attr), kind) in enumerate(zip(ks, kd)):
                        if kind == "assign":
                            specs.append(AssignSpec(tgt, attr, ("patched", i)))
                        elif kind == "monkey":
                            specs.append(MonkeyPatchSpec(tgt, attr, lambda orig, i=i: ("wrapped", i, orig)))
                        else:
                            def fail(orig):
                                raise Boom()
                            specs.append(MonkeyPatchSpec(tgt, attr, fail))
                    before = snapshot()
                    n_cases += 1
                    raised = None
                    try:
                        with apply_patches(specs):
                            if body_raises:
                                raise Boom()
                    except Boom as e:
                        raised = e
                    after = snapshot()
                    if after != before:
                        diff = [k for k in before if before[k][0] is not after[k][0] or before[k][1] != after[k][1]]
                        desc = [(t.__name__, a, k) for (t, a), k in zip(ks, kd)]
                        return False, f"specs {desc}, body_raises={body_raises}: attributes {diff} do not resolve as before"
                    if body_raises and raised is None:
                        return False, "exception raised by the with-body was swallowed"
    return True, f"{n_cases} spec lists restored"


def C13_rebinding_between_conversions():
    """history: convert; the host rebinds a patched attribute; convert again (succeeding or failing).
    After each conversion every patched attribute must resolve to what it was bound to before THAT call."""
    import sys
    import types
    import jax.numpy as jnp
    from jax2onnx import onnx_function, to_onnx
    from jax2onnx.plugins import plugin_system as ps

    mod = types.ModuleType("c13_hist_mod")
    sys.modules["c13_hist_mod"] = mod
    src = "def block(x):\n    return x * 2.0 + 1.0\n"
    exec(src, mod.__dict__)
    mod.block.__module__ = "c13_hist_mod"
    mod.block = onnx_function(mod.block)

    def model(x):
        return mod.block(x) + 1.0

    def check(label, before):
        cur = mod.block
        if cur is not before:
            return f"{label}: module attribute `block` resolves to a different object than before the call"
        return None

    b0 = mod.block
    to_onnx(model, [(3,)])
    err = check("first conversion", b0)
    if err:
        return False, err
    # the host rebinds the attribute (e.g. a re-run notebook cell)
    exec("def block(x):\n    return x * 3.0\n", mod.__dict__)
    mod.block.__module__ = "c13_hist_mod"
    mod.block = onnx_function(mod.block)
    b1 = mod.block
    to_onnx(model, [(3,)])
    err = check("second conversion after rebinding", b1)
    if err:
        return False, err
    try:
        to_onnx(lambda x: mod.block(x) + jnp.asarray(undefined_name), [(3,)])  # noqa: F821  fails while tracing
    except Exception:
        pass
    err = check("failing conversion", b1)
    if err:
        return False, err
    return True, "attributes resolve as before after 3 conversions with a rebinding in between"


def D17_inherited_call_restored():
    """an @onnx_function subclass that inherits __call__ from another @onnx_function class: after to_onnx
    (which may raise) both classes must resolve __call__ as before and the subclass must not own one"""
    import jax.numpy as jnp
    from flax import nnx
    from jax2onnx import onnx_function, to_onnx

    @onnx_function
    class BaseBlock(nnx.Module):
        def __init__(self):
            self.k = 2.0

        def __call__(self, x):
            return x * self.k

    @onnx_function
    class SubBlock(BaseBlock):
        def __init__(self):
            self.k = 3.0

    b, s = BaseBlock(), SubBlock()
    before = (BaseBlock.__call__, SubBlock.__call__, "__call__" in vars(SubBlock))
    raised = None
    try:
        to_onnx(lambda x: b(x) + s(x), [(3,)])
    except BaseException as e:  # RecursionError is fine for this property: it is loud
        raised = type(e).__name__
    after = (BaseBlock.__call__, SubBlock.__call__, "__call__" in vars(SubBlock))
    if before[0] is not after[0] or before[1] is not after[1] or before[2] != after[2]:
        return False, f"to_onnx {'raised ' + raised if raised else 'returned'}; afterwards SubBlock.__call__ is {'the same' if before[1] is after[1] else 'a different'} object and SubBlock {'owns' if after[2] else 'does not own'} __call__ (before: {'owns' if before[2] else 'inherits'})"
    try:
        v = np.asarray(b(jnp.ones(3)) + s(jnp.ones(3)))
    except Exception as e:
        return False, f"eager call after conversion fails: {type(e).__name__}: {str(e)[:100]}"
    return True, f"classes restored (conversion {'raised ' + raised if raised else 'succeeded'}), eager result {v.tolist()}"


def C13_x64_flag_restored():
    """both x64 context managers, for every initial process-wide value, every active jax.enable_x64 override (none / False /
    True), every requested value and both kinds of exit: the requested value is in force inside, and afterwards the
    process-wide value and the override are what they were"""
    import contextlib
    import jax
    from jax2onnx.converter.conversion_api import _force_jax_x64
    from jax2onnx.user_interface import _temporary_x64
    scope = getattr(jax, "enable_x64", None)
    if scope is None:
        from jax.experimental import enable_x64 as scope
    holder = getattr(jax.config, "_value_holders", {}).get("jax_enable_x64")
    read_global = (lambda: bool(holder.get_global())) if holder is not None and hasattr(holder, "get_global") else None

    class Boom(Exception):
        pass
    start = bool(jax.config.jax_enable_x64)
    n = 0
    try:
        for cm in (_force_jax_x64, _temporary_x64):
            for initial in (False, True):
                for override in (None, False, True):
                    for flag in (False, True):
                        for body in ("ok", "raise"):
                            jax.config.update("jax_enable_x64", initial)
                            what = f"{cm.__name__}({flag}) with process-wide value {initial}, override {override}, body={body}"
                            with (scope(override) if override is not None else contextlib.nullcontext()):
                                before = bool(jax.config.jax_enable_x64)
                                try:
                                    with cm(flag):
                                        if bool(jax.config.jax_enable_x64) != flag:
                                            return False, f"{what}: the requested value is not in force inside the context"
                                        if body == "raise":
                                            raise Boom()
                                except Boom:
                                    pass
                                if bool(jax.config.jax_enable_x64) != before:
                                    return False, f"{what}: the flag reads {bool(jax.config.jax_enable_x64)} afterwards, {before} before"
                                if read_global is not None and read_global() != initial:
                                    return False, f"{what}: the process-wide value is {read_global()} afterwards"
                            if bool(jax.config.jax_enable_x64) != initial:
                                return False, f"{what}: after leaving the override the flag is {bool(jax.config.jax_enable_x64)}"
                            n += 1
    finally:
        jax.config.update("jax_enable_x64", start)
    return True, f"flag restored in {n} cases"


# ---------------------------------------------------------------- C17 (graph level)
def C17_range_bounds_family():
    """All Range(start, limit, delta) with operands in [-7, 7] (delta != 0) behind
    0..2 shape-only ops: the bounds returned by the real
    _known_integer_value_bounds must contain every element numpy's arange
    produces, and _cast_roundtrip_known_values_fit may say True only if every
    element fits the intermediate type (checked for INT64 -> {INT8 scaled, UINT8, INT4})."""
    import numpy as np
    import onnx_ir as ir
    from jax2onnx.converter import ir_optimizations as opt

    def const(name, v):
        val = ir.Value(name=name, shape=ir.Shape(()), type=ir.TensorType(ir.DataType.INT64))
        val.const_value = ir.tensor(np.asarray(v, dtype=np.int64))
        return val

    n = 0
    for s in range(-7, 8):
        for l in range(-7, 8):
            for d in list(range(-7, 0)) + list(range(1, 8)):
                for scale in (1, 40):
                    S, L, Dd = s * scale, l * scale, d
                    vs, vl, vd = const("s", S), const("l", L), const("d", Dd)
                    rng = ir.Node("", "Range", [vs, vl, vd], num_outputs=1)
                    out = rng.outputs[0]
                    out.name = "r"
                    nodes = [rng]
                    for k, op in enumerate(("Identity", "Reshape")[: (n % 3)]):
                        extra = [const(f"shape{k}", [-1])] if op == "Reshape" else []
                        nd = ir.Node("", op, [out] + extra, num_outputs=1)
                        nd.outputs[0].name = f"o{k}"
                        nodes.append(nd)
                        out = nd.outputs[0]
                    n += 1
                    elems = np.arange(S, L, Dd, dtype=np.int64)
                    b = opt._known_integer_value_bounds(nodes, out)
                    if b is not None and elems.size and not (b[0] <= elems.min() and elems.max() <= b[1]):
                        return False, f"Range({S},{L},{Dd}) produces {elems.tolist()[:6]}…{elems.tolist()[-2:]} but _known_integer_value_bounds returned {b}"
                    for mid in (ir.DataType.INT8, ir.DataType.UINT8, ir.DataType.INT4):
                        fit = opt._cast_roundtrip_known_values_fit(nodes, out, int(ir.DataType.INT64.value), int(mid.value))
                        lo, hi = {ir.DataType.INT8: (-128, 127), ir.DataType.UINT8: (0, 255), ir.DataType.INT4: (-8, 7)}[mid]
                        if fit and elems.size and not (lo <= elems.min() and elems.max() <= hi):
                            return False, f"Range({S},{L},{Dd}) has elements outside {mid.name} [{lo},{hi}] (min {elems.min()}, max {elems.max()}) but _cast_roundtrip_known_values_fit returned True"
    return True, f"{n} Range graphs consistent with numpy.arange"


def D26_inherited_patch_not_left_behind():
    """C13: after a conversion no library class owns an attribute it merely inherited before (apply_patches restored an
    inherited attribute with setattr while the parent class was itself patched: the subclass kept the parent's substitute)"""
    import flax.linen as nn
    from flax import nnx
    jax, jnp = _jax()
    import jax2onnx
    import jax2onnx.plugins.plugin_system as ps
    ps.import_all_plugins() if hasattr(ps, "import_all_plugins") else None
    watched = [nn.MultiHeadAttention, nn.ConvLocal, nn.MultiHeadDotProductAttention, nn.Conv, nn.Dense, nnx.Linear, nnx.Conv, nnx.MultiHeadAttention]

    def snap():
        return {c.__module__ + "." + c.__qualname__: ("__call__" in vars(c), c.__call__) for c in watched}
    before = snap()
    jax2onnx.to_onnx(lambda x: jnp.tanh(x) * 2.0, [(2, 3)], model_name="d26")
    after = snap()
    for k in before:
        if before[k][0] != after[k][0] or before[k][1] is not after[k][1]:
            return False, f"{k}.__call__: own attribute {before[k][0]} -> {after[k][0]}, resolves to {getattr(after[k][1], '__qualname__', after[k][1])} after the conversion"
    return True, "no watched class owns or resolves __call__ differently after a conversion"


def D29_static_kwarg_value_in_function_key():
    """C07: two call sites of one @onnx_function that differ only in a static keyword argument whose value numpy cannot
    turn into a regular array (a ragged tuple) must not share one function body"""
    jax, jnp = _jax()
    try:
        from witnesses import _fnmods as F
    except ImportError:
        import _fnmods as F

    def prog(x):
        return F.poly_cfg(x, cfg=((1.0, 2.0), (3.0,))) * F.poly_cfg(x, cfg=((1.0, 2.0), (50.0,)))
    return _cmp(prog, [(4,)], [np.arange(4, dtype=np.float32)])


def _wellformed(model):
    """(ok, why): ONNX checker with full checks, strict shape inference, ONNX Runtime load"""
    import onnx
    import onnxruntime as ort
    try:
        onnx.checker.check_model(model, full_check=True)
    except Exception as e:
        return False, f"onnx.checker rejects the model: {str(e)[:200]}"
    try:
        onnx.shape_inference.infer_shapes(model, strict_mode=True)
    except Exception as e:
        return False, f"strict shape inference fails: {str(e)[:200]}"
    try:
        so = ort.SessionOptions()
        so.log_severity_level = 4
        ort.InferenceSession(model.SerializeToString(), so, providers=["CPUExecutionProvider"])
    except Exception as e:
        return False, f"ONNX Runtime does not load the model: {str(e)[:200]}"
    return True, "well formed"


def D30_passthrough_function_body():
    """C03: an @onnx_function that returns its argument unchanged must still give a loadable model"""
    jax, jnp = _jax()
    try:
        from witnesses import _fnmods as F
    except ImportError:
        import _fnmods as F
    try:
        m = _export(lambda x: F.ident_fn(x) + 1.0, [(3,)])
    except Exception as e:
        return True, f"export raised {type(e).__name__} (loud)"
    return _wellformed(m)


def D31_custom_name_collides_with_loop_body_value():
    """C03/C05: a user-supplied input name equal to the name of a value inside a Loop body must be rejected or renamed"""
    jax, jnp = _jax()
    from jax import lax
    import jax2onnx
    fn = lambda x: lax.fori_loop(0, 3, lambda i, c: c * 2.0 + 1.0, x)  # noqa: E731
    plain = jax2onnx.to_onnx(fn, [(3,)], model_name="d31")
    inner = [o for n in plain.graph.node if n.op_type == "Loop" for a in n.attribute if a.name == "body" for b in a.g.node for o in b.output if o]
    if not inner:
        return None, "no Loop body value found"
    try:
        m = jax2onnx.to_onnx(fn, [(3,)], model_name="d31", input_names=[inner[0]])
    except Exception as e:
        return True, f"export raised {type(e).__name__} (loud)"
    return _wellformed(m)


def _converter_only_primitives(jaxpr_text):
    import re
    return sorted(set(re.findall(r"\b(?:jax\.numpy|jax\.nn|jax\.lax|nnx|flax|equinox|eqx|linen|onnx_fn)[\w.]*\.[\w]+", jaxpr_text)))


def C13_retrace_family():
    """C13 (bounded): the converted callable itself behaves as before.  For 6 plain functions / lambdas (never traced before),
    after to_onnx - succeeding, with symbolic and with concrete shapes, in single and double precision, and failing in the
    lowering - jax.make_jaxpr(f), jax.jit(f) and jax.eval_shape(f) on the same function object give what a never-converted
    twin of the function gives."""
    jax, jnp = _jax()
    import jax2onnx

    def make(k):
        # two distinct function objects with the same body: one is converted, the twin never is
        if k == 0:
            return (lambda a: jnp.tanh(a) * 2.0), (lambda a: jnp.tanh(a) * 2.0)
        if k == 1:
            return (lambda a: jnp.tile(a, (2, 1)) + 1.0), (lambda a: jnp.tile(a, (2, 1)) + 1.0)
        if k == 2:
            def f(a):
                return jax.nn.softmax(a, axis=-1).sum(axis=0)

            def g(a):
                return jax.nn.softmax(a, axis=-1).sum(axis=0)
            return f, g
        if k == 3:
            return (lambda a: jnp.where(a > 0, a, 0.1 * a).reshape((-1,))), (lambda a: jnp.where(a > 0, a, 0.1 * a).reshape((-1,)))
        if k == 4:
            return (lambda a: jnp.concatenate([a, a * 2.0], axis=0)), (lambda a: jnp.concatenate([a, a * 2.0], axis=0))
        return (lambda a: jax.lax.fori_loop(0, 3, lambda i, c: c * 0.5 + 1.0, a)), (lambda a: jax.lax.fori_loop(0, 3, lambda i, c: c * 0.5 + 1.0, a))

    x = jnp.asarray(np.asarray([[0.5, -1.0, 2.0], [1.5, 0.25, -0.75]], np.float32))
    n = 0
    for k in range(6):
        for mode in ("concrete", "symbolic", "double", "failing"):
            f, twin = make(k)
            try:
                if mode == "concrete":
                    jax2onnx.to_onnx(f, [(2, 3)])
                elif mode == "symbolic":
                    jax2onnx.to_onnx(f, [("B", 3)])
                elif mode == "double":
                    jax2onnx.to_onnx(f, [(2, 3)], enable_double_precision=True)
                else:
                    try:
                        jax2onnx.to_onnx(f, [(2, 3)], opset=1_000_000)      # fails after tracing (or is rejected up front)
                    except Exception:
                        pass
            except Exception as e:
                return None, f"program {k} [{mode}] does not convert here: {type(e).__name__}: {str(e)[:100]}"
            what = f"program {k} after a {mode} conversion"
            try:
                jp, jp_twin = str(jax.make_jaxpr(f)(x)), str(jax.make_jaxpr(twin)(x))
            except Exception as e:
                return False, f"{what}: jax.make_jaxpr(f) raises {type(e).__name__}: {str(e)[:150]}"
            if _converter_only_primitives(jp) != _converter_only_primitives(jp_twin) or jp.count("\n") != jp_twin.count("\n"):
                return False, f"{what}: jax.make_jaxpr(f) differs from the jaxpr of a never-converted twin: {_converter_only_primitives(jp) or jp[:200]}"
            try:
                got = np.asarray(jax.jit(f)(x))
            except Exception as e:
                return False, f"{what}: jax.jit(f)(x) raises {type(e).__name__}: {str(e)[:150]}"
            want = np.asarray(twin(x))
            if got.shape != want.shape or got.dtype != want.dtype or not np.allclose(got, want, rtol=1e-6, atol=1e-6):
                return False, f"{what}: jax.jit(f)(x) is {got.dtype}{got.shape}, eager twin gives {want.dtype}{want.shape}"
            es, es_twin = jax.eval_shape(f, x), jax.eval_shape(twin, x)
            if (es.shape, es.dtype) != (es_twin.shape, es_twin.dtype):
                return False, f"{what}: jax.eval_shape(f) is {es}, twin {es_twin}"
            n += 1
    return True, f"{n} converted functions re-trace like their never-converted twins"


def D36_jit_helper_keeps_working_after_conversion():
    """C13: a jit-compiled helper used by the converted function must work afterwards (whether the conversion succeeded or raised)"""
    jax, jnp = _jax()
    import jax2onnx

    @jax.jit
    def inner(a):
        return jnp.tanh(a) + 1.0
    x = jnp.asarray(np.asarray([[0.5, -1.0, 2.0]], np.float32))
    outcome = "succeeded"
    try:
        jax2onnx.to_onnx(lambda a: inner(a) * 2.0, [(1, 3)])
    except Exception as e:
        outcome = f"raised {type(e).__name__}"
    try:
        got = np.asarray(inner(x))
    except Exception as e:
        return False, f"after a conversion that {outcome}, calling the jit-compiled helper raises {type(e).__name__}: {str(e)[:160]}"
    want = np.tanh(np.asarray(x)) + 1.0
    if not np.allclose(got, want, rtol=1e-6, atol=1e-6):
        return False, f"after a conversion that {outcome} the jit-compiled helper returns {got}"
    return True, f"helper works after a conversion that {outcome}"


def C19_function_target_kwargs_family():
    """C19 (bounded): keyword arguments of @onnx_function targets (3 functions, 1 module) in the call forms the target accepts
    eagerly - left default, explicit default, explicit None where the default is not None, other static values, one and two
    call sites in a program.  Each export either raises (loud) or agrees with eager JAX in shape, type and value."""
    jax, jnp = _jax()
    import jax2onnx
    import onnxruntime as ort
    try:
        from witnesses import _fnmods as F
    except ImportError:
        import _fnmods as F
    aff = F.Affine()
    forms = [
        ("total(x)", lambda x: F.total(x)), ("total(x, axis=-1)", lambda x: F.total(x, axis=-1)), ("total(x, axis=None)", lambda x: F.total(x, axis=None)),
        ("total(x, axis=0)", lambda x: F.total(x, axis=0)),
        ("bounded(x)", lambda x: F.bounded(x)), ("bounded(x, hi=None)", lambda x: F.bounded(x, hi=None)), ("bounded(x, lo=None)", lambda x: F.bounded(x, lo=None)),
        ("bounded(x, lo=-0.5, hi=0.5)", lambda x: F.bounded(x, lo=-0.5, hi=0.5)),
        ("scaled(x)", lambda x: F.scaled(x)), ("scaled(x, scale=None)", lambda x: F.scaled(x, scale=None)), ("scaled(x, scale=3.0)", lambda x: F.scaled(x, scale=3.0)),
        ("scaled(x, flip=True)", lambda x: F.scaled(x, flip=True)), ("scaled(x, scale=None, flip=False)", lambda x: F.scaled(x, scale=None, flip=False)),
        ("Affine()(x)", lambda x: aff(x)), ("Affine()(x, shift=None)", lambda x: aff(x, shift=None)), ("Affine()(x, shift=0.25)", lambda x: aff(x, shift=0.25)),
        ("Affine()(x, shift=None) + Affine()(x)", lambda x: aff(x, shift=None) + aff(x)),
        ("total(x, axis=None) + total(x).sum()", lambda x: F.total(x, axis=None) + F.total(x).sum()),
        ("bounded(x, hi=None) - bounded(x)", lambda x: F.bounded(x, hi=None) - F.bounded(x)),
    ]
    xv = np.asarray([[0.5, -1.0, 2.0], [1.5, 0.25, -0.75]], np.float32)
    n = loud = 0
    for what, fn in forms:
        want = np.asarray(fn(jnp.asarray(xv)))
        try:
            m = jax2onnx.to_onnx(fn, [(2, 3)], model_name="c19kw")
        except Exception:
            loud += 1
            continue
        try:
            so = ort.SessionOptions()
            so.log_severity_level = 4
            sess = ort.InferenceSession(m.SerializeToString(), so, providers=["CPUExecutionProvider"])
            got = sess.run(None, {sess.get_inputs()[0].name: xv})[0]
        except Exception as e:
            return False, f"{what}: exported without an error but ONNX Runtime fails: {str(e)[:160]} ... {str(e)[-300:]}"
        if got.shape != want.shape or not np.allclose(got, want, rtol=1e-5, atol=1e-6):
            return False, f"{what}: exported model gives {got.dtype}{got.shape} {got.ravel()[:4]}, eager JAX {want.dtype}{want.shape} {want.ravel()[:4]}"
        n += 1
    if n < 10:
        return None, f"only {n} call forms could be exported ({loud} raised)"
    return True, f"{n} call forms agree with eager JAX ({loud} rejected loudly)"


def C04_function_symbol_binding_family():
    """C04 (bounded): run-time reads of dimension symbols inside @onnx_function bodies when one function is called at several
    sites whose arguments correlate their symbols differently (f(a, a) then f(a, b), f(a, b) then f(a, a), f(a, b) then
    f(b, a)), 2 functions x 3 orders, for 5 bindings of (T, S) including T != S."""
    jax, jnp = _jax()
    import jax2onnx
    import onnxruntime as ort
    try:
        from witnesses import _fnmods as F
    except ImportError:
        import _fnmods as F
    progs = []
    for fname in ("outer_sum", "index_grid"):
        # the target is looked up on its module at call time: the tracing-time substitute replaces the module attribute
        call = (lambda nm: lambda *xs: getattr(F, nm)(*xs))(fname)
        progs.append((f"{fname}(a, a) then {fname}(a, b)", (lambda f_: lambda a, b: (f_(a, a), f_(a, b)))(call)))
        progs.append((f"{fname}(a, b) then {fname}(a, a)", (lambda f_: lambda a, b: (f_(a, b), f_(a, a)))(call)))
        progs.append((f"{fname}(a, b) then {fname}(b, a)", (lambda f_: lambda a, b: (f_(a, b), f_(b, a)))(call)))
    n = loud = 0
    louds = []
    for what, fn in progs:
        try:
            m = jax2onnx.to_onnx(fn, [("T", 3), ("S", 3)], model_name="c04fn")
        except Exception as e:
            loud += 1
            louds.append(f"{what}: {type(e).__name__}: {str(e)[:80]}")
            continue
        if not m.functions:
            return None, f"{what}: the export contains no function (the target was not intercepted)"
        try:
            so = ort.SessionOptions()
            so.log_severity_level = 4
            sess = ort.InferenceSession(m.SerializeToString(), so, providers=["CPUExecutionProvider"])
        except Exception as e:
            return False, f"{what}: ONNX Runtime does not load the model: {str(e)[:160]}"
        names = [i.name for i in sess.get_inputs()]
        for t, s_ in ((1, 3), (3, 1), (2, 2), (2, 5), (4, 3)):
            a = (np.arange(t * 3, dtype=np.float32).reshape(t, 3) - 2.0) * 0.5
            b = np.linspace(-1.0, 1.0, s_ * 3, dtype=np.float32).reshape(s_, 3)
            want = [np.asarray(w_) for w_ in fn(jnp.asarray(a), jnp.asarray(b))]
            try:
                got = sess.run(None, dict(zip(names, [a, b])))
            except Exception as e:
                return False, f"{what} with T={t}, S={s_}: ONNX Runtime fails: {str(e)[:160]} ... {str(e)[-300:]}"
            for g_, w_ in zip(got, want):
                if g_.shape != w_.shape or not np.allclose(g_, w_, rtol=1e-5, atol=1e-5):
                    return False, f"{what} with T={t}, S={s_}: model gives shape {g_.shape}, JAX {w_.shape}"
            n += 1
    if n < 10:
        return None, f"only {n} evaluations possible ({loud} exports raised)"
    return True, f"{n} evaluations agree with JAX ({loud} exports raised loudly: {louds})"


def D38_one_label_for_different_data_dependent_extents():
    """C08: two graph outputs whose run-time lengths differ must not declare the same symbolic dimension name"""
    jax, jnp = _jax()
    import jax2onnx
    import onnxruntime as ort
    fn = lambda a, b: (jnp.arange(a.shape[0] * a.shape[0]).astype(jnp.float32), jnp.arange(a.shape[0] * b.shape[0]).astype(jnp.float32))  # noqa: E731
    try:
        m = jax2onnx.to_onnx(fn, [("T", 3), ("S", 3)], model_name="d38")
    except Exception as e:
        return True, f"export raised {type(e).__name__} (loud)"
    decl = [[(d.dim_param or d.dim_value) for d in o.type.tensor_type.shape.dim] for o in m.graph.output]
    so = ort.SessionOptions()
    so.log_severity_level = 4
    so.enable_mem_pattern = False
    sess = ort.InferenceSession(m.SerializeToString(), so, providers=["CPUExecutionProvider"])
    try:
        got = sess.run(None, dict(zip([i.name for i in sess.get_inputs()], [np.ones((3, 3), np.float32), np.ones((1, 3), np.float32)])))
    except Exception as e:
        return False, f"outputs declared {decl}; for T=3, S=1 ONNX Runtime fails: {str(e)[-230:]}"
    if len(decl) == 2 and len(decl[0]) == 1 and len(decl[1]) == 1 and isinstance(decl[0][0], str) and decl[0][0] and decl[0][0] == decl[1][0] and got[0].shape != got[1].shape:
        return False, f"outputs declare float[{decl[0][0]}] and float[{decl[1][0]}] - one name - but have {got[0].shape[0]} and {got[1].shape[0]} elements for T=3, S=1 (ONNX Runtime's buffer planner relies on equal names meaning equal sizes)"
    return True, f"declared {decl}, run-time {[g.shape for g in got]}"


def C09_builder_payload_family():
    """C09 (bounded): IRBuilder.add_initializer_from_scalar / add_initializer_from_array store what the precision policy says,
    in graph mode and in function mode (Constant nodes of function / control-flow bodies): with double precision enabled the
    payload is the given value bit for bit (no narrowing); without it floating payloads are float32 and everything else is
    unchanged.  12 values x 2 precision settings x 2 modes x 2 helpers."""
    from jax2onnx.converter.ir_builder import IRBuilder
    vals = [0.1, np.float64(1.0) / np.sqrt(6.0), np.float32(0.1), np.float16(0.1), np.asarray([0.1, 0.2, 1.0 / 3.0], np.float64), np.asarray([[0.1], [0.7]], np.float32),
            np.log(np.float64(7.0)), 3, np.int64(-5), np.asarray([1, 2, 3], np.int32), True, np.asarray([0.3], np.float16)]
    n = 0
    for dbl in (False, True):
        for fmode in (False, True):
            for helper in ("add_initializer_from_scalar", "add_initializer_from_array"):
                for k, v in enumerate(vals):
                    b = IRBuilder(opset=21, enable_double_precision=dbl)
                    b._function_mode = fmode
                    src = np.asarray(v)
                    out = getattr(b, helper)(f"c{k}", v if helper.endswith("scalar") else src)
                    cv = out.const_value
                    if cv is None:
                        return False, f"{helper}({src.dtype} value) [double={dbl}, function_mode={fmode}]: the value carries no constant payload"
                    got = np.asarray(cv.numpy())
                    want = src.astype(np.float32) if (not dbl and np.issubdtype(src.dtype, np.floating)) else src
                    what = f"{helper}({src.dtype} {src.ravel()[:2]}) [double={dbl}, function_mode={fmode}]"
                    if got.dtype != want.dtype or got.shape != want.shape or not np.array_equal(got, want):
                        return False, f"{what}: stored payload is {got.dtype} {got.ravel()[:2]!r}, the policy requires {want.dtype} {want.ravel()[:2]!r}"
                    n += 1
    return True, f"{n} payloads stored as the precision policy requires"


def D39_plugin_import_rebinds_jnp_cumsum():
    """C13: the first conversion of a process (which imports the plugins) must leave jax.numpy.cumsum as it was; run in a
    fresh interpreter, since the rebinding happens once per process"""
    import subprocess
    import sys
    code = (
        "import numpy as np, jax, jax.numpy as jnp\n"
        "before = jnp.cumsum\n"
        "x = jnp.asarray(np.arange(6, dtype=np.float32).reshape(2, 3))\n"
        "r0 = np.asarray(jnp.cumsum(x, 1))\n"
        "import jax2onnx\n"
        "jax2onnx.to_onnx(lambda a: a + 1.0, [(3,)])\n"
        "same = jnp.cumsum is before\n"
        "try:\n"
        "    r1 = np.asarray(jnp.cumsum(x, 1)); call = 'ok' if np.array_equal(r0, r1) else 'different result'\n"
        "except Exception as e:\n"
        "    call = f'raises {type(e).__name__}: {e}'\n"
        "print('RESULT', same, '|', getattr(jnp.cumsum, '__name__', '?'), '|', call)\n")
    p_ = subprocess.run([sys.executable, "-c", code], capture_output=True, text=True, timeout=600)
    line = [ln for ln in p_.stdout.splitlines() if ln.startswith("RESULT")]
    if not line:
        return None, f"probe did not finish: {(p_.stdout + p_.stderr)[-300:]}"
    same, name, call = [t.strip() for t in line[0][len("RESULT"):].split("|")]
    if same != "True" or call != "ok":
        return False, f"after the first to_onnx of a process jax.numpy.cumsum is `{name}` (same object: {same}); jnp.cumsum(x, 1), accepted before, {call}"
    return True, "jax.numpy.cumsum is the same object and accepts the same call after the first conversion"


def D40_concatenate_along_a_symbolic_axis_declares_the_sum():
    """C08/C04: concatenating along an axis of symbolic extent must not declare the first operand's extent for the result"""
    jax, jnp = _jax()
    import jax2onnx
    for what, fn, spec, feed in (("concatenate([y, 2y], 0) on y[B,3]", lambda y: jnp.concatenate([y, y * 2.0], 0), [("B", 3)], np.ones((4, 3), np.float32)),
                                 ("concatenate([y, y], 0).reshape(2, B, N) on y[B,N]", lambda y: jnp.concatenate([y, y], 0).reshape(2, y.shape[0], y.shape[1]), [("B", "N")], np.ones((4, 3), np.float32)),
                                 ("concatenate([y, y[:, :1]], 1) on y[3,N]", lambda y: jnp.concatenate([y, y[:, :1]], 1), [(3, "N")], np.ones((3, 5), np.float32))):
        try:
            m = jax2onnx.to_onnx(fn, spec, model_name="d40")
        except Exception:
            continue      # loud
        decl = [[(d.dim_param or d.dim_value) for d in o.type.tensor_type.shape.dim] for o in m.graph.output]
        try:
            got = _run(m, [feed])[0]
        except Exception as e:
            return False, f"{what}: ONNX Runtime fails: {str(e)[-200:]}"
        want = np.asarray(fn(jnp.asarray(feed)))
        if got[0].shape != want.shape or not np.allclose(got[0], want):
            return False, f"{what}: model gives {got[0].shape}, JAX {want.shape}"
        in_decl = {i.name: [(d.dim_param or d.dim_value) for d in i.type.tensor_type.shape.dim] for i in m.graph.input}
        binding = {}
        for dims in in_decl.values():
            for d, n_ in zip(dims, feed.shape):
                if isinstance(d, str):
                    binding[d] = n_
        for d, n_ in zip(decl[0], got[0].shape):
            if isinstance(d, str) and d in binding and binding[d] != n_:
                return False, f"{what}: the output is declared {decl[0]} but has shape {got[0].shape} when {binding}"
            if isinstance(d, int) and d and d != n_:
                return False, f"{what}: the output is declared {decl[0]} but has shape {got[0].shape}"
    return True, "declared extents of concatenations hold at run time"


def D41_complex_output_flagged_nchw():
    """C12: a complex 4-D output listed in outputs_as_nchw is rejected or exported as the NCHW view of the plain export"""
    jax, jnp = _jax()
    import jax2onnx
    fn = lambda x: jax.lax.complex(x, 2.0 * x)  # noqa: E731
    spec = [jax.ShapeDtypeStruct((2, 5, 7, 3), jnp.float32)]
    x = np.arange(2 * 5 * 7 * 3, dtype=np.float32).reshape(2, 5, 7, 3)
    try:
        m = jax2onnx.to_onnx(fn, spec, outputs_as_nchw=[0], model_name="d41")
    except Exception as e:
        return True, f"export raised {type(e).__name__} (loud)"
    try:
        got = _run(m, [x])[0][0]
    except Exception as e:
        return False, f"exported without an error, but ONNX Runtime fails: {str(e)[-160:]}"
    plain = _run(jax2onnx.to_onnx(fn, spec, model_name="d41p"), [x])[0][0]
    want = np.transpose(plain, (0, 3, 1, 2) + tuple(range(4, plain.ndim)))
    if got.shape != want.shape or not np.allclose(got, want):
        return False, f"flagged export gives {got.shape}, NCHW view of the plain export is {want.shape}"
    return True, "flagged complex output is the NCHW view of the plain one"


def C07_unique_history_family():
    """C07 (bounded): unique=True instances are compared by content at every export.  One model with two content-equal
    instances is exported, then one instance's weights are updated in place and it is exported again, then a static
    attribute of the other is reassigned and it is exported a third time; the same for a freshly built model.  After every
    export the model agrees with JAX and two call nodes share a definition only while the instances are content-equal."""
    jax, jnp = _jax()
    import jax2onnx
    try:
        from witnesses import _fnmods as F
    except ImportError:
        import _fnmods as F
    x = np.asarray([[0.5, -1.0, 2.0], [1.5, 0.25, -0.75]], np.float32)

    def export_and_compare(model, what, expect_shared):
        m = jax2onnx.to_onnx(model, [(2, 3)], model_name="c07hist")
        got = _run(m, [x])[0][0]
        want = np.asarray(model(jnp.asarray(x)))
        if got.shape != want.shape or not np.allclose(got, want, rtol=1e-5, atol=1e-6):
            return f"{what}: exported model gives {got.ravel()[:3]}, JAX {want.ravel()[:3]}"
        calls = [(n.domain, n.op_type) for n in m.graph.node if n.domain.startswith("custom")]
        if len(calls) != 2:
            return None
        shared = calls[0] == calls[1]
        if shared and not expect_shared:
            return f"{what}: both call nodes refer to {calls[0]} although the instances differ"
        return None
    n = 0
    for fresh in (False, True):
        t = F.Tower()
        steps = [("two content-equal instances", None, True),
                 ("after an in-place update of b's weights", lambda t_: setattr(t_.b.w, "value", jnp.asarray([0.5, -2.0, 4.0], jnp.float32)), False),
                 ("after reassigning a's static attribute", lambda t_: setattr(t_.a, "k", 3.0), False),
                 ("after making both equal again", lambda t_: (setattr(t_.a, "k", 1.0), setattr(t_.b.w, "value", jnp.asarray([1.0, 2.0, 3.0], jnp.float32))), True)]
        for what, mutate, expect_shared in (steps[1:] if fresh else steps):
            if mutate is not None:
                mutate(t)
            try:
                bad = export_and_compare(t, what + (" (never exported before)" if fresh else ""), expect_shared)
            except Exception as e:
                return None, f"{what}: export or run raised {type(e).__name__}: {str(e)[:120]}"
            if bad:
                return False, bad
            n += 1
            if fresh:
                break
    return True, f"{n} exports in one process agree with JAX and share definitions only between content-equal instances"


def _typed_for_declared_opset(model):
    """(ok, why): onnx.checker with full checks (operator signatures incl. type constraints at the declared opset)"""
    import onnx
    try:
        onnx.checker.check_model(model, full_check=True)
    except Exception as e:
        return False, str(e).strip().replace("\n", " ")[:260]
    return True, "ok"


def C11_type_constraints_family(only_int8=False):
    """C11 (bounded): element types are part of an operator's signature.  jnp.arange / lax.iota / jnp.linspace with result
    types float16, bfloat16, float32, int32, int64 (static and traced bounds) at every opset from 21 to the newest the installed
    onnx defines: the model is refused loudly or passes onnx.checker (full check: type constraints of the declared opset)."""
    jax, jnp = _jax()
    import onnx
    top = onnx.defs.onnx_opset_version()
    progs = []
    if only_int8:
        progs.append(("jnp.arange(stop, dtype=int8), traced stop", lambda stop: jnp.arange(stop, dtype=jnp.int8), [jax.ShapeDtypeStruct((), jnp.int32)]))
        progs.append(("jnp.arange(5, dtype=uint8) + x", lambda x: jnp.arange(5, dtype=jnp.uint8) + x, [jax.ShapeDtypeStruct((5,), jnp.uint8)]))
    else:
        for dt in (jnp.float16, jnp.bfloat16, jnp.float32, jnp.int32, jnp.int64):
            nm = np.dtype(dt).name
            progs.append((f"jnp.arange(stop, dtype={nm}), traced stop", (lambda d: lambda stop: jnp.arange(stop, dtype=d))(dt), [jax.ShapeDtypeStruct((), jnp.int32)]))
            progs.append((f"jnp.arange(6, dtype={nm}) * x", (lambda d: lambda x: jnp.arange(6, dtype=d) * x)(dt), [jax.ShapeDtypeStruct((6,), dt)]))
            progs.append((f"lax.iota({nm}, 7) + x", (lambda d: lambda x: jax.lax.iota(d, 7) + x)(dt), [jax.ShapeDtypeStruct((7,), dt)]))
        progs.append(("jnp.linspace(0, 1, 5, dtype=float16) + x", lambda x: jnp.linspace(0.0, 1.0, 5, dtype=jnp.float16) + x, [jax.ShapeDtypeStruct((5,), jnp.float16)]))
    n = loud = 0
    for what, fn, spec in progs:
        for opset in range(21, top + 1):
            try:
                m = _export(fn, spec, opset=opset)
            except Exception:
                loud += 1
                continue
            ok, why = _typed_for_declared_opset(m)
            if not ok:
                return False, f"{what} at opset {opset}: {why}"
            n += 1
    if n == 0:
        return None, "nothing could be exported"
    return True, f"{n} models type-check at their declared opset ({loud} exports refused loudly)"


def D43_nnx_attention_is_causal_not_ignored():
    """C19: nnx.dot_product_attention(q, k, v, is_causal=True) is rejected or exported with the causal mask"""
    jax, jnp = _jax()
    from flax import nnx
    import jax2onnx
    rng = np.random.default_rng(0)
    q, k, v = (rng.standard_normal((1, 4, 2, 8)).astype(np.float32) for _ in range(3))
    for what, kw in (("is_causal=True", {"is_causal": True}), ("is_causal=False", {"is_causal": False})):
        fn = (lambda kw_: lambda a, b, c: nnx.dot_product_attention(a, b, c, **kw_))(kw)
        try:
            want = np.asarray(fn(jnp.asarray(q), jnp.asarray(k), jnp.asarray(v)))
        except Exception as e:
            return None, f"eager call with {what} raises {type(e).__name__}"
        try:
            m = jax2onnx.to_onnx(fn, [q.shape, k.shape, v.shape], model_name="d43")
        except Exception as e:
            continue      # loud
        got = _run(m, [q, k, v])[0][0]
        if got.shape != want.shape or not np.allclose(got, want, rtol=1e-4, atol=1e-5):
            return False, f"nnx.dot_product_attention(q, k, v, {what}): exported model differs from eager flax by {float(np.max(np.abs(got - want))):.3g} (the argument is ignored)"
    return True, "is_causal is honoured or rejected"


def C16_returned_value_arity_family():
    """C16: output_binding.bind_returned_lowering_values on stub contexts: 1..3 output variables, every subset of them already
    bound to a connected value, 0..4 returned values (as a value, a tuple or a list).  A number of returned values that is
    neither one per output variable nor one per still unbound output variable must raise; otherwise every variable that was
    unbound is bound to the value at its position."""
    import itertools
    import types
    import onnx_ir as ir
    from jax2onnx.converter import output_binding as ob

    class Var:
        pass
    n = 0
    for n_out in (1, 2, 3):
        for pre in itertools.product((False, True), repeat=n_out):
            for n_ret in range(0, 5):
                for as_list in (False, True):
                    outvars = [Var() for _ in range(n_out)]
                    builder = types.SimpleNamespace(_var2val={}, inputs=[], initializers=[], nodes=[])
                    ctx = types.SimpleNamespace(builder=builder)
                    ctx.bind_value_for_var = lambda var, value, b=builder: b._var2val.__setitem__(var, value)
                    for k, (v_, bound) in enumerate(zip(outvars, pre)):
                        if bound:
                            val = ir.Value(name=f"pre{k}")
                            builder._var2val[v_] = val
                            builder.inputs.append(val)
                    rets = [ir.Value(name=f"r{k}") for k in range(n_ret)]
                    result = None if n_ret == 0 and not as_list else (rets[0] if n_ret == 1 and not as_list else (list(rets) if as_list else tuple(rets)))
                    unbound = [k for k, b_ in enumerate(pre) if not b_]
                    what = f"{n_out} outvars, already bound {list(pre)}, {n_ret} returned values ({type(result).__name__})"
                    eqn = types.SimpleNamespace(outvars=outvars)
                    try:
                        ob.bind_returned_lowering_values(ctx, eqn, result, primitive_name="stub")
                        raised = None
                    except (RuntimeError, TypeError) as e:
                        raised = e
                    n += 1
                    ok_arity = (not unbound) or result is None or n_ret == n_out or n_ret == len(unbound)
                    if raised is None and not ok_arity:
                        return False, f"{what}: accepted, although the values can be matched neither to all output variables nor to the unbound ones"
                    if raised is not None and ok_arity and isinstance(raised, RuntimeError):
                        return False, f"{what}: rejected ({raised})"
                    if raised is None and unbound and result is not None:
                        for j, k in enumerate(unbound):
                            want = rets[k] if n_ret == n_out else rets[j]
                            if builder._var2val.get(outvars[k]) is not want:
                                return False, f"{what}: output variable {k} is not bound to the value at its position"
    return True, f"{n} (outvars, bound subset, returned values) cases handled as the lowering contract requires"


def D44_lax_round_ties_away_from_zero():
    """C16: lax.round (default rounding method: ties away from zero) is rejected or rounds like JAX"""
    jax, jnp = _jax()
    x = np.asarray([0.5, 1.5, 2.5, -0.5, -1.5, 0.49, 2.51], np.float32)
    return _cmp(lambda a: jax.lax.round(a), [(7,)], [x])


def D45_dynamic_slice_clamps_the_start():
    """C16: lax.dynamic_slice clamps a start index that would run past the end, like JAX"""
    jax, jnp = _jax()
    x = np.arange(12, dtype=np.float32).reshape(4, 3)
    for i in (0, 2, 3, 7):
        ok, why = _cmp(lambda a, k: jax.lax.dynamic_slice(a, (k, 0), (2, 3)), [(4, 3), jax.ShapeDtypeStruct((), np.int32)], [x, np.asarray(i, np.int32)])
        if not ok:
            return ok, f"start index {i}: {why}"
    return True, "agrees with JAX for start indices 0, 2, 3, 7"


def _c06_act_a(v):
    return v * 2.0 + 1.0


def _c06_act_b(v):
    return -v + 0.5


def C06_cond_sites_family():
    """C06 (bounded): several conditionals in one graph whose branch callables are shared function objects (a gate helper applied
    at two independent sites, stacked twice, inside and after a loop body, two-branch switch), for all combinations of the
    predicates and 3 operand values per site; every exported model equals JAX."""
    import itertools
    jax, jnp = _jax()
    from jax import lax
    import jax2onnx

    def gate(p, v):
        return lax.cond(p, _c06_act_a, _c06_act_b, v)

    progs = [
        ("same helper at two independent sites", lambda p, q, x, y: (gate(p, x), gate(q, y))),
        ("same helper stacked", lambda p, q, x, y: gate(q, gate(p, x) + y)),
        ("helper inside a fori_loop body and after it", lambda p, q, x, y: gate(q, lax.fori_loop(0, 2, lambda i, c: gate(p, c) * 0.5, x) + y)),
        ("two-branch switch twice", lambda p, q, x, y: lax.switch(p.astype(jnp.int32), [_c06_act_a, _c06_act_b], x) + lax.switch(q.astype(jnp.int32), [_c06_act_a, _c06_act_b], y)),
        ("helper and an inline lambda with the same body", lambda p, q, x, y: gate(p, x) + lax.cond(q, lambda v: v * 2.0 + 1.0, lambda v: -v + 0.5, y)),
    ]
    spec = [jax.ShapeDtypeStruct((), np.bool_), jax.ShapeDtypeStruct((), np.bool_), jax.ShapeDtypeStruct((3,), np.float32), jax.ShapeDtypeStruct((3,), np.float32)]
    xs = [np.asarray([0.5, -1.0, 2.0], np.float32), np.asarray([3.0, 0.25, -4.0], np.float32)]
    ys = [np.asarray([10.0, 20.0, -30.0], np.float32), np.asarray([-0.5, 7.0, 1.5], np.float32)]
    n = loud = 0
    for what, fn in progs:
        try:
            m = jax2onnx.to_onnx(fn, spec, model_name="c06sites")
        except Exception:
            loud += 1
            continue
        import onnxruntime as ort
        so = ort.SessionOptions()
        so.log_severity_level = 4
        sess = ort.InferenceSession(m.SerializeToString(), so, providers=["CPUExecutionProvider"])
        names = [i.name for i in sess.get_inputs()]
        for p_, q_, x, y in itertools.product((False, True), (False, True), xs, ys):
            feeds = [np.asarray(p_), np.asarray(q_), x, y]
            got = sess.run(None, dict(zip(names, feeds)))
            want = fn(jnp.asarray(p_), jnp.asarray(q_), jnp.asarray(x), jnp.asarray(y))
            want = [np.asarray(t) for t in (want if isinstance(want, tuple) else (want,))]
            for g_, w_ in zip(got, want):
                if g_.shape != w_.shape or not np.allclose(g_, w_, rtol=1e-5, atol=1e-6):
                    return False, f"{what} with predicates ({p_}, {q_}), x={x.tolist()}, y={y.tolist()}: model gives {g_.tolist()}, JAX {w_.tolist()}"
            n += 1
    if n < 32:
        return None, f"only {n} evaluations possible ({loud} exports raised)"
    return True, f"{n} evaluations of programs with several conditionals agree with JAX ({loud} exports raised loudly)"


def D46_jnp_mean_dtype_not_ignored():
    """C19: jnp.mean(x, dtype=float16) is rejected or exported with the requested result type"""
    jax, jnp = _jax()
    import jax2onnx
    x = np.arange(6, dtype=np.float32).reshape(2, 3)
    for what, fn in (("jnp.mean(a, axis=1, dtype=float16)", lambda a: jnp.mean(a, axis=1, dtype=jnp.float16)), ("jnp.mean(a, dtype=float16)", lambda a: jnp.mean(a, dtype=jnp.float16))):
        want = np.asarray(fn(jnp.asarray(x)))
        try:
            m = jax2onnx.to_onnx(fn, [(2, 3)], model_name="d46")
        except Exception:
            continue
        got = _run(m, [x])[0][0]
        if got.dtype != want.dtype:
            return False, f"{what}: the exported model returns {got.dtype}, JAX {want.dtype} (the dtype argument is ignored)"
    return True, "dtype honoured or rejected"


def D47_nnx_attention_positional_bias():
    """C19: the fourth positional parameter of nnx.dot_product_attention is `bias` (then `mask`), also while tracing"""
    jax, jnp = _jax()
    from flax import nnx
    import jax2onnx
    rng = np.random.default_rng(0)
    q, k, v = (rng.standard_normal((1, 4, 2, 8)).astype(np.float32) for _ in range(3))
    bias = rng.standard_normal((1, 2, 4, 4)).astype(np.float32)
    mask = rng.standard_normal((1, 2, 4, 4)) > 0.0
    mask[..., 0] = True
    for what, fn, feeds in (("dot_product_attention(q, k, v, bias)", lambda a, b, c, d: nnx.dot_product_attention(a, b, c, d), [q, k, v, bias]),
                            ("dot_product_attention(q, k, v, bias, mask)", lambda a, b, c, d, e: nnx.dot_product_attention(a, b, c, d, e), [q, k, v, bias, mask]),
                            ("dot_product_attention(q, k, v, mask=mask, bias=bias)", lambda a, b, c, d, e: nnx.dot_product_attention(a, b, c, mask=e, bias=d), [q, k, v, bias, mask])):
        want = np.asarray(fn(*[jnp.asarray(t) for t in feeds]))
        try:
            m = jax2onnx.to_onnx(fn, [jax.ShapeDtypeStruct(t.shape, t.dtype) for t in feeds], model_name="d47")
        except Exception:
            continue
        try:
            got = _run(m, feeds)[0][0]
        except Exception as e:
            return False, f"{what}: exported without an error, ONNX Runtime fails: {str(e)[-160:]}"
        if got.shape != want.shape or not np.allclose(got, want, rtol=1e-4, atol=1e-5):
            return False, f"{what}: exported model differs from eager flax by {float(np.max(np.abs(got - want))):.3g} (the positional argument is bound to another parameter)"
    return True, "positional bias / mask bound as in flax"


def D48_arctan2_in_double_precision():
    """C09: jnp.arctan2 exported with enable_double_precision=True agrees with float64 numpy to about 1e-12"""
    jax, jnp = _jax()
    import jax2onnx
    a = np.asarray([0.3, -1.2, 2.5, 1e-3], np.float64)
    b = np.asarray([1.1, 0.4, -0.7, 3.0], np.float64)
    try:
        m = jax2onnx.to_onnx(lambda x, y: jnp.arctan2(x, y), [jax.ShapeDtypeStruct((4,), np.float64)] * 2, enable_double_precision=True, model_name="d48")
    except Exception as e:
        return True, f"export raised {type(e).__name__} (loud)"
    got = _run(m, [a, b])[0][0]
    err = float(np.max(np.abs(got - np.arctan2(a, b))))
    if got.dtype != np.float64 or err > 1e-12:
        casts = [n.op_type for n in m.graph.node if n.op_type == "Cast"]
        return False, f"double-precision export of jnp.arctan2 returns {got.dtype} with error {err:.3g} against float64 numpy ({len(casts)} Cast nodes: the angle is computed in single precision)"
    return True, f"error {err:.3g}"


def D49_scan_over_float32_xs_in_double_precision():
    """C03/C09: lax.scan over a float32 sequence under enable_double_precision=True gives a well-typed model"""
    jax, jnp = _jax()
    from jax import lax
    import jax2onnx

    def f(x):
        return lax.scan(lambda c, t: (c + t, c * t), x, jnp.arange(4, dtype=jnp.float32))
    try:
        m = jax2onnx.to_onnx(f, [jax.ShapeDtypeStruct((3,), np.float64)], enable_double_precision=True, model_name="d49")
    except Exception as e:
        return True, f"export raised {type(e).__name__} (loud)"
    return _wellformed(m)


def _scope_walk(model):
    """(ok, why): every value is defined before it is read, in its own graph or an enclosing one; function bodies read only their inputs"""
    def walk(g, outer, where):
        defined = set(outer) | {i.name for i in g.input} | {i.name for i in g.initializer}
        for n in g.node:
            for i in n.input:
                if i and i not in defined:
                    return f"{where}: node {n.name or n.op_type} reads `{i}`, which no enclosing scope defines before it"
            for a in n.attribute:
                for sub in ([a.g] if a.type == 5 else list(a.graphs) if a.type == 10 else []):
                    bad = walk(sub, defined, f"{where}/{n.name or n.op_type}.{a.name}")
                    if bad:
                        return bad
            for o in n.output:
                if o:
                    defined.add(o)
        for o in g.output:
            if o.name and o.name not in defined:
                return f"{where}: output `{o.name}` is not defined"
        return None
    bad = walk(model.graph, set(), "graph")
    if bad:
        return False, bad
    for f in model.functions:
        defined = set(f.input)
        for n in f.node:
            for i in n.input:
                if i and i not in defined:
                    return False, f"function {f.name}: node {n.name or n.op_type} reads `{i}`, which the body does not define before it"
            for a in n.attribute:
                for sub in ([a.g] if a.type == 5 else list(a.graphs) if a.type == 10 else []):
                    bad = walk(sub, defined, f"function {f.name}/{n.op_type}.{a.name}")
                    if bad:
                        return False, bad
            defined.update(o for o in n.output if o)
    return True, "scopes ok"


def C03_control_flow_scopes_family():
    """C03 (bounded): programs in which a Loop/If/Scan body binds or captures a value carrying a symbolic dimension and the
    enclosing scope (top level or an @onnx_function body) uses that dimension's run-time size afterwards; 4 constructs x 4
    uses, exported with static and with symbolic shapes, plus 2 function-body programs.  Each exported model must pass the
    ONNX checker (full), strict shape inference, a scope walk (no value read outside the scope that defines it), load in
    ONNX Runtime, and agree with JAX for two bindings of the symbols."""
    jax, jnp = _jax()
    from jax import lax
    import jax2onnx
    try:
        from witnesses import _fnmods as F
    except ImportError:
        import _fnmods as F

    def k_cond(x, y):
        return lax.cond(jnp.sum(x) > 0.0, lambda a: a.sum(), lambda a: a.mean() - 1.0, x)

    def k_while_capture(x, y):
        return lax.while_loop(lambda s: s[0] < 2, lambda s: (s[0] + 1, s[1] + y.sum()), (jnp.int32(0), jnp.float32(0.5)))[1] + x.sum()

    def k_while_carry(x, y):
        return lax.while_loop(lambda s: s[0] < 3, lambda s: (s[0] + 1, s[1] + y.sum(axis=0)), (jnp.int32(0), x))[1].sum()

    def k_scan_carry(x, y):
        return lax.scan(lambda c, row: (c + row.sum(), None), jnp.float32(0.0), x)[0] + y.sum()

    uses = [("broadcast_to B", lambda s, x, y: jnp.broadcast_to(s, (x.shape[0],))),
            ("zeros (B,2)", lambda s, x, y: jnp.zeros((x.shape[0], 2), dtype=x.dtype) + s),
            ("arange C", lambda s, x, y: jnp.arange(y.shape[0]).astype(x.dtype) * s),
            ("reshape -1", lambda s, x, y: (x * s).reshape((-1,)) + y.sum())]
    progs = []
    for kn, k in (("cond", k_cond), ("while capturing y", k_while_capture), ("while carrying x", k_while_carry), ("scan over rows", k_scan_carry)):
        for un, u in uses:
            progs.append((f"{kn} then {un}", (lambda k_, u_: lambda x, y: u_(k_(x, y), x, y))(k, u)))
    progs.append(("function body: cond then zeros (B,2)", lambda x, y: (F.batch_cond_then_zeros(x), y * 2.0)))
    progs.append(("function body: while then broadcast_to B", lambda x, y: (F.batch_while_then_broadcast(x), y * 2.0)))
    bindings = [(4, 5), (2, 2)]
    n = 0
    loud = 0
    for what, fn in progs:
        for mode, spec in (("static", [(4, 3), (5, 3)]), ("symbolic", [("B", 3), ("C", 3)])):
            try:
                m = jax2onnx.to_onnx(fn, spec, model_name="c03scopes")
            except Exception:
                loud += 1
                continue
            for chk in (_wellformed, _scope_walk):
                ok, why = chk(m)
                if not ok:
                    return False, f"{what} [{mode}]: {why}"
            for (b, c) in (bindings if mode == "symbolic" else bindings[:1]):
                xb = ((np.arange(b * 3, dtype=np.float32).reshape(b, 3) - 3.0) * 0.5)
                yb = np.linspace(-1.0, 1.0, c * 3, dtype=np.float32).reshape(c, 3)
                try:
                    import onnxruntime as ort
                    so = ort.SessionOptions()
                    so.log_severity_level = 4
                    sess = ort.InferenceSession(m.SerializeToString(), so, providers=["CPUExecutionProvider"])
                    got = sess.run(None, dict(zip([i.name for i in sess.get_inputs()], [xb, yb])))
                except Exception as e:
                    return False, f"{what} [{mode}] B={b} C={c}: ONNX Runtime fails: {str(e)[:200]}"
                want = fn(jnp.asarray(xb), jnp.asarray(yb))
                want = [np.asarray(t) for t in (want if isinstance(want, tuple) else (want,))]
                if len(got) != len(want):
                    return False, f"{what} [{mode}]: {len(got)} outputs, JAX has {len(want)}"
                for g_, w_ in zip(got, want):
                    if g_.shape != w_.shape or not np.allclose(g_, w_, rtol=1e-5, atol=1e-5):
                        return False, f"{what} [{mode}] B={b} C={c}: ONNX {g_.shape} {g_.ravel()[:4]} vs JAX {w_.shape} {w_.ravel()[:4]}"
                n += 1
    if n < 20:
        return None, f"only {n} evaluations were possible ({loud} exports raised)"
    return True, f"{n} evaluations of control-flow programs well formed and equal to JAX ({loud} exports raised loudly)"


ALL = {
    "C18_nan_vs_finite": C18_nan_vs_finite, "C18_inf_vs_finite": C18_inf_vs_finite, "C18_shape_mismatch": C18_shape_mismatch,
    "C18_count_mismatch": C18_count_mismatch, "C18_beyond_tolerance": C18_beyond_tolerance, "C18_feed_construction_family": C18_feed_construction_family,
    "C17_range_bounds_family": C17_range_bounds_family,
    "C13_apply_patches_restores": C13_apply_patches_restores,
    "C13_x64_flag_restored": C13_x64_flag_restored,
    "D17": D17_inherited_call_restored,
    "D26": D26_inherited_patch_not_left_behind,
    "D29": D29_static_kwarg_value_in_function_key,
    "D30": D30_passthrough_function_body,
    "D34": D34_tensorscatter_mode_at_opset_24,
    "D35": D35_float32_constant_next_to_a_float32_cast_under_double_precision,
    "D31": D31_custom_name_collides_with_loop_body_value,
    "C03_control_flow_scopes_family": C03_control_flow_scopes_family,
    "C19_function_target_kwargs_family": C19_function_target_kwargs_family,
    "C04_function_symbol_binding_family": C04_function_symbol_binding_family,
    "D38": D38_one_label_for_different_data_dependent_extents,
    "C09_builder_payload_family": C09_builder_payload_family,
    "D39": D39_plugin_import_rebinds_jnp_cumsum,
    "D40": D40_concatenate_along_a_symbolic_axis_declares_the_sum, "D41": D41_complex_output_flagged_nchw,
    "C07_unique_history_family": C07_unique_history_family,
    "C11_type_constraints_family": C11_type_constraints_family, "D42": lambda: C11_type_constraints_family(only_int8=True),
    "D43": D43_nnx_attention_is_causal_not_ignored,
    "C16_returned_value_arity_family": C16_returned_value_arity_family,
    "D44": D44_lax_round_ties_away_from_zero, "D45": D45_dynamic_slice_clamps_the_start,
    "C06_cond_sites_family": C06_cond_sites_family,
    "D46": D46_jnp_mean_dtype_not_ignored, "D47": D47_nnx_attention_positional_bias,
    "D48": D48_arctan2_in_double_precision, "D49": D49_scan_over_float32_xs_in_double_precision,
    "C13_retrace_family": C13_retrace_family, "D36": D36_jit_helper_keeps_working_after_conversion,
    "C13_rebinding_between_conversions": C13_rebinding_between_conversions,
    "D1": D1_max_nonscalar_side_operand,
    "D2": D2_reshape_max_nonscalar,
    "D3a": D3_transpose_chain_intermediate_is_output,
    "D3b": D3_reshape_chain_intermediate_is_output,
    "D3c": D3_reduce_intermediate_is_output,
    "D3d": D3_t1_out_is_output,
    "D3e": D3_chain_intermediate_captured_by_cond,
    "D13": D13_orphan_transpose_feeding_only_cond,
    "D4": D4_symbolic_reshape_swap,
    "D5": D5_floordiv_negative,
    "D6": D6_cache_key_collision,
    "D7": D7_unused_nchw_input_kept,
    "D8": D8_monkey_patch_leak_on_failing_acquire,
    "D9a": lambda: D9_allclose_narrowing("int64_wrap"),
    "D9b": lambda: D9_allclose_narrowing("float_trunc"),
    "D9c": lambda: D9_allclose_narrowing("int_to_bool"),
    "D9d": lambda: D9_allclose_narrowing("f64_overflow"),
    "D15": D15_forest_fold_stale_shape,
    "D16": D16_nchw_input_dtype_matches_plain,
    "C05_output_order_family": C05_output_order_family,
    "C05_output_integer_types_family": C05_output_integer_types_family,
    "C04_dimexpr_family": C04_dimexpr_family,
    "C02_table_family": C02_table_family,
    "C06_fori_trip_counts": C06_fori_trip_counts, "C06_loop_trip_family": C06_loop_trip_family, "C06_scan_arity_family": C06_scan_arity_family,
    "C07_sharing_family": C07_sharing_family,
    "C03_function_identifiers_unique": C03_function_identifiers_unique,
    "C09_function_body_constants_follow_precision": C09_function_body_constants_follow_precision,
    "C09_literal_precision_family": C09_literal_precision_family,
    "C19_reduction_kwargs_history_family": C19_reduction_kwargs_history_family,
    "D32_prod_integer_promotion": lambda: C19_reduction_kwargs_history_family(only_prod_default=True),
    "D10_cumprod_lax": D10_cumprod_lax, "D10_cumprod_jnp": D10_cumprod_jnp, "D10_bitcast": D10_bitcast,
    "C11_ops_within_opset": C11_ops_within_opset, "C11_function_body_opset": C11_function_body_opset,
    "C16_reverse_scan_is_loud": C16_reverse_scan_is_loud, "C16_function_dim_without_origin_is_loud": C16_function_dim_without_origin_is_loud, "C16_unbound_output_is_loud": C16_unbound_output_is_loud,
    "C12_nchw_symbolic_dims": C12_nchw_symbolic_dims,
}

try:
    from witnesses import graphs as _graphs
except ImportError:  # run as a script from the witnesses directory
    import graphs as _graphs
ALL.update(_graphs.ALL)

if __name__ == "__main__":
    import sys
    import traceback
    names = sys.argv[1:] or list(ALL)
    for n in names:
        try:
            ok, detail = ALL[n]()
        except Exception:
            ok, detail = None, traceback.format_exc()[-600:]
        print(f"{n}: {'HOLDS' if ok else ('CRASH' if ok is None else 'FAILS')} -- {detail}")
