import json, sys, jsonschema, glob
m = json.load(open('/verif/MANIFEST.json')) if __import__('os').path.exists('/verif/MANIFEST.json') else None
if m is not None:
    jsonschema.validate(m, json.load(open('/root/.vp/MANIFEST.schema.json'))); print('MANIFEST valid,', len(m['checks']), 'checks,', len(m.get('not_applicable', [])), 'n/a')
es = json.load(open('/root/.vp/EVIDENCE.schema.json'))
for f in sorted(glob.glob('/verif/evidence/*.json')):
    jsonschema.validate(json.load(open(f)), es); print('valid', f)
