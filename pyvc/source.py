"""Mechanical extraction of the real code: every run re-reads the module
sources under the repository root and parses them with `ast`.  Nothing is
copied by hand; a function is addressed by `dotted.module:Qual.name`."""
from __future__ import annotations

import ast
import hashlib
import os

REPO = os.environ.get("PYVC_REPO", "/repo")


class ToolError(Exception):
    """Checker cannot do its job (missing target, bad contract…): exit 3."""


class Module:
    def __init__(self, name: str, path: str):
        self.name, self.path = name, path
        with open(path, "r", encoding="utf-8") as f:
            self.text = f.read()
        self.sha = hashlib.sha1(self.text.encode()).hexdigest()[:12]
        self.tree = ast.parse(self.text, filename=path)
        self.is_pkg = os.path.basename(path) == "__init__.py"
        self.toplevel: dict[str, ast.AST] = {}
        self.imports: dict[str, str] = {}  # local alias -> canonical dotted path
        self._index()

    def _abs(self, level: int, mod: str | None) -> str:
        if level == 0:
            return mod or ""
        parts = self.name.split(".")
        if not self.is_pkg:
            parts = parts[:-1]
        if level > 1:
            parts = parts[: -(level - 1)]
        return ".".join(parts + ([mod] if mod else []))

    def _index_stmts(self, body):
        for st in body:
            if isinstance(st, (ast.FunctionDef, ast.AsyncFunctionDef, ast.ClassDef)):
                self.toplevel[st.name] = st
            elif isinstance(st, ast.Assign):
                for t in st.targets:
                    if isinstance(t, ast.Name):
                        self.toplevel[t.id] = st
            elif isinstance(st, ast.AnnAssign) and isinstance(st.target, ast.Name) and st.value is not None:
                self.toplevel[st.target.id] = st
            elif isinstance(st, ast.Import):
                for a in st.names:
                    if a.asname:
                        self.imports[a.asname] = a.name
                    else:
                        self.imports[a.name.split(".")[0]] = a.name.split(".")[0]
            elif isinstance(st, ast.ImportFrom):
                base = self._abs(st.level, st.module)
                for a in st.names:
                    self.imports[a.asname or a.name] = f"{base}.{a.name}"
            elif isinstance(st, (ast.If, ast.Try)):
                # `if TYPE_CHECKING:` / try-import blocks: index both arms
                self._index_stmts(st.body)
                self._index_stmts(getattr(st, "orelse", []))
                for h in getattr(st, "handlers", []):
                    self._index_stmts(h.body)

    def _index(self):
        self._index_stmts(self.tree.body)

    def find(self, qual: str) -> ast.AST:
        """Locate a def/class by qualified name `A.b.c` (nested defs allowed)."""
        parts = qual.split(".")
        node: ast.AST = self.tree
        for p in parts:
            found = None
            for st in ast.walk(node) if node is not self.tree else self.tree.body:
                if isinstance(st, (ast.FunctionDef, ast.AsyncFunctionDef, ast.ClassDef)) and st.name == p and st is not node:
                    found = st
                    break
            if found is None and node is self.tree:
                # nested under if/try at top level
                st = self.toplevel.get(p)
                if isinstance(st, (ast.FunctionDef, ast.ClassDef)):
                    found = st
            if found is None:
                raise ToolError(f"contract target {self.name}:{qual} not found in {self.path}")
            node = found
        return node


_MODULES: dict[str, Module] = {}


def module_path(name: str) -> str | None:
    rel = name.replace(".", "/")
    for cand in (f"{REPO}/{rel}.py", f"{REPO}/{rel}/__init__.py"):
        if os.path.isfile(cand):
            return cand
    return None


def load_module(name: str) -> Module:
    if name not in _MODULES:
        p = module_path(name)
        if p is None:
            raise ToolError(f"module {name} not found under {REPO}")
        _MODULES[name] = Module(name, p)
    return _MODULES[name]


def is_repo_module(name: str) -> bool:
    return module_path(name) is not None


def resolve_dotted(path: str):
    """Split a canonical dotted path into (repo module, remaining attribute
    chain) using the longest prefix that is a repository module; returns
    (None, path) for external names."""
    parts = path.split(".")
    for k in range(len(parts), 0, -1):
        mod = ".".join(parts[:k])
        if is_repo_module(mod):
            return mod, parts[k:]
    return None, parts


def loops_of(fn: ast.AST) -> list:
    """For/While statements of a function in source order (ordinal = index),
    not descending into nested function definitions."""
    out = []

    def rec(n):
        for ch in ast.iter_child_nodes(n):
            if isinstance(ch, (ast.FunctionDef, ast.AsyncFunctionDef, ast.Lambda, ast.ClassDef)):
                continue
            if isinstance(ch, (ast.For, ast.While)):
                out.append(ch)
            rec(ch)

    rec(fn)
    out.sort(key=lambda n: (n.lineno, n.col_offset))
    return out


def assigned_names(stmts) -> set:
    """Names (re)bound anywhere in the statements (not in nested defs)."""
    names = set()

    def tgt(t):
        if isinstance(t, ast.Name):
            names.add(t.id)
        elif isinstance(t, (ast.Tuple, ast.List)):
            for e in t.elts:
                tgt(e)
        elif isinstance(t, ast.Starred):
            tgt(t.value)

    def rec(n):
        if isinstance(n, (ast.FunctionDef, ast.AsyncFunctionDef, ast.ClassDef)):
            names.add(n.name)
            return
        if isinstance(n, ast.Lambda):
            return
        if isinstance(n, ast.Assign):
            for t in n.targets:
                tgt(t)
        elif isinstance(n, (ast.AugAssign, ast.AnnAssign)):
            tgt(n.target)
        elif isinstance(n, (ast.For, ast.comprehension)):
            tgt(n.target)
        elif isinstance(n, ast.NamedExpr):
            tgt(n.target)
        elif isinstance(n, ast.With):
            for it in n.items:
                if it.optional_vars is not None:
                    tgt(it.optional_vars)
        elif isinstance(n, ast.ExceptHandler) and n.name:
            names.add(n.name)
        for ch in ast.iter_child_nodes(n):
            rec(ch)

    for s in stmts:
        rec(s)
    return names


MUTATING_METHODS = {"append", "add", "update", "extend", "pop", "insert", "remove", "clear", "discard", "setdefault", "popitem", "sort", "reverse"}


def mutated_names(stmts) -> set:
    """Names whose container content may be mutated in place."""
    names = set()
    for s in stmts:
        for n in ast.walk(s):
            if isinstance(n, ast.Call) and isinstance(n.func, ast.Attribute) and n.func.attr in MUTATING_METHODS and isinstance(n.func.value, ast.Name):
                names.add(n.func.value.id)
            if isinstance(n, (ast.Assign, ast.AugAssign)):
                tg = n.targets if isinstance(n, ast.Assign) else [n.target]
                for t in tg:
                    if isinstance(t, ast.Subscript):
                        b = t.value
                        while isinstance(b, ast.Subscript):
                            b = b.value
                        if isinstance(b, ast.Name):
                            names.add(b.id)
    return names
