"""The World: contracts, assumed models of externals, enum tables, heap
schema, axioms; plus the Exec class tying the mixins together."""
from __future__ import annotations

import ast
import z3

from .vals import *  # noqa
from .core import *  # noqa
from .exprs import ExprMixin
from .stmts import StmtMixin, LoopSpec, LoopCtx
from . import source as S
from .source import ToolError


class Ctx:
    """What a requires/ensures clause may talk about."""

    def __init__(self, ex, args: dict, result=None, exc=None, old_heap=None, old_ghost=None, extra=None):
        self.ex, self.args, self.result, self.exc = ex, args, result, exc
        self.old_heap = old_heap or {}
        self.old_ghost = old_ghost or {}
        self.extra = extra or {}

    @property
    def now_entry(self):
        """the allocation clock when the function was entered (Contract.track_alloc)"""
        return self.old_ghost.get("now", z3.Int("now0"))

    def existed_at_entry(self, ref_term, sort):
        return self.ex.born(sort)(ref_term) < self.now_entry

    def __getitem__(self, name):
        return self.args[name]

    def field(self, obj: VRef, name: str) -> V:
        return self.ex.read_field(obj, name)

    def old_arrays(self, sort: str, field: str):
        """heap arrays of a field in the pre-state (the initial arrays when the field was not touched before)"""
        key = (sort, field)
        if key in self.old_heap:
            return self.old_heap[key]
        t = self.ex.world.field_type(sort, field)
        return [z3.Const(f"H0.{sort}.{field}" + (f"!{i}" if i else ""), z3.ArraySort(ref_sort(sort), s)) for i, s in enumerate(flat_sorts(t))]

    def old_field(self, obj: VRef, name: str) -> V:
        cur = self.ex.heap
        self.ex.heap = dict(self.old_heap)
        try:
            # reading may lazily create the initial array; keep it in both
            v = self.ex.read_field(obj, name)
            for k, a in self.ex.heap.items():
                self.old_heap.setdefault(k, a)
                cur.setdefault(k, a)
            return v
        finally:
            self.ex.heap = cur


class Contract:
    def __init__(self, target, params=None, requires=(), ensures=(), exc_ensures=(), raises=None,
                 ret=None, may_raise=(), modifies=(), loops=None, props=(), assumed=False, replay=None,
                 inline=False, uf=False, cm_contract=None, kind="function", note="", witnesses=(),
                 reads_heap=False, unroll_while=0, self_type=None, verify=True, inline_callees=False, cm_body=None, local_types=None, ghost_init=None, custom=None, opaque_externals=False, fresh_result=False, definitions=(), fid=None, track_alloc=False, deep_feasibility=False):
        self.track_alloc = track_alloc
        self.deep_feasibility = deep_feasibility
        self.target = target
        self.module, self.qual = target.split(":")
        self.params = params  # dict name -> Ty (None => from annotations)
        self.requires, self.ensures, self.exc_ensures = list(requires), list(ensures), list(exc_ensures)
        self.raises = raises  # None: unconstrained; set(): must not raise; {..}: only these
        self.ret, self.may_raise, self.modifies = ret, list(may_raise), modifies
        self.loops = loops or {}
        self.props = list(props)
        self.assumed, self.replay, self.inline, self.uf = assumed, replay, inline, uf
        self.cm_contract, self.kind, self.note = cm_contract, kind, note
        self.witnesses = list(witnesses)
        self.reads_heap = reads_heap
        self.unroll_while = unroll_while
        self.self_type = self_type
        self.inline_callees = inline_callees
        self.cm_body = cm_body
        self.local_types = local_types or {}
        self.ghost_init = ghost_init
        self.custom = custom
        self.opaque_externals = opaque_externals
        self.fresh_result = fresh_result
        self._fid = fid
        self.definitions = list(definitions)  # definitional axioms assumed when verifying the body (not call-site obligations)
        self.verify = verify and not assumed
        if not assumed and not self.may_raise and raises:
            self.may_raise = sorted(raises)

    @property
    def fid(self):
        return self._fid or f"{self.module}:{self.qual}"


class World:
    def __init__(self):
        self.contracts: dict[str, Contract] = {}
        self.path_models: dict[str, object] = {}  # canonical dotted path -> V | callable(ex,args,kwargs)
        self.enums: dict[str, dict] = {}  # name -> {"members": {NAME: code}, "int": bool, "path": dotted}
        self.fields: dict[tuple, Ty] = {}
        self.ref_classes: dict[str, set] = {}
        self._axioms: list = []
        self.global_overrides: dict[tuple, V] = {}
        self.methods: dict = {}
        self.trusted: list[str] = []
        self.exc_classes: dict[str, str] = {}
        self.class_sorts: dict[str, str] = {}  # canonical class path -> ref sort
        self._pow2 = z3.Function("pow2", z3.IntSort(), z3.IntSort())
        self._global_cache: dict = {}
        self.ufs: dict = {}

    # ------------------------------------------------------------ registration
    def add_contract(self, c: Contract):
        self.contracts[c.fid] = c
        return c

    def add_axiom(self, ax, name=""):
        self._axioms.append(ax)

    def axioms(self):
        return list(self._axioms)

    def trust(self, text: str):
        if text not in self.trusted:
            self.trusted.append(text)

    def fn(self, name, *sorts):
        key = (name, tuple(str(s) for s in sorts))
        if key not in self.ufs:
            self.ufs[key] = z3.Function(name, *sorts)
        return self.ufs[key]

    def field_type(self, sort, field) -> Ty:
        try:
            return self.fields[(sort, field)]
        except KeyError:
            raise OutOfSubset(f"unmodelled attribute {sort}.{field}")

    def pow2(self, t):
        ts = z3.simplify(t)
        vals = _finite_values(ts)
        if vals is not None and all(v <= 4096 for v in vals):
            r = self._pow2(ts)
            for v in sorted(vals, reverse=True):
                if v >= 0:
                    r = z3.If(ts == v, z3.IntVal(2 ** v), r)
            return z3.simplify(r)
        return self._pow2(ts)

    def pow2_axioms(self):
        a, b = z3.Ints("a!p2 b!p2")
        p = self._pow2
        return [
            z3.ForAll([a, b], z3.Implies(z3.And(0 <= a, a <= b), p(a) <= p(b)), patterns=[z3.MultiPattern(p(a), p(b))]),
            z3.ForAll([a, b], z3.Implies(z3.And(0 <= a, a < b), 2 * p(a) <= p(b)), patterns=[z3.MultiPattern(p(a), p(b))]),
            z3.ForAll([a], z3.Implies(a >= 0, p(a) >= 1), patterns=[p(a)]),
            p(0) == 1,
        ]

    def enum_is_int(self, enum):
        return self.enums[enum].get("int", True)

    # ------------------------------------------------------------ hooks with defaults
    def ref_truthy(self, ex, v):
        return None

    def ref_eq(self, ex, a, b):
        return None

    def binop_hook(self, ex, op, a, b):
        return None

    def getitem_hook(self, ex, base, idx):
        return None

    def setitem_hook(self, ex, base, idx, v):
        return False

    def str_hook(self, ex, v):
        return None

    def iter_hook(self, ex, it):
        return None

    def with_value(self, ex, cm, body_thunk):
        return False

    def with_call(self, ex, fn, args, kwargs, body_thunk):
        return False

    def havoc_heap_for_loop(self, ex, body):
        """Havoc exactly the modelled fields the loop body may write: attribute
        assignments, in-place mutation of containers read from attributes, and the
        `modifies` of the contracts of the functions it calls (callees without a
        contract are analysed transitively from their source)."""
        module = ex.frames[-1].get("module") if ex.frames else None
        fields = self.heap_effects(body, module or (ex.frames and S.load_module(ex.frames[-1]["fid"].split(":")[0])), set(), 0)
        if fields == "all":
            fields = set(self.fields)
        for (sort, field) in sorted(fields):
            ex.havoc_field(sort, field)
        if fields:
            ex.ghost["heap_version"] = ex.fresh_const("hv", z3.IntSort())

    def heap_effects(self, body, module, seen, depth):
        out = set()
        by_name = lambda f: {k for k in self.fields if k[1] == f}  # noqa: E731
        for n in (x for s in body for x in ast.walk(s)):
            if isinstance(n, (ast.Assign, ast.AugAssign, ast.AnnAssign)):
                tg = n.targets if isinstance(n, ast.Assign) else [n.target]
                for t in tg:
                    if isinstance(t, ast.Attribute):
                        out |= by_name(t.attr)
                    if isinstance(t, ast.Subscript) and isinstance(t.value, ast.Attribute):
                        out |= by_name(t.value.attr)
            if not isinstance(n, ast.Call):
                continue
            f = n.func
            if isinstance(f, ast.Name):
                if f.id in ("setattr", "delattr"):
                    # literal attribute name: that field; symbolic names are handled by the object-heap hooks (ghost state)
                    if len(n.args) >= 2 and isinstance(n.args[1], ast.Constant) and isinstance(n.args[1].value, str):
                        out |= by_name(n.args[1].value)
                    continue
                c = None
                tgt_mod, tgt_name = module, f.id
                if module is not None and f.id in module.imports:
                    mod2, rest = S.resolve_dotted(module.imports[f.id])
                    if mod2 is not None and len(rest) == 1:
                        tgt_mod, tgt_name = S.load_module(mod2), rest[0]
                    else:
                        tgt_mod = None
                if tgt_mod is not None:
                    c = self.contracts.get(f"{tgt_mod.name}:{tgt_name}")
                if c is not None:
                    if c.modifies == "all":
                        return "all"
                    out |= set(c.modifies or ())
                elif tgt_mod is not None and isinstance(tgt_mod.toplevel.get(tgt_name), ast.FunctionDef) and depth < 6:
                    key = (tgt_mod.name, tgt_name)
                    if key not in seen:
                        seen.add(key)
                        r = self.heap_effects(tgt_mod.toplevel[tgt_name].body, tgt_mod, seen, depth + 1)
                        if r == "all":
                            return "all"
                        out |= r
            elif isinstance(f, ast.Attribute):
                m = f.attr
                if m in S.MUTATING_METHODS and isinstance(f.value, ast.Attribute):
                    out |= by_name(f.value.attr)
                for fid, c in self.contracts.items():
                    if c.qual.endswith("." + m) or c.qual == m:
                        if c.modifies == "all":
                            return "all"
                        out |= set(c.modifies or ())
                extra = getattr(self, "method_effects", {}).get(m)
                if extra:
                    out |= set(extra)
        return out

    def exception_class(self, module, name):
        return self.exc_classes.get(name, "AnyException")

    def is_contextmanager(self, node) -> bool:
        for d in getattr(node, "decorator_list", []):
            nm = d.id if isinstance(d, ast.Name) else (d.attr if isinstance(d, ast.Attribute) else None)
            if nm == "contextmanager":
                return True
        return False

    def ref_getattr(self, ex, base: VRef, attr: str) -> V:
        if (base.sort, attr) in self.fields:
            v = ex.read_field(base, attr)
            if isinstance(v, (VSeq, VMap, VSet)):
                v.owner = (base, attr)  # in-place mutation is written back to the heap
            return v
        m = self.methods.get((base.sort, attr))
        if m is not None:
            return VFunc("builtin", f"{base.sort}.{attr}", impl=lambda e, a, k, _m=m, _b=base: _m(e, _b, a, k))
        cls = self.sort_class_node(base.sort)
        if cls is not None:
            mod, cnode = cls
            for st in cnode.body:
                if isinstance(st, ast.FunctionDef) and st.name == attr:
                    f = VFunc("ast", attr, node=st, env=Env(module=mod), module=mod, qual=f"{cnode.name}.{attr}")
                    if any((isinstance(d, ast.Name) and d.id == "property") for d in st.decorator_list):
                        f.self_obj = base
                        return ex.call(f, [], {})
                    if not any((isinstance(d, ast.Name) and d.id == "staticmethod") for d in st.decorator_list):
                        f.self_obj = base
                    return f
        if (base.sort, attr) in getattr(self, "known_methods", ()):
            return VFunc("method", attr, recv=base)
        raise OutOfSubset(f"unmodelled attribute {base.sort}.{attr}")

    def sort_class_node(self, sort):
        info = getattr(self, "repo_classes", {}).get(sort)
        if info is None:
            return None
        mod = S.load_module(info[0])
        return mod, mod.find(info[1])

    def ref_setattr(self, ex, base: VRef, attr: str, v: V):
        if (base.sort, attr) in self.fields:
            ex.write_field(base, attr, v)
            ex.events.append(("setattr", base, attr, v))
            return
        raise OutOfSubset(f"assignment to unmodelled attribute {base.sort}.{attr}")

    # ------------------------------------------------------------ name resolution
    def resolve_global(self, ex, module, name: str) -> V:
        if module is not None:
            ov = self.global_overrides.get((module.name, name))
            if ov is not None:
                return ov
            key = (module.name, name)
            if key in self._global_cache:
                return self._global_cache[key]
            st = module.toplevel.get(name)
            if isinstance(st, (ast.FunctionDef,)):
                v = VFunc("ast", name, node=st, env=Env(module=module), module=module, qual=name)
                self._global_cache[key] = v
                return v
            if isinstance(st, ast.ClassDef):
                return VPy(path=f"{module.name}.{name}")
            if isinstance(st, (ast.Assign, ast.AnnAssign)):
                if isinstance(st, ast.Assign) and len(st.targets) == 1 and isinstance(st.targets[0], ast.Tuple):
                    raise OutOfSubset(f"tuple-assigned module global {name}")
                try:
                    v = ex.ev(st.value, Env(module=module))
                except PyRaise:
                    raise OutOfSubset(f"module global {module.name}.{name} raised")
                if isinstance(st, ast.AnnAssign):
                    ty = self.annotation_type(ex, st.annotation, Env(module=module))
                    v = ex.coerce_global(v, ty)
                if isinstance(v, (VPy, VInt, VBool, VStr, VTuple, VNone, VEnum, VDict, VFunc)):
                    self._global_cache[key] = v
                return v
            if name in module.imports:
                return self.resolve_path(ex, module.imports[name])
        b = BUILTINS.get(name)
        if b is not None:
            return b
        if name in EXC_PARENT:
            return VPy(path=f"builtins.{name}")
        raise OutOfSubset(f"unresolved name {name} in {module.name if module else '?'}")

    def resolve_path(self, ex, path: str) -> V:
        pm = self.path_models.get(path)
        if pm is not None:
            if isinstance(pm, V):
                return pm
            return VFunc("builtin", path, impl=pm)
        mod, rest = S.resolve_dotted(path)
        if mod is not None and rest:
            m = S.load_module(mod)
            v = self.resolve_global(ex, m, rest[0])
            for a in rest[1:]:
                v = ex.getattr(v, a)
            return v
        if mod is not None:
            return VPy(path=path)
        # enum members: <enum path>.<MEMBER>
        head, _, last = path.rpartition(".")
        for en, info in self.enums.items():
            if info.get("path") == head and last in info["members"]:
                return VEnum(en, info["members"][last])
        return VPy(path=path)

    def call_path(self, ex, path, args, kwargs):
        pm = self.path_models.get(path + "()")
        if pm is not None:
            return pm(ex, args, kwargs)
        for en, info in self.enums.items():
            if info.get("path") == path:
                # Enum(code): ValueError when code is not a member
                t = ex.as_int_term(args[0])
                if t is None:
                    raise OutOfSubset(f"{path}({args[0]!r})")
                codes = sorted(set(info["members"].values()))
                if ex.branch(z3.Or([t == c for c in codes])):
                    return VEnum(en, t)
                raise PyRaise("ValueError", f"not a valid {en}")
        if path.startswith("builtins.") and path.split(".")[1] in EXC_PARENT:
            return VPy(obj=("exc", path.split(".")[1]))
        if path in ("typing.cast",):
            return args[1]
        raise OutOfSubset(f"unmodelled external call {path}")

    def contract_for(self, fn: VFunc):
        if fn.module is None:
            return None
        return self.contracts.get(f"{fn.module.name}:{getattr(fn, 'qual', fn.name)}")

    def loop_specs_for(self, fn: VFunc):
        c = self.contract_for(fn)
        return c.loops if c is not None else {}

    # ------------------------------------------------------------ annotations
    def annotation_type(self, ex, ann, env):
        try:
            return self._ann(ex, ann, env)
        except (OutOfSubset, KeyError, AttributeError):
            return None

    def _ann(self, ex, ann, env):
        if isinstance(ann, ast.Constant) and isinstance(ann.value, str):
            ann = ast.parse(ann.value, mode="eval").body
        if isinstance(ann, ast.Constant) and ann.value is None:
            return NoneT
        if isinstance(ann, ast.BinOp) and isinstance(ann.op, ast.BitOr):
            a, b = self._ann(ex, ann.left, env), self._ann(ex, ann.right, env)
            if b is NoneT:
                return Opt(a) if a is not None else None
            if a is NoneT:
                return Opt(b) if b is not None else None
            return None
        if isinstance(ann, ast.Name):
            simple = {"int": Int, "bool": Bool, "str": Str}
            if ann.id in simple:
                return simple[ann.id]
        if isinstance(ann, (ast.Name, ast.Attribute)):
            v = ex.ev(ann, env)
            if isinstance(v, VPy) and v.path in self.class_sorts:
                return Ref(self.class_sorts[v.path])
            return None
        if isinstance(ann, ast.Subscript):
            head = ann.value
            hn = head.id if isinstance(head, ast.Name) else (head.attr if isinstance(head, ast.Attribute) else "")
            sl = ann.slice
            if hn == "Optional":
                t = self._ann(ex, sl, env)
                return Opt(t) if t is not None else None
            if hn in ("List", "list", "Sequence"):
                t = self._ann(ex, sl, env)
                return Seq(t) if t is not None else None
            if hn in ("Set", "set", "frozenset", "FrozenSet"):
                t = self._ann(ex, sl, env)
                return SetT(t) if t is not None else None
            if hn in ("Dict", "dict", "Mapping", "MutableMapping"):
                k, v = self._ann(ex, sl.elts[0], env), self._ann(ex, sl.elts[1], env)
                return MapT(k, v) if k is not None and v is not None else None
            if hn in ("Tuple", "tuple"):
                elts = sl.elts if isinstance(sl, ast.Tuple) else [sl]
                if len(elts) == 2 and isinstance(elts[1], ast.Constant) and elts[1].value is Ellipsis:
                    t = self._ann(ex, elts[0], env)
                    return Seq(t) if t is not None else None
                ts = [self._ann(ex, e, env) for e in elts]
                return Tup(*ts) if all(t is not None for t in ts) else None
        return None

    # ------------------------------------------------------------ contracts at call sites
    def bind_contract_args(self, ex, c: Contract, args, kwargs, fn) -> dict:
        node = S.load_module(c.module).find(c.qual)
        env = Env(module=S.load_module(c.module))
        a = list(args)
        if getattr(fn, "self_obj", None) is not None:
            a = [fn.self_obj] + a
        ex.bind_params(node.args, a, kwargs, env, Env(module=S.load_module(c.module)), c.qual)
        out = dict(env.vars)
        for nm, v in list(out.items()):
            if isinstance(v, VFunc) and v.kind == "comp":
                out[nm] = ex.comp_list(v.node, v.env, mutable=True)
        for nm, t in (c.params or {}).items():
            v = out.get(nm)
            tt = t.t if isinstance(t, Opt) else t
            if isinstance(tt, Seq) and isinstance(v, (VList, VTuple)):
                out[nm] = ex.list_to_seq(VList(list(v.items), isinstance(v, VList)), tt.t)
            if isinstance(tt, SetT) and isinstance(v, (VList, VTuple)):
                v = ex.list_to_seq(VList(list(v.items), isinstance(v, VList)), tt.t)
            if isinstance(tt, SetT) and isinstance(v, VSeq):
                # a contract stated for an iterable read only through membership / any / all: the set of the sequence's elements
                x, i = z3.Const("x!s2s", flat_sorts(tt.t)[0]), z3.Int("i!s2s")
                out[nm] = VSet(tt.t, z3.Lambda([x], z3.Exists([i], z3.And(i >= 0, i < v.length, z3.Select(v.arrs[0], i) == x))))
                ex.assumptions_used.add(f"{c.qual}: a sequence argument for `{nm}` is read only through membership tests (contract stated over the set of its elements)")
        return out

    def apply_contract(self, ex, c: Contract, args, kwargs, fn=None) -> V:
        bound = self.bind_contract_args(ex, c, args, kwargs, fn)
        site = f"{ex.frames[-1]['fid']}#pre@{c.qual}"
        cx = Ctx(ex, bound)
        for nm, f in c.requires:
            if nm.startswith("axiom:"):
                # not a condition on the caller's state: a semantic axiom instantiated at the current heap (listed as an assumption)
                ex.assume(f(cx))
                ex.assumptions_used.add(f"{nm[6:]} instantiated at the call of {c.qual}")
                continue
            root = ex.frames[0].get("contract") if ex.frames else None
            why = (getattr(root, "assumed_preconditions", None) or {}).get(f"{c.qual}:{nm}")
            if why:
                # a precondition that this caller cannot establish itself: it is an obligation on the code that produced the arguments; listed as an assumption
                ex.assume(f(cx))
                ex.assumptions_used.add(f"precondition {nm} of {c.qual} assumed at its call in {root.qual}: {why}")
                continue
            ex.oblige(f"{site}:{nm}", "pre@site", f(cx), note=f"line {ex.cur_line}")
        if c.assumed:
            ex.assumptions_used.add(f"assumed contract of {c.fid}" + (f" ({c.note})" if c.note else ""))
        else:
            ex.assumptions_used.add(f"callee contract {c.fid} (verified separately)")
        old_heap = ex.snapshot_heap()
        if ex.track_alloc:
            ex.now()
        old_ghost = dict(ex.ghost)
        # exceptional exits
        classes = list(c.may_raise)
        for cls in classes:
            if ex.branch(z3.Bool(ex.fresh_name(f"{c.qual}_raises_{cls}"))):
                self.havoc_modifies(ex, c)
                cxe = Ctx(ex, bound, exc=cls, old_heap=old_heap, old_ghost=old_ghost)
                for nm, f in c.exc_ensures:
                    ex.assume(f(cxe))
                raise PyRaise(cls, f"from {c.qual}")
        self.havoc_modifies(ex, c)
        if c.ret is None:
            res = NONE
        elif c.uf:
            res = self.uf_result(ex, c, bound)
        elif c.fresh_result and isinstance(c.ret, Ref):
            res = ex.new_object(c.ret.sort, f"{c.qual}_ret")
        else:
            res = ex.fresh(f"{c.qual}_ret", c.ret)
        res = ex.force(res)
        if ex.track_alloc:
            if c.modifies or not (c.uf or c.ret is None):
                ex.tick()   # the callee may have allocated
            if not (c.fresh_result and isinstance(c.ret, Ref)):
                ex.assume_allocated(res)
        cx2 = Ctx(ex, bound, result=res, old_heap=old_heap, old_ghost=old_ghost)
        for nm, f in c.ensures:
            r = f(cx2)
            for g in ([x[1] for x in r] if isinstance(r, list) else [r]):
                ex.assume(g)
        return res

    def uf_result(self, ex, c, bound):
        doms, terms = [], []
        for nm, v in bound.items():
            t = self.value_type(v)
            if t is None:
                continue
            for s, x in zip(flat_sorts(t), pack(v, t)):
                doms.append(s)
                terms.append(x)
        if c.reads_heap:
            doms.append(z3.IntSort())
            terms.append(ex.ghost.get("heap_version", z3.IntVal(0)))
        outs = []
        for i, s in enumerate(flat_sorts(c.ret)):
            f = self.fn(f"{c.qual}.ret{i}", *(doms + [s]))
            outs.append(f(*terms) if terms else z3.Const(f"{c.qual}.ret{i}", s))
        return unpack(c.ret, outs)

    def value_type(self, v):
        if isinstance(v, VInt):
            return Int
        if isinstance(v, VBool):
            return Bool
        if isinstance(v, VStr):
            return Str
        if isinstance(v, VRef):
            return Ref(v.sort)
        if isinstance(v, VEnum):
            return Enum(v.enum)
        if isinstance(v, VSeq):
            return Seq(v.elem)
        if isinstance(v, VTuple):
            ts = [self.value_type(x) for x in v.items]
            return Tup(*ts) if all(t is not None for t in ts) else None
        return None

    def havoc_modifies(self, ex, c: Contract):
        mods = c.modifies
        if mods == "all":
            mods = list(self.fields)
        for (sort, field) in mods or ():
            ex.havoc_field(sort, field)
        if mods:
            ex.ghost["heap_version"] = ex.fresh_const("hv", z3.IntSort())

    def apply_cm_contract(self, ex, c, fn, args, kwargs, body_thunk):
        return c.cm_contract(ex, c, self.bind_contract_args(ex, c, args, kwargs, fn), body_thunk)

    # ------------------------------------------------------------ methods on builtin values
    def call_method(self, ex, recv: V, name: str, args, kwargs):
        from .builtins import call_method
        return call_method(ex, recv, name, args, kwargs)


def _finite_values(t, limit=64):
    """set of possible integer values of a term built from constants, ite, +, -; else None"""
    if z3.is_int_value(t):
        return {t.as_long()}
    if z3.is_app_of(t, z3.Z3_OP_ITE):
        _, a, b = t.children()
        va, vb = _finite_values(a), _finite_values(b)
        if va is None or vb is None:
            return None
        r = va | vb
        return r if len(r) <= limit else None
    if z3.is_app_of(t, z3.Z3_OP_ADD) or z3.is_app_of(t, z3.Z3_OP_SUB):
        sub = z3.is_app_of(t, z3.Z3_OP_SUB)
        acc = None
        for ch in t.children():
            v = _finite_values(ch)
            if v is None:
                return None
            if acc is None:
                acc = v
            else:
                acc = {x - y for x in acc for y in v} if sub else {x + y for x in acc for y in v}
            if len(acc) > limit:
                return None
        return acc
    if z3.is_app_of(t, z3.Z3_OP_UMINUS):
        v = _finite_values(t.children()[0])
        return None if v is None else {-x for x in v}
    if z3.is_app_of(t, z3.Z3_OP_MUL):
        ch = t.children()
        if len(ch) == 2 and z3.is_int_value(ch[0]):
            v = _finite_values(ch[1])
            return None if v is None else {ch[0].as_long() * x for x in v}
    return None


BUILTINS: dict[str, V] = {}


class Exec(PathCore, ExprMixin, StmtMixin):
    def __init__(self, world: World):
        PathCore.__init__(self, world)
        self.frames: list = []
        self.yield_handlers: list = []
        self.active_exc: list = []
        self.decl_types: dict = {}
        self.cur_line = 0
        self.pure_sides = []

    def begin_path(self, prefix):
        PathCore.begin_path(self, prefix)
        self.frames = []
        self.yield_handlers = []
        self.active_exc = []
        self.decl_types = {}

    def coerce_global(self, v, ty):
        return v
