"""Property registry: which contract modules serve which property, and what
each claim leaves unverified (text copied into every evidence file)."""

ALL_MODULES = ["contracts.c17", "contracts.c12", "contracts.c13", "contracts.c18", "contracts.c09", "contracts.c05", "contracts.c16", "contracts.c04", "contracts.c02", "contracts.c11", "contracts.c19", "contracts.c03", "contracts.c07", "contracts.c06", "contracts.c08", "contracts.c02_txn", "contracts.c02_pairs", "contracts.c05_prune"]

SPECS = {
    "C17": {
        "modules": ALL_MODULES,
        "level_text": "Every function of the cast-elimination decision procedure is executed symbolically from its real source and proved against a value-set specification written from the ONNX/IEEE-754 tables (not from the code): for all integer arguments (unbounded) and all 27x27 dtype pairs at once. A weakened comparison or table entry fails a named postcondition and the counter-model (a dtype pair) is replayed on the imported function.",
        "level_note": "Trusted: z3/cvc5; the VC generator (guarded by replay, vacuity checks, mutation self-test); onnx_ir.DataType predicates tabulated at run time; pow2 axioms; Cast axiom 'a value representable in the target is cast to itself'.",
        "design_ref": "DESIGN.md §4.17",
        "unverified_part": "ONNX Runtime's Cast kernels (axiomatised: a value representable in the target type is cast to itself); float8/float4 formats (the code never accepts them, so no claim is needed).",
    },
    "C12": {
        "modules": ALL_MODULES,
        "level_text": "Index validation is proved with an inductive loop invariant for index lists of any length and any mix of int/bool/str/None entries: a normal return implies the result equals the input, all entries are proper ints in range and pairwise distinct; only ValueError may escape. The two boundary permutations are proved mutually inverse.",
        "level_note": "Trusted: z3/cvc5, the VC generator, the IRContext/builder object model and tensor algebra of specs/ctxmodel.py (builder.Transpose denotes Tr(perm, .)), get_value_for_var returns the value carrying the var (binding invariant, C16). bind_input/bind_output are proved to add exactly the boundary transposes (NCHW graph input with permuted shape and name in_<i>_nchw, the JAX var bound to its NHWC transpose; flagged outputs are the NCHW transpose of the var), the origin-recording precondition is a call-site obligation.",
        "design_ref": "DESIGN.md §4.12",
        "unverified_part": "allclose layout handling, optimizer folding of the boundary transposes (C02), numeric behaviour of ONNX Transpose itself.",
    },
    "C13": {
        "modules": ALL_MODULES,
        "level_text": "apply_patches, apply_monkey_patches, _force_jax_x64 and _temporary_x64 are executed symbolically as generator context managers, with the with-body as a havoc point that may raise; for every normal and exceptional exit (each point where resolving, reading, wrapping or installing an attribute can fail) every attribute resolves as before, _PATCH_STATE is as before and the x64 flag is as before. Unbounded in the number of specs/targets (ghost history + loop invariants).",
        "level_note": "Trusted: the python attribute model of specs/pyheap.py (own dict + fixed inherited layer), LIFO discipline of nested with-bodies, jax.config.update writes one cell, values made by patch factories are ordinary objects. JAX jit/pjit caches and user-object mutation are out of reach.",
        "design_ref": "DESIGN.md §4.13",
        "unverified_part": "ExitStack composition in _activate_plugin_worlds/_activate_full_plugin_worlds_for_body (assumed PEP 343), JAX trace/compilation caches, mutation of user model objects, ad.primitive_transposes backfill.",
    },
    "C18": {
        "modules": ALL_MODULES,
        "level_text": "_run_allclose is executed symbolically from its real source over an abstract numpy model (extended reals with NaN/inf per element, any number of outputs, any sizes): a reported match implies equal output count, equal shapes and, for every element, closeness to the value ONNX Runtime actually returned (exact equality for non-float pairs), by an inductive invariant over the outputs. _temporary_x64 restores the flag on all exits.",
        "level_note": "Trusted: the numpy model of specs/nparr.py (np.allclose/np.array_equal by their documented element-wise definitions, IEEE rules for NaN/inf, finite arithmetic over the reals), opaque treatment of the ORT session and JAX pytree calls. Complex outputs and outputs_as_nchw re-packing are excluded from the postcondition.",
        "design_ref": "DESIGN.md §4.18",
        "unverified_part": "complex outputs (re-packed pairs), outputs_as_nchw/inputs_as_nchw layout handling, _build_ort_inputs feed construction, float rounding inside np.allclose, behaviour of ONNX Runtime itself.",
    },
    "C05": {
        "modules": ALL_MODULES,
        "level_text": "Interface construction is proved from the real source: add_input_for_invar / bind_input append exactly one input named in_<i> / in_<i>_nchw declaring the JAX shape (resp. its NCHW permutation) and bind the variable; bind_inputs yields one input per argument; add_outputs_from_vars / bind_output / bind_outputs yield exactly one output per result leaf, in order, denoting that leaf (cast or NCHW-transposed iff flagged), for any number of leaves and any flag list (inductive invariants). The dtype policy functions are proved class-preserving against an ONNX/numpy table written from the documentation; index validation as in C12.",
        "level_note": "Trusted: object model of specs/ctxmodel.py, numpy dtype lattice tabulated from the installed numpy, get_value_for_var's binding invariant. Custom IO naming (_apply_custom_io_names_on_ir), input pruning and input_params materialisation are not under contract in this revision.",
        "design_ref": "DESIGN.md §4.5",
        "unverified_part": "declared output *shapes* (stamped by plugins), user-supplied input/output names, prune_unused_graph_inputs_ir, _materialize_input_params_on_ir, the output dtype reconciliation inside add_outputs_from_vars (class of the declared element type).",
    },
    "C16": {
        "modules": ALL_MODULES,
        "level_text": "The dispatcher is proved from its real source: registry lookup returns the registered plugin or raises; every equation of a jaxpr (any length) is dispatched exactly once, in order (loop invariant), inside exception-transparent context managers (each verified as a generator with a raising body); a plugin of unknown kind raises; after assert_eqn_outputs_bound returns, every non-drop outvar is bound to a graph-connected value, after assert_eqn_inputs_bound every non-drop invar is resolvable (loop invariants); the optimizer-failure policy re-raises exactly when strict. Rejection guards (reverse scan, scan without xs and non-static length, switch with other than two branches) are proved as 'under the rejected condition the function raises and nothing is emitted before'.",
        "level_note": "Trusted: opaque treatment of plugin objects and of the lowering context in the dispatcher, assumed contracts of is_drop_var / _value_is_graph_connected / require_value_for_var, library context managers do not swallow exceptions. 'Optimizer aborted between transactions leaves an equivalent model' rests on C02, which is not claimed in this revision.",
        "design_ref": "DESIGN.md §4.16",
        "unverified_part": "bind_returned_lowering_values (arity pairing), the ~600 plugin lower() methods themselves (unsupported variants inside a plugin), DimAsValuePlugin's no-origin rejection, fori_loop bound concretisation, partial-optimization equivalence (C02).",
    },
    "C04": {
        "modules": ALL_MODULES,
        "level_text": "Every method of LowerDimExpr is executed symbolically from its real source and proved to emit a value whose run-time content equals the JAX semantics of its argument (sum of coeff*product of factor**power, floordiv/mod/max/min with Python floor semantics) for an arbitrary binding of the symbols and expressions of any size (recursive contracts, prefix-sum/prefix-product loop invariants); ONNX Div/Mod/... follow the ONNX integer semantics (Div truncates). The memo cache carries the invariant 'every entry denotes the meaning of its key'; that keys of different kinds never collide is a lemma over the key expressions extracted from the code (z3 string theory). The symbol-origin precondition (dims are the declared dims of the value) is a call-site obligation at add_input_for_invar and bind_input.",
        "level_note": "Trusted: ONNX integer operator semantics (A11, no int64 overflow), the JAX normal form of dimension expressions, per-kind injectivity of str() on expression objects, OriginInv given truthful declared input shapes. _shapes_compatible/_broadcast_shape_dims and the reshape/broadcast plugin lowerings that consume the lowered dimensions are not under contract in this revision.",
        "design_ref": "DESIGN.md §4.4",
        "unverified_part": "LowerDimExpr.__call__ (Concat of several dims), dim_as_value plugin, _as_sds_list shared scope, optimizer shape comparisons (_shapes_compatible: C02), plugin lowerings that consume the dimension values, int64 overflow.",
    },
    "C02": {
        "modules": ALL_MODULES,
        "level_text": "Partial claim. Proved for all inputs: (1) every operator table the rewrites consult is included in a specification table of pointwise operators written from the ONNX documentation, and every accepted operator has exactly one output in every opset (checked mechanically against onnx.defs) - a non-pointwise or multi-output operator added to a table fails a named obligation; (2) the guard kernels: _is_inverse_perm implies perm1[perm2[k]] = k (hypothesis of Tr(p2,Tr(p1,x)) = x), _shapes_compatible implies equal rank and pairwise equal ints or the same non-empty symbol (equal for every binding), _value_is_graph_output / _value_escapes are exact (graph output by identity or name, or nested-body reference), _side_inputs_are_scalar implies every other operand is a broadcast scalar, _v_name; (3) the integer range proof of C17 (also a C02 rewrite guard).",
        "level_note": "The rewrite transactions themselves (that each pass only fires under these guards and performs the declared rewiring) are NOT yet under contract in this revision: a deleted guard call inside a pass is not detected by C02's obligations (the end-to-end witness families are replay material only). Trusted: operator classification tables of specs/onnx_ops.py, assumed contracts of _nested_graph_references_value and _is_scalar_const_value, the four external onnx_ir passes.",
        "design_ref": "DESIGN.md §4.2",
        "unverified_part": "all 16 rewrite transactions (pattern facts, effects, law lemmas), the collectors, the external onnx_ir passes (NameFix, CSE, LiftConstants, RemoveUnusedNodes), exception atomicity inside a transaction.",
    },
    "C08": {
        "modules": ALL_MODULES,
        "level_text": "Partial claim. Proved for all inputs from the real source: (1) the metadata copy kernels _shape_dims_key, _copy_shape_only and _copy_shape_dtype: after a copy dst declares exactly the dims of src (key by key, the key being the one the code itself compares), src and every other existing shape object are untouched, nothing is written when src declares nothing, the element type is the source's; (2) the metadata effect of the rewrite transactions under contract (see C02): the value that takes over the role of a removed value declares the removed value's dims and element type, keeps no stale dims when there is nothing to copy, and no other existing value changes its declaration; (3) the shape-propagation operator tables are included in a specification table of shape-preserving operators.",
        "level_note": "Sufficient condition, not the semantic property: 'the surviving value declares what the value it replaces declared' presupposes that the declarations were true before the pass (stamped by the plugins, which are not under contract). Trusted: onnx_ir object model (Value.shape/type, Shape.dims, SymbolicDim repr is a function of its value), allocation-time reasoning of pyvc (no dangling references).",
        "design_ref": "DESIGN.md §4.8",
        "unverified_part": "the ~600 plugin stamping sites (_stamp_type_and_shape), ir_postprocess loosening, _finalize_model_value_shapes, _maybe_promote_value_to_double, propagate_*_shapes_ir, _refresh_elementwise_output_shape/_broadcast_shape_dims, transactions not yet under contract.",
    },
    "C11": {
        "modules": ALL_MODULES,
        "level_text": "Partial claim. For every emission site (found mechanically in every source file) of an operator whose first ONNX version is newer than opset 21, the conditions that dominate the site in the AST are translated to a formula over the integer opset and discharged by z3: 'dominating conditions imply opset >= first version of the operator', for all opsets at once. FunctionScope.__init__ is proved to create the body context with the opset, precision and normalization mode of the enclosing model (so the guards in function bodies see the declared opset). Three unguarded sites (CumProd x2, BitCast) are known findings, re-derived on every run.",
        "level_note": "Trusted: operator first-versions from the installed onnx.defs; expressions recognised as 'the opset' denote the declared opset; IRContext.__init__ stores its arguments (bound with the real signature). Attribute/type-constraint changes of operators revised after opset 21, Loop/If body contexts (make_subgraph_context), numeric agreement across opsets and ORT loading are not covered.",
        "design_ref": "DESIGN.md §4.11",
        "unverified_part": "operators that exist at 21 but changed signature later (69 operators), builder_reduce_with_axes axes-as-input table, make_subgraph_context (Loop/If bodies), numeric equality across opsets, loading in ONNX Runtime.",
    },
    "C19": {
        "modules": ALL_MODULES,
        "level_text": "Partial claim. (1) For every MonkeyPatchSpec of every registered plugin (305 pairs on this tree) the substitute is obtained by calling the real make_value(original) and 'every call form the original binds is bound by the substitute' is decided by z3 over an integer number of positionals and one Boolean per keyword name: all call forms at once, no sampling. 49 pairs are refuted; each is a known finding identified by its exact difference (e.g. fori_loop without unroll) and re-confirmed with inspect.Signature.bind on the real objects on every run; any other or additional incompatibility is a new violation. (2) For the three hand-written *args/**kwargs substitutes every call form accepted by the original's signature is enumerated (complete for the signature) and the wrapper body is executed symbolically with distinct argument tokens: every supplied token reaches the primitive bind, the original, or the returned closure.",
        "level_note": "Trusted: inspect.signature of the installed library versions; python call-binding rules as encoded in contracts/c19.binds; 'forwarded' means the token reaches some external call or the result (role correctness of a forwarded argument is not checked). That a forwarded parameter is lowered with the same meaning is C01 territory.",
        "design_ref": "DESIGN.md §4.19",
        "unverified_part": "semantic use of forwarded parameters (same meaning), named-parameter wrappers that accept a parameter and never read it, FunctionPlugin._make_patch_fn static/traced kwargs partition, abstract_eval delegation.",
    },
    "C09": {
        "modules": ALL_MODULES,
        "level_text": "Partial claim. conversion_api.to_onnx is executed symbolically with its pipeline stages as opaque, possibly raising calls: every stage (tracing, context creation, constant binding, input binding, lowering, output binding, finalisation) runs, in that order, while the JAX x64 flag equals enable_double_precision, and the flag is as before on every exit. _force_jax_x64/_temporary_x64 restore the flag on all exits (as in C13). numpy_dtype_to_ir_with_float_policy is proved against the policy table (float32/unknown floats follow the flag, float16/float64 keep their width, never DOUBLE in single precision unless the input is float64). FunctionScope bodies inherit the model's precision.",
        "level_note": "Trusted: one-cell model of jax.config (no jax.enable_x64 context override active around the call: see known finding D18 in DESIGN.md), numpy dtype lattice tabulated at run time. Constant promotion (bind_const_for_var, _promote_float_array, ir_postprocess) is not under contract in this revision.",
        "design_ref": "DESIGN.md §4.9",
        "unverified_part": "constant promotion/downcast functions, a float32 detour inside a plugin lowering, the whole-model 'no DOUBLE tensor anywhere' scan, user_interface.to_onnx's outer _temporary_x64 scope.",
    },
    "C03": {
        "modules": ALL_MODULES,
        "level_text": "Partial claim. Proved per function: IRBuilder.fresh_name / IRContext.fresh_name return base + '_' + counter, bump exactly that counter and touch no other (with the lemma that base_counter is injective, so names issued by one context never repeat); FunctionPlugin._allocate_friendly_name issues namespace.base.<next index>, stores the counter in the dict object kept on the context and reuses that object (distinct indices give distinct identifiers: lemma), and the child scope of a new function body receives the parent's counter dict itself; _attach_ir_functions leaves the default domain and the domain of every attached function imported (loop invariants, any number of functions); assert_eqn_outputs_bound (shared with C16): every non-drop outvar bound and connected; _value_escapes (shared with C02). IRContext.fresh_name carries the precondition 'base does not end in _ or /' (latent finding D12): all 2473 literal call sites are checked, 370 run-time bases are an assumption.",
        "level_note": "Trusted: onnx_ir's NameFixPass for SSA uniqueness of the final model, onnx.checker / strict shape inference / ONNX Runtime loading (external programs), scoping of Loop/If captures built by the control-flow plugins. The counter-sharing obligation in _lower_and_call is structural (AST data flow), not a solver proof.",
        "design_ref": "DESIGN.md §4.3",
        "unverified_part": "whole-model well-formedness (checker, strict inference, ORT), make_subgraph_context prefixes, _handle_initializer_append in function mode, FunctionScope.to_ir_function imports, Loop/If capture scoping.",
    },
    "C07": {
        "modules": ALL_MODULES,
        "level_text": "Partial claim, mostly structural. Decided on the real source: every path through the parameter loop of FunctionPlugin._lower_and_call (paths enumerated completely, including except handlers) appends exactly one capture item carrying the parameter name; the registry key is FunctionKey(name, (shape, str(dtype)) of every invar, capture items); the definition and every call site are fed the same base_inputs + param_values; the unique-instance fingerprint contains repr(treedef) unmodified and every leaf. Proved with the solver (shared with C03/C11): _allocate_friendly_name issues pairwise distinct identifiers and reuses the context's counter dict, the child scope shares it, FunctionScope.__init__ mirrors opset/precision/normalization of the parent.",
        "level_note": "These obligations are necessary conditions of 'bodies are shared only when equal'; the key's discriminating power rests on stated, unchecked assumptions: hash(bytes)/sha1 injective, repr(treedef) separates static configuration, id(callee) identifies a live instance. 'Decorated export == undecorated export == JAX' is C01 territory and not claimed.",
        "design_ref": "DESIGN.md §4.7",
        "unverified_part": "semantic equality of shared bodies, FunctionScope.begin/end mirroring, optimizer treatment of function bodies, weak-reference liveness of instances, the numerical transparency of function boundaries.",
    },
    "C06": {
        "modules": ALL_MODULES,
        "level_text": "Partial claim: the integer and guard kernels only. scan_arity is proved for both parameter encodings (ft_in groups / legacy counts): a normal return implies num_xs >= 0 and consts + carry + xs = number of invars with the groups decoded as given, otherwise ValueError; ForiLoopPlugin._fori_loop_binding hands the primitive trip_count = max(upper - lower, 0) and the offset lower, for all integers; rejection guards (reverse scan, scan without xs and non-static length, switch with other than two branches: shared with C16) raise before anything is emitted.",
        "level_note": "The construction of Loop/If bodies (while_loop.py, scan.py, cond.py, fori_loop._build_body_graph, _axis0_utils: about 3000 lines of builder code) is NOT under contract: zero-trip/one-trip behaviour, captured-value threading, vmapped predicates and stacked outputs are not decided. A seeded defect in the vmapped while_loop body (seeded/agent-C06) is therefore not detected by this check.",
        "design_ref": "DESIGN.md §4.6",
        "unverified_part": "Loop/If body construction in while_loop.py, scan.py, cond.py, fori_loop._build_body_graph (iteration offset), _axis0_utils; ONNX Loop/If semantics (A14).",
    },
}
