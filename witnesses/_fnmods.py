"""module-level @onnx_function definitions used by witnesses (the decorator needs importable, module-level targets)"""
import jax
from flax import nnx
from jax2onnx import onnx_function


@onnx_function
class NormBlock(nnx.Module):
    def __init__(self):
        self.norm = nnx.RMSNorm(4, rngs=nnx.Rngs(0))

    def __call__(self, x):
        return self.norm(x) * 2.0


@onnx_function
def silu_act(x):
    return jax.nn.silu(x) + 1.0


@onnx_function
def scale_by_tenth(x):
    return x * 0.1 + 0.3

import numpy as _np
_W64 = _np.asarray([0.1, 0.2, 0.3], dtype=_np.float64)


@onnx_function
def add_np64_const(x):
    return x + _W64


@onnx_function
class Project(nnx.Module):
    def __init__(self, din, dout):
        self.lin = nnx.Linear(din, dout, rngs=nnx.Rngs(0))

    def __call__(self, x):
        return self.lin(x)


@onnx_function
class Outer(nnx.Module):
    def __init__(self):
        self.p = Project(3, 4)

    def __call__(self, x):
        return self.p(x) * 2.0


import jax.numpy as jnp


def leaky(slope):
    def act(x):
        return jnp.where(x > 0, x, slope * x)
    return act


@onnx_function(unique=True)
class UniqueBlock(nnx.Module):
    def __init__(self, act, scale=1.0):
        self.linear = nnx.Linear(4, 4, rngs=nnx.Rngs(0))
        self.act = act
        self.scale = scale

    def __call__(self, x):
        return self.act(self.linear(x)) * self.scale


@onnx_function
def scaled(x, *, k=2.0):
    return x * k


@onnx_function
def poly_cfg(x, *, cfg):
    return x * cfg[0][0] + cfg[0][1] + cfg[1][0]


@onnx_function
def ident_fn(x):
    return x


# two different targets given the same display name (documented `type=` override)
@onnx_function(type="Block")
def block_scale(x):
    return x * 3.0 + 1.0


@onnx_function(type="Block")
def block_mix(x, y):
    return x * y - 2.0


@onnx_function
def near_equal_literals(x):
    return (x + 1.0) * 1.000000001 - 3.14159265 + 3.141592653589793


@onnx_function
def scale_by_count(y, *, n):
    # `n` is a (possibly symbolic) dimension handed in by value: no input of this function carries it
    import jax.numpy as jnp
    return y * jnp.arange(3, dtype=y.dtype) * n
