"""Shared specification library (trusted base), DESIGN §3.

`RepoWorld` extends the generic World with models of onnx_ir / numpy objects.
Finite external functions (enum predicates) are *tabulated from the installed
library on every run*; the remaining assumption is that they are pure.
"""
from __future__ import annotations

import z3

from pyvc.vals import *  # noqa
from pyvc.core import *  # noqa
from pyvc.world import World, Contract, Ctx
from pyvc.stmts import LoopSpec


def table_fn(code, table: dict, default):
    """ITE chain code -> value."""
    r = default if isinstance(default, z3.ExprRef) else (z3.BoolVal(default) if isinstance(default, bool) else z3.IntVal(default))
    for k, v in sorted(table.items(), reverse=True):
        vv = v if isinstance(v, z3.ExprRef) else (z3.BoolVal(v) if isinstance(v, bool) else z3.IntVal(v))
        r = z3.If(code == k, vv, r)
    return r


class RepoWorld(World):
    def __init__(self):
        super().__init__()
        self.method_table = {}
        self._setup_onnx_ir_enums()
        self.isinstance_hooks, self.getattr_hooks, self.call_ref_hooks = [], [], []
        self.method_hooks, self.getitem_hooks, self.setitem_hooks, self.truthy_hooks = [], [], [], []
        self.hasattr_hooks, self.callable_hooks = [], []
        self.eq_hooks = []
        self.setattr_hooks, self.delattr_hooks = [], []
        self.len_hooks, self.int_hooks, self.iter_hooks = [], [], []
        self.str_hooks = []
        self.contains_hooks = []
        self.binop_hooks, self.compare_hooks, self.unary_hooks, self.with_call_hooks, self.ref_getattr_hooks = [], [], [], [], []
        self.path_getters = {}

    def isinstance_hook(self, ex, v, nm):
        for h in self.isinstance_hooks:
            r = h(ex, v, nm)
            if r is not None:
                return r
        return None

    def getattr_builtin(self, ex, args):
        for h in self.getattr_hooks:
            r = h(ex, args)
            if r is not None:
                return r
        return None

    def call_ref(self, ex, fn, args, kwargs):
        for h in self.call_ref_hooks:
            r = h(ex, fn, args, kwargs)
            if r is not None:
                return r
        return None

    def getitem_hook(self, ex, base, idx):
        for h in self.getitem_hooks:
            r = h(ex, base, idx)
            if r is not None:
                return r
        return None

    def setitem_hook(self, ex, base, idx, v):
        return any(h(ex, base, idx, v) for h in self.setitem_hooks)

    def hasattr_hook(self, ex, v, nm):
        for h in self.hasattr_hooks:
            r = h(ex, v, nm)
            if r is not None:
                return r
        return None

    def callable_hook(self, ex, v):
        for h in self.callable_hooks:
            r = h(ex, v)
            if r is not None:
                return r
        return None

    def resolve_path(self, ex, path):
        g = self.path_getters.get(path)
        if g is not None:
            return g(ex)
        return super().resolve_path(ex, path)

    def binop_hook(self, ex, op, a, b):
        for h in self.binop_hooks:
            r = h(ex, op, a, b)
            if r is not None:
                return r
        return None

    def compare_hook(self, ex, op, a, b):
        for h in self.compare_hooks:
            r = h(ex, op, a, b)
            if r is not None:
                return r
        return None

    def unary_hook(self, ex, op, v):
        for h in self.unary_hooks:
            r = h(ex, op, v)
            if r is not None:
                return r
        return None

    def with_call(self, ex, fn, args, kwargs, body_thunk):
        return any(h(ex, fn, args, kwargs, body_thunk) for h in self.with_call_hooks)

    def ref_getattr(self, ex, base, attr):
        for h in self.ref_getattr_hooks:
            r = h(ex, base, attr)
            if r is not None:
                return r
        if base.sort == "Opaque":
            from specs.opaque import fresh_opaque
            return fresh_opaque(ex)
        if base.sort == "Emitter":
            from specs.opaque import fresh_emitter
            return fresh_emitter(ex)
        try:
            return super().ref_getattr(ex, base, attr)
        except OutOfSubset:
            if base.sort in getattr(self, "lenient_sorts", ()) and "unmodelled attribute" in str(OutOfSubset):
                pass
            if base.sort in getattr(self, "lenient_sorts", ()):
                from specs.opaque import fresh_opaque
                ex.assumptions_used.add(f"bookkeeping attributes of {base.sort} that are not modelled do not influence modelled state")
                return fresh_opaque(ex)
            raise

    def ref_setattr(self, ex, base, attr, v):
        if base.sort == "Emitter":
            from specs.opaque import note_emission
            note_emission(ex, f"attribute {attr} of the lowering context assigned")
            return
        if base.sort == "Opaque":
            return
        if (base.sort, attr) not in self.fields and base.sort in getattr(self, "lenient_sorts", ()):
            return
        return super().ref_setattr(ex, base, attr, v)

    def ref_eq(self, ex, a, b):
        return None

    def eq_hook(self, ex, a, b):
        for h in self.eq_hooks:
            r = h(ex, a, b)
            if r is not None:
                return r
        return None

    def call_path(self, ex, path, args, kwargs):
        try:
            return super().call_path(ex, path, args, kwargs)
        except OutOfSubset as e:
            root = ex.frames[0].get("contract") if ex.frames else None
            if root is not None and getattr(root, "opaque_externals", False) and "unmodelled external call" in str(e):
                from specs.opaque import fresh_opaque
                ex.assumptions_used.add(f"external call {path}(...) treated as opaque (no effect on modelled state)")
                return fresh_opaque(ex)
            raise

    def with_value(self, ex, cm, body_thunk):
        for h in getattr(self, "with_value_hooks", []):
            if h(ex, cm, body_thunk):
                return True
        if isinstance(cm, VRef) and cm.sort in ("Opaque", "Emitter"):
            # assumption: library context managers do not swallow exceptions of their body
            ex.assumptions_used.add("opaque library context managers (nullcontext, const-folder scopes) are exception-transparent")
            body_thunk(cm)
            return True
        return False

    def iter_hook(self, ex, it):
        for h in self.iter_hooks:
            r = h(ex, it)
            if r is not None:
                return r
        return None

    def str_hook(self, ex, v):
        for h in self.str_hooks:
            r = h(ex, v)
            if r is not None:
                return r
        return None

    def len_hook(self, ex, v):
        for h in self.len_hooks:
            r = h(ex, v)
            if r is not None:
                return r
        return None

    def int_hook(self, ex, v):
        for h in self.int_hooks:
            r = h(ex, v)
            if r is not None:
                return r
        return None

    def attr_known_absent(self, v, nm):
        return True

    # ---------------------------------------------------------------- enums
    def _setup_onnx_ir_enums(self):
        import onnx_ir as ir

        members = {m.name: int(m.value) for m in ir.DataType}
        self.enums["DataType"] = {"members": members, "int": True, "path": "onnx_ir.DataType"}
        self.dt_members = members
        self.dt_is_integer = {int(m.value): bool(m.is_integer()) for m in ir.DataType}
        self.dt_is_fp = {int(m.value): bool(m.is_floating_point()) for m in ir.DataType}
        self.dt_is_signed = {}
        self.dt_signed_raises = set()
        self.dt_bitwidth = {}
        self.dt_bitwidth_raises = set()
        for m in ir.DataType:
            try:
                self.dt_is_signed[int(m.value)] = bool(m.is_signed())
            except TypeError:
                self.dt_signed_raises.add(int(m.value))
            try:
                self.dt_bitwidth[int(m.value)] = int(m.bitwidth)
            except TypeError:
                self.dt_bitwidth_raises.add(int(m.value))
        self.trust("onnx_ir.DataType members and is_integer/is_signed/bitwidth/is_floating_point tabulated from the installed onnx_ir %s at run time (assumed pure)" % ir.__version__)
        am = {m.name: int(m.value) for m in ir.AttributeType}
        self.enums["AttributeType"] = {"members": am, "int": True, "path": "onnx_ir.AttributeType"}
        self.enums["AttributeType"]["alias_paths"] = ["onnx_ir.AttributeType"]

    def method_hook(self, ex, recv, name, args, kw):
        for h in self.method_hooks:
            r = h(ex, recv, name, args, kw)
            if r is not None:
                return r
        if isinstance(recv, VEnum) and recv.enum == "DataType":
            code = recv.term
            if name == "is_integer":
                return (VBool(table_fn(code, self.dt_is_integer, False)),)
            if name == "is_floating_point":
                return (VBool(table_fn(code, self.dt_is_fp, False)),)
            if name == "is_signed":
                if self.dt_signed_raises and ex.branch(z3.Or([code == c for c in sorted(self.dt_signed_raises)])):
                    raise PyRaise("TypeError", "is_signed unsupported")
                return (VBool(table_fn(code, self.dt_is_signed, False)),)
        m = self.method_table.get((type(recv).__name__, getattr(recv, "sort", getattr(recv, "enum", None)), name))
        if m is not None:
            return (m(ex, recv, args, kw),)
        return None

    def enum_getattr(self, ex, v: VEnum, attr: str):
        if v.enum == "DataType":
            if attr == "bitwidth":
                code = v.term
                if self.dt_bitwidth_raises and ex.branch(z3.Or([code == c for c in sorted(self.dt_bitwidth_raises)])):
                    raise PyRaise("TypeError", "bitwidth unsupported")
                return VInt(table_fn(code, self.dt_bitwidth, 0))
            if attr == "value":
                return VInt(v.term)
        if attr == "value":
            return VInt(v.term)
        return None
