"""C07 — ONNX function boundaries: bodies are shared only between call sites with equal keys (partial).

The dedup key of FunctionPlugin._lower_and_call is built by highly dynamic code (params dicts, tracers);
what can be decided on the real source is stated as obligations over its AST and over the paths of the
parameter loop body (enumerated completely):
  * key coverage: every path through the body of `for pname, pval in params.items()` appends exactly one
    capture item and that item carries pname;
  * the key handed to the registry is FunctionKey(qualified_name, input_sig, capture_sig) with input_sig
    built from (shape, str(dtype)) of EVERY eqn.invars entry and capture_sig built from capture_items;
  * arity: the call site passes base_inputs + param_values, the same sum the definition was begun with;
  * the unique-instance fingerprint contains repr(treedef) unmodified and one component per leaf.
"""
from __future__ import annotations

import ast
import time

from pyvc.vals import *  # noqa
from pyvc.core import *  # noqa
from pyvc.world import Contract
from pyvc import source as S

MPS = "jax2onnx.plugins.plugin_system"


def _paths_append_counts(stmts, list_name, must_mention):
    """enumerate paths through a statement list; for each path: (number of `list_name.append(...)` calls whose
    argument mentions `must_mention`, number that do not, whether the path leaves the loop iteration early)"""
    def is_append(n):
        return isinstance(n, ast.Expr) and isinstance(n.value, ast.Call) and isinstance(n.value.func, ast.Attribute) and n.value.func.attr == "append" \
            and isinstance(n.value.func.value, ast.Name) and n.value.func.value.id == list_name

    def mentions(n):
        return any(isinstance(x, ast.Name) and x.id == must_mention for x in ast.walk(n.value.args[0])) if n.value.args else False

    def walk(block, paths):
        for st in block:
            new = []
            for good, bad, done in paths:
                if done:
                    new.append((good, bad, done))
                    continue
                if is_append(st):
                    new.append((good + (1 if mentions(st) else 0), bad + (0 if mentions(st) else 1), False))
                elif isinstance(st, ast.If):
                    new += walk(st.body, [(good, bad, False)]) + walk(st.orelse, [(good, bad, False)])
                elif isinstance(st, ast.Try):
                    # the try body either completes, or raises at its FIRST statement that can raise and a handler runs
                    # (appends evaluate their argument before appending: a raising argument appends nothing)
                    body_paths = walk(st.body, [(good, bad, False)])
                    new += [p for p in body_paths]
                    for h in st.handlers:
                        new += walk(h.body, [(good, bad, False)])
                elif isinstance(st, (ast.Continue, ast.Break, ast.Return, ast.Raise)):
                    new.append((good, bad, True))
                elif isinstance(st, (ast.For, ast.While)):
                    inner = walk(st.body, [(0, 0, False)])
                    if any(g or b for g, b, _ in inner):
                        new.append((good + 99, bad, False))  # appends inside a nested loop: not exactly one
                    else:
                        new.append((good, bad, False))
                else:
                    new.append((good, bad, False))
            paths = new
        return paths
    return walk(stmts, [(0, 0, False)])


def register(w):
    def custom(world, c, out):
        t0 = time.time()
        mod = S.load_module(MPS)
        fn = mod.find("FunctionPlugin._lower_and_call")

        def add(name, ok, note, kind="inv-step"):
            d = {"oid": f"{MPS}:FunctionPlugin._lower_and_call#{name}", "kind": kind, "status": "discharged" if ok else "refuted", "backend": "enumerated",
                 "time": 0.0, "instances": 1, "trivial": 0, "note": note}
            if not ok:
                d.update(args={"where": note}, replay=None, formula=name, model=note)
            out["obls"].append(d)

        # (1) parameter loop: exactly one capture item per parameter, carrying its name
        loop = None
        for n in ast.walk(fn):
            if isinstance(n, ast.For) and isinstance(n.iter, ast.Call) and isinstance(n.iter.func, ast.Attribute) and n.iter.func.attr == "items" \
                    and isinstance(n.iter.func.value, ast.Name) and n.iter.func.value.id == "params":
                loop = n
                break
        if loop is None:
            add("inv:one_capture_item_per_parameter", False, "the loop over params.items() was not found")
        else:
            pname = loop.target.elts[0].id if isinstance(loop.target, ast.Tuple) else None
            paths = _paths_append_counts(loop.body, "capture_items", pname)
            bad = [(g, b) for g, b, _ in paths if not (g == 1 and b == 0)]
            add("inv:one_capture_item_per_parameter", not bad and bool(paths), f"{len(paths)} paths through the loop body enumerated; paths not appending exactly one item carrying `{pname}`: {bad[:3]}")

            # (1b) ... and the item depends on the parameter's VALUE (or abstract value), not merely on its type:
            #      two call sites that differ in a static keyword argument must get different keys
            def value_names(expr):
                names = set()

                def rec(n, under_type):
                    if isinstance(n, ast.Call) and isinstance(n.func, ast.Name) and n.func.id == "type":
                        return
                    if isinstance(n, ast.Name):
                        names.add(n.id)
                    for ch in ast.iter_child_nodes(n):
                        rec(ch, under_type)
                rec(expr, False)
                return names
            carriers = {"resolved", "original_val", "value_for_capture", "pval", "shape", "dtype_for_capture", "aval"}
            weak = []
            for n in ast.walk(loop):
                if isinstance(n, ast.Expr) and isinstance(n.value, ast.Call) and isinstance(n.value.func, ast.Attribute) and n.value.func.attr == "append" \
                        and isinstance(n.value.func.value, ast.Name) and n.value.func.value.id == "capture_items" and n.value.args:
                    if not (value_names(n.value.args[0]) & carriers):
                        weak.append(ast.unparse(n.value.args[0]))
            add("inv:every_capture_item_depends_on_the_parameter_value", not weak, f"structural (AST): capture items that mention the parameter's value only through type(...): {weak}")

        # (2) the registry key
        key_calls = [n for n in ast.walk(fn) if isinstance(n, ast.Call) and isinstance(n.func, ast.Name) and n.func.id == "FunctionKey"]
        ok2, note2 = False, "FunctionKey(...) construction not found"
        if len(key_calls) == 1:
            kws = {k.arg: k.value for k in key_calls[0].keywords}
            src = {k: ast.unparse(v) for k, v in kws.items()}
            assigns = {}
            for n in ast.walk(fn):
                if isinstance(n, ast.Assign) and len(n.targets) == 1 and isinstance(n.targets[0], ast.Name):
                    assigns.setdefault(n.targets[0].id, []).append(ast.unparse(n.value))
            in_sig_src = assigns.get(src.get("input_sig", ""), [src.get("input_sig", "")])
            cap_src = assigns.get(src.get("capture_sig", ""), [])
            sig_appends = [ast.unparse(n.value.args[0]) for n in ast.walk(fn) if isinstance(n, ast.Expr) and isinstance(n.value, ast.Call) and isinstance(n.value.func, ast.Attribute)
                           and n.value.func.attr == "append" and isinstance(n.value.func.value, ast.Name) and n.value.func.value.id == "in_sigs"]
            sig_loops = [n for n in ast.walk(fn) if isinstance(n, ast.For) and ast.unparse(n.iter) == "eqn.invars" and any("in_sigs.append" in ast.unparse(x) for x in n.body)]
            ok2 = (set(kws) == {"qualified_name", "input_sig", "capture_sig"} and all("in_sigs" in s_ for s_ in in_sig_src) and len(sig_appends) == 1
                   and "shape" in sig_appends[0] and "str(dtype)" in sig_appends[0] and len(sig_loops) == 1
                   and len(cap_src) == 2 and all("capture_items" in s_ for s_ in cap_src) and src.get("qualified_name") in ("qualname", "self.name"))
            note2 = f"FunctionKey({src}); in_sigs entries {sig_appends}; capture_sig sources {cap_src}"
        add("post:registry_key_covers_name_input_avals_and_captures", ok2, "structural (AST): " + note2, kind="post")

        # (3) arity: definition begun with, and call emitted with, base inputs + parameter values
        txt = ast.unparse(fn)
        ok3 = "in_vals_parent = base_inputs + param_values" in txt and "fscope.begin(in_vals_parent)" in txt and "in_vals = base_inputs + param_values" in txt \
            and txt.count("base_inputs = [ctx.get_value_for_var(v) for v in eqn.invars]") == 2 and "param_values = [entry['ir_value'] for entry in dynamic_entries]" in txt
        add("post:call_site_arity_equals_definition_arity", ok3, "structural (AST): both the function definition and every call site are fed base_inputs + param_values, with param_values one value per dynamic entry", kind="post")

        # (4) unique-instance fingerprint
        fp = mod.find("FunctionPlugin._fingerprint_instance_state")
        appended = [ast.unparse(n.value.args[0]) for n in ast.walk(fp) if isinstance(n, ast.Expr) and isinstance(n.value, ast.Call) and isinstance(n.value.func, ast.Attribute)
                    and n.value.func.attr == "append" and ast.unparse(n.value.func.value) == "components"]
        ok4 = "('treedef', repr(treedef))" in appended and any(a.startswith("('leaf', idx, self._value_fingerprint(leaf))") for a in appended)
        d = {"oid": f"{MPS}:FunctionPlugin._fingerprint_instance_state#post:fingerprint_has_unmodified_treedef_repr_and_every_leaf", "kind": "post",
             "status": "discharged" if ok4 else "refuted", "backend": "enumerated", "time": 0.0, "instances": 1, "trivial": 0, "note": f"structural (AST): components appended: {appended}"}
        if not ok4:
            d.update(args={"components": appended}, replay=None, formula="components contains ('treedef', repr(treedef)) and ('leaf', idx, fingerprint(leaf)) for every leaf", model=str(appended))
        out["obls"].append(d)
        out["paths"], out["time"] = 4, time.time() - t0
        return out

    w.add_contract(Contract(f"{MPS}:<function-dedup-key>", kind="custom", custom=custom, props=["C07"], witnesses=["C07_sharing_family", "C03_function_identifiers_unique", "D29"]))
    w.trust("C07: hash(bytes)/sha1 are injective on the values met; repr(treedef) separates static configuration; id(callee) identifies a live instance (INSTANCE_MAP2 holds weak references): stated assumptions, not checked")

    # ---- bounded stand-ins (never counted as proved): call sites that must not share a definition, on the real export
    def bounded_sharing(world, c, out):
        import time
        from pyvc.run import run_witness
        t0 = time.time()
        for oname, wn, bound in (("call_sites_whose_symbolic_input_shapes_correlate_differently_get_their_own_definition", "C04_function_symbol_binding_family",
                                  "2 @onnx_function targets x 3 orders of two call sites with inputs [('T',3),('S',3)], 5 bindings of (T,S)"),
                                 ("call_sites_differing_in_a_keyword_argument_get_their_own_definition", "C19_function_target_kwargs_family",
                                  "19 call forms of 3 functions and 1 module, incl. f(x, k=None) next to f(x) in one program"),
                                 ("unique_instances_are_compared_by_their_content_at_every_export_of_a_process", "C07_unique_history_family",
                                  "one nnx model with two unique=True instances exported 4 times in one process with in-place updates of weights / static attributes in between, and once freshly built")):
            holds, detail = run_witness(wn, timeout=1200)
            d = {"oid": f"{MPS}:FunctionPlugin._lower_and_call#bounded:{oname}", "kind": "bounded", "status": "discharged" if holds else ("refuted" if holds is False else "unknown"),
                 "backend": "enumerated", "time": time.time() - t0, "instances": 1, "trivial": 0, "bounded": bound,
                 "note": f"the input-signature part of the key and the keyword plumbing of the substitute are not under contract; the real export is compared with JAX; {detail}"[:500]}
            if holds is False:
                d.update(args={"witness": wn}, replay={"reproduced": True, "detail": detail}, formula="", model=detail)
            out["obls"].append(d)
        out["paths"], out["time"] = 1, time.time() - t0
        return out
    w.add_contract(Contract(f"{MPS}:<bounded-sharing>", kind="custom", custom=bounded_sharing, props=["C07"], witnesses=["C04_function_symbol_binding_family", "C19_function_target_kwargs_family", "C07_unique_history_family"]))
