"""IRContext / IRBuilder / JAX variables as heap objects, and the tensor
algebra in which emitted values are denoted (DESIGN §3.3, §3.5).

den(v) : T      — what an ir.Value denotes, as a term of the tensor algebra
  tvar(x)             the data of JAX variable x (in the layout JAX sees)
  tin(v)              the tensor fed to graph input v
  Tr(p0,p1,p2,p3, t)  4-D transpose by a permutation
  castT(t)            the same tensor converted to another element type
  op(name, key, args) any other emitted operator (uninterpreted)
src(t) : JVar   — the JAX variable a tensor carries (through Tr / castT)
"""
from __future__ import annotations

import z3

from pyvc.vals import *  # noqa
from pyvc.core import *  # noqa
from pyvc.world import Contract, Ctx
from specs import graph as GM
from specs import npdtype
from specs.npdtype import NPDT

CTX, BLD, JVAR, AVAL, LAD, JAXPR, TT, SHAPE, SYMDIM, TSORT = "IRCtx", "Builder", "JVar", "Aval", "LayoutAdapter", "Jaxpr", "TensorType", "IrShape", "SymDim", "Tsr"
VALUE, NODE = GM.VALUE, GM.NODE
DIM = Dyn("int", "ref:" + SYMDIM)          # a dimension of a JAX aval: int or symbolic expression
IRSYM = "IrSymDim"
IRDIM = Dyn("int", "ref:" + IRSYM)        # a dimension stored in an ir.Shape: int, or ir.SymbolicDim(value: str | None)
MIC = "jax2onnx.converter.ir_context"
MIU = "jax2onnx.ir_utils"


class CtxModel:
    def __init__(self, w):
        self.w = w
        G = self.G = GM.register(w)
        P = self.P = npdtype.register(w)
        f = w.fields
        f[(CTX, "builder")] = Ref(BLD)
        f[(CTX, "_function_mode")] = Bool
        f[(CTX, "_keep_function_float32")] = Bool
        f[(CTX, "_default_float_dtype")] = Enum(NPDT)
        f[(BLD, "inputs")] = Seq(Ref(VALUE))
        f[(BLD, "outputs")] = Seq(Ref(VALUE))
        f[(BLD, "enable_double_precision")] = Bool
        f[(BLD, "opset")] = Int
        f[(BLD, "_var2val")] = MapT(Ref(JVAR), Ref(VALUE))
        f[(JVAR, "aval")] = Opt(Ref(AVAL))
        f[(AVAL, "shape")] = Seq(DIM)
        f[(AVAL, "dtype")] = Enum(NPDT)
        f[(LAD, "ctx")] = Ref(CTX)
        f[(LAD, "enable_double_precision")] = Bool
        f[(JAXPR, "invars")] = Seq(Ref(JVAR))
        f[(JAXPR, "outvars")] = Seq(Ref(JVAR))
        f[(VALUE, "type")] = Opt(Ref(TT))
        f[(VALUE, "shape")] = Opt(Ref(SHAPE))
        f[(TT, "dtype")] = Enum("DataType")
        f[(SHAPE, "dims")] = Seq(IRDIM)
        f[(IRSYM, "value")] = Opt(Str)
        w.ref_classes[IRSYM] = {"onnx_ir.SymbolicDim"}
        w.class_sorts["onnx_ir.SymbolicDim"] = IRSYM
        w.ref_classes[TT] = {"onnx_ir.TensorType"}
        w.ref_classes[SHAPE] = {"onnx_ir.Shape"}
        w.class_sorts.update({"onnx_ir.TensorType": TT, "onnx_ir.Shape": SHAPE})
        w.repo_classes = dict(getattr(w, "repo_classes", {}))
        w.repo_classes[CTX] = (MIC, "IRContext")
        w.repo_classes[LAD] = ("jax2onnx.converter.conversion_api", "_LayoutAdapter")
        self.T = ref_sort(TSORT)
        T, V, J = self.T, ref_sort(VALUE), ref_sort(JVAR)
        self.den = w.fn("den", V, T)
        self.tvar = w.fn("tvar", J, T)
        self.tin = w.fn("tin", V, T)
        self.Tr = w.fn("Tr", z3.IntSort(), z3.IntSort(), z3.IntSort(), z3.IntSort(), T, T)
        self.castT = w.fn("castT", T, T)
        self.src = w.fn("tensor_src", T, J)
        self.label = w.fn("dim_label", ref_sort(SYMDIM), z3.StringSort())
        t, j = z3.Const("t!c", T), z3.Const("j!c", J)
        a, b, c, d = z3.Ints("a!c b!c c!c d!c")
        w.add_axiom(z3.ForAll([j], self.src(self.tvar(j)) == j, patterns=[self.tvar(j)]))
        w.add_axiom(z3.ForAll([t], self.src(self.castT(t)) == self.src(t), patterns=[self.castT(t)]))
        w.add_axiom(z3.ForAll([a, b, c, d, t], self.src(self.Tr(a, b, c, d, t)) == self.src(t), patterns=[self.Tr(a, b, c, d, t)]))
        w.trust("tensor algebra: den/tvar/tin/Tr/castT are uninterpreted; src is preserved by transposition and element-type conversion")
        w.trust("IRContext/IRBuilder object model of specs/ctxmodel.py: builder.inputs/outputs/_var2val are plain containers; builder.<Op>(...) emits one node and returns its fresh output value")
        self._install()

    # ---------------------------------------------------------------- helpers for contracts
    def outputs(self, ex, bld_term):
        arrs = ex.heap_arrays(BLD, "outputs")
        return z3.Select(arrs[0], bld_term), z3.Select(arrs[1], bld_term)

    def inputs(self, ex, bld_term):
        arrs = ex.heap_arrays(BLD, "inputs")
        return z3.Select(arrs[0], bld_term), z3.Select(arrs[1], bld_term)

    def builder_of(self, ex, ctx_term):
        return z3.Select(ex.heap_arrays(CTX, "builder")[0], ctx_term)

    def symdim_is(self, ex, symref, label):
        """the ir.SymbolicDim object carries exactly this label"""
        a = ex.heap_arrays(IRSYM, "value")
        return z3.And(symref != null_of(IRSYM), z3.Not(z3.Select(a[0], symref)), z3.Select(a[1], symref) == label)

    def fresh_value(self, ex, name="val"):
        return ex.new_object(VALUE, name)

    def perm_of(self, ex, perm):
        items = ex.as_concrete_items(perm)
        if len(items) != 4:
            raise OutOfSubset("Transpose with a permutation of length != 4")
        return [ex.as_int_term(x) for x in items]

    # ---------------------------------------------------------------- installation
    def _install(self):
        w, M = self.w, self

        # ir.Value(name=, type=, shape=, const_value=)
        def mk_value(ex, args, kw):
            v = M.fresh_value(ex, "new_value")
            ex.write_field(v, "name", kw.get("name", NONE))
            ex.write_field(v, "type", kw.get("type", NONE))
            ex.write_field(v, "shape", kw.get("shape", NONE))
            return v
        w.path_models["onnx_ir.Value()"] = mk_value

        def mk_tensor_type(ex, args, kw):
            r = ex.new_object(TT, "ttype")
            ex.write_field(r, "dtype", args[0])
            return r
        w.path_models["onnx_ir.TensorType()"] = mk_tensor_type

        def mk_shape(ex, args, kw):
            dims = args[0]
            r = ex.new_object(SHAPE, "irshape")
            if isinstance(dims, VRef) and dims.sort == SHAPE:
                dims = ex.read_field(dims, "dims")  # ir.Shape(shape) clones the dims
            if isinstance(dims, (VTuple, VList)):
                items = []
                for it in dims.items:
                    if isinstance(it, (VStr, VNone)):
                        sd = ex.new_object(IRSYM, "symdim")
                        ex.write_field(sd, "value", it)
                        it = sd
                    items.append(it)
                dims = ex.list_to_seq(VList(items), IRDIM)
            if not (isinstance(dims, VSeq)):
                raise OutOfSubset(f"ir.Shape({dims!r})")
            ex.write_field(r, "dims", dims)
            return r
        w.path_models["onnx_ir.Shape()"] = mk_shape

        def mk_attr(ex, args, kw):
            a = ex.fresh_const("attr", ref_sort(GM.ATTR))
            ex.assume(a != null_of(GM.ATTR))
            r = VRef(GM.ATTR, a)
            r.payload = args[1] if len(args) > 1 else None   # what the attribute was built from (read by transaction specs)
            return r
        w.path_models["onnx_ir.convenience.convert_attribute"] = mk_attr
        w.path_models["jax2onnx.ir_utils.tensor_attr"] = mk_attr

        def mk_node(ex, args, kw):
            names = ["domain", "op_type", "inputs"]
            for nm, a in zip(names, args):
                kw.setdefault(nm, a)
            node = ex.new_object(NODE, "new_node")
            ex.write_field(node, "op_type", kw["op_type"])
            ex.write_field(node, "domain", kw.get("domain", VStr("")))
            ins = kw.get("inputs", VList([]))
            outs = kw.get("outputs")
            in_items = ex.as_concrete_items(ins)
            ex.write_field(node, "inputs", ex.list_to_seq(VList(in_items), Opt(Ref(VALUE))))
            if outs is None:
                out_items = [M.fresh_value(ex, "node_out")]
            else:
                out_items = ex.as_concrete_items(outs)
            ex.write_field(node, "outputs", ex.list_to_seq(VList(out_items), Ref(VALUE)))
            op = z3.simplify(kw["op_type"].term)
            if z3.is_string_value(op) and op.as_string() in ("Cast", "CastLike") and in_items and out_items and isinstance(in_items[0], VRef):
                ex.assume(M.den(out_items[0].term) == M.castT(M.den(in_items[0].term)))
            ex.events.append(("node", node, kw))
            return node
        w.path_models["onnx_ir.Node()"] = mk_node

        # builder.<Op>(*inputs, **attrs, _outputs=[name]) : emit one node, return the fresh output
        def emit(op):
            def impl(ex, bld, args, kw):
                out = M.fresh_value(ex, f"{op}_out")
                ex.write_field(out, "type", NONE)
                ex.write_field(out, "shape", NONE)
                names = kw.get("_outputs")
                if names is not None:
                    items = ex.as_concrete_items(names)
                    ex.write_field(out, "name", items[0] if items else NONE)
                ex.events.append(("emit", op, list(args), dict(kw), out))
                if op == "Transpose" and args and isinstance(args[0], VRef) and "perm" in kw:
                    p = M.perm_of(ex, kw["perm"])
                    ex.assume(M.den(out.term) == M.Tr(p[0], p[1], p[2], p[3], M.den(args[0].term)))
                h = getattr(w, "emit_semantics", None)
                if h is not None:
                    h(ex, op, args, kw, out)
                return out
            return impl

        def bld_getattr(ex, base, attr):
            if base.sort == BLD and attr[:1].isupper():
                f = emit(attr)
                return VFunc("builtin", f"builder.{attr}", impl=lambda e, a, k, _f=f, _b=base: _f(e, _b, a, k))
            return None
        w.ref_getattr_hooks.append(bld_getattr)

        # assumed contracts of the tolerant accessors (they read one attribute)
        w.add_contract(Contract(f"{MIC}:_maybe_aval", params={"obj": Ref(JVAR)}, ret=Opt(Ref(AVAL)), assumed=True,
                                ensures=[("is_attr", _post_maybe_aval)], note="returns obj.aval or None"))
        w.add_contract(Contract(f"{MIC}:_maybe_dtype", params={"aval": Opt(Ref(AVAL))}, ret=Opt(Enum(NPDT)), assumed=True,
                                ensures=[("is_attr", lambda c: _maybe_field(c, "dtype"))], note="returns np.dtype(aval.dtype) or None"))
        w.add_contract(Contract(f"{MIC}:_maybe_shape", params={"aval": Opt(Ref(AVAL))}, ret=Opt(Seq(DIM)), assumed=True,
                                ensures=[("is_attr", lambda c: _maybe_field(c, "shape"))], note="returns tuple(aval.shape) or None"))
        w.add_contract(Contract("jax2onnx.converter.conversion_api:_maybe_dtype", params={"aval": Opt(Ref(AVAL))}, ret=Opt(Enum(NPDT)), assumed=True,
                                ensures=[("is_attr", lambda c: _maybe_field(c, "dtype"))], note="returns np.dtype(aval.dtype) or None"))

        # ir_shape_from_dims: int stays int, anything else becomes its label
        def post_shape(c: Ctx):
            dims, r = c["dims"], c.result
            if not isinstance(dims, VSeq):
                dims = c.ex.to_seq(dims, DIM)
            out = c.field(r, "dims")
            k = z3.Int("k!sh")
            tag_in, int_in, sym_in = dims.arrs[0], dims.arrs[1], dims.arrs[2]
            tag_out, int_out, sym_out = out.arrs[0], out.arrs[1], out.arrs[2]
            return z3.And(out.length == dims.length, z3.ForAll([k], z3.Implies(z3.And(0 <= k, k < dims.length), z3.And(
                z3.Implies(z3.Select(tag_in, k) == 0, z3.And(z3.Select(tag_out, k) == 0, z3.Select(int_out, k) == z3.Select(int_in, k))),
                z3.Implies(z3.Select(tag_in, k) == 1, z3.And(z3.Select(tag_out, k) == 1, M.symdim_is(c.ex, z3.Select(sym_out, k), M.label(z3.Select(sym_in, k)))))))))
        w.add_contract(Contract(f"{MIU}:ir_shape_from_dims", params={"dims": Seq(DIM), "parse_integer_like": Bool}, ret=Ref(SHAPE), assumed=True, fresh_result=True,
                                ensures=[("dims_coerced", post_shape)], note="ir.Shape of the dims: an int stays that int, a symbolic dimension becomes its string label"))


def _post_maybe_aval(c):
    t = z3.Select(c.ex.heap_arrays(JVAR, "aval")[0], c["obj"].term)
    r = c.result
    return t == null_of(AVAL) if isinstance(r, VNone) else r.term == t


def _same(c, v):
    r = c.result
    if isinstance(r, VNone) or isinstance(v, VNone):
        return z3.BoolVal(isinstance(r, VNone) and isinstance(v, VNone))
    return c.ex.eq(r, v)


def _maybe_field(c, field):
    a, r = c["aval"], c.result
    if isinstance(a, VNone):
        return z3.BoolVal(isinstance(r, VNone))
    if isinstance(r, VNone):
        return z3.BoolVal(False)
    v = c.field(a, field)
    if isinstance(v, VSeq):
        return z3.And([r.length == v.length] + [x == y for x, y in zip(r.arrs, v.arrs)])
    return c.ex.eq(r, v)


def register(w):
    if getattr(w, "ctxmodel", None) is None:
        w.ctxmodel = CtxModel(w)
    return w.ctxmodel
