"""module-level @onnx_function definitions used by witnesses (the decorator needs importable, module-level targets)"""
import jax
from flax import nnx
from jax2onnx import onnx_function


@onnx_function
class NormBlock(nnx.Module):
    def __init__(self):
        self.norm = nnx.RMSNorm(4, rngs=nnx.Rngs(0))

    def __call__(self, x):
        return self.norm(x) * 2.0


@onnx_function
def silu_act(x):
    return jax.nn.silu(x) + 1.0
