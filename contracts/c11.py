"""C11 — the requested opset is honoured: nothing newer than the declared opset is emitted."""
from __future__ import annotations

import ast
import glob
import os
import time
import z3

from pyvc.vals import *  # noqa
from pyvc.core import *  # noqa
from pyvc.world import Contract, Ctx
from pyvc import source as S
from pyvc import opsetvc
from specs import ctxmodel
from specs.ctxmodel import CTX, BLD

BASELINE_OPSET = 21
MF = "jax2onnx.converter.function_scope"
FSC = "FunctionScope"


def register(w):
    M = ctxmodel.register(w)
    sel = z3.Select

    # ---- every emission site of an operator newer than the baseline opset is dominated by an opset guard
    def custom(world, c, out):
        t0 = time.time()
        ops = opsetvc.first_versions(BASELINE_OPSET + 1)
        newest = max(ops.values())
        repo = S.REPO
        n_sites = 0
        for path in sorted(glob.glob(repo + "/jax2onnx/**/*.py", recursive=True)):
            with open(path, encoding="utf-8") as f:
                src = f.read()
            if not any(o in src for o in ops):
                continue
            tree = ast.parse(src)
            rel = path[len(repo) + 1:]
            mod = rel[:-3].replace("/", ".")
            counts = {}
            for fn, call, op in opsetvc.emission_sites(tree, ops):
                k = (fn.name, op)
                counts[k] = counts.get(k, 0) + 1
                n_sites += 1
                t1 = time.time()
                status, cex, doms = opsetvc.check_site(fn, call, ops[op])
                if status == "refuted":
                    # prefer a counterexample inside the claimed range of opsets
                    s = z3.Solver()
                    for d in doms:
                        s.add(d)
                    s.add(opsetvc.OPSET >= BASELINE_OPSET, opsetvc.OPSET < ops[op])
                    if s.check() == z3.sat:
                        cex = s.model().eval(opsetvc.OPSET, model_completion=True).as_long()
                cls = _enclosing_class(tree, fn)
                oid = f"{mod}:{(cls + '.') if cls else ''}{fn.name}#pre@site:{op}_requires_opset_{ops[op]}" + (f"[{counts[k]}]" if counts[k] > 1 else "")
                d = {"oid": oid, "kind": "pre@site", "status": status, "backend": "z3", "time": time.time() - t1, "instances": 1, "trivial": 0,
                     "note": f"{rel}:{call.lineno} emits {op} (first defined in opset {ops[op]}); dominating conditions: {len(doms)}"}
                if status == "refuted":
                    d["args"] = {"opset": cex, "op": op, "site": f"{rel}:{call.lineno}"}
                    d["formula"] = f"And({', '.join(str(x)[:80] for x in doms)}) => OPSET >= {ops[op]}"
                    d["model"] = f"OPSET = {cex}"
                    d["replay"] = None
                out["obls"].append(d)
        if n_sites == 0:
            out["crash"] = "no emission site of a post-baseline operator found (vacuous)"
        out["time"] = time.time() - t0
        out["paths"] = n_sites
        return out

    w.add_contract(Contract("jax2onnx.plugins:<emission-sites>", kind="custom", custom=custom, props=["C11"],
                            witnesses=["C11_ops_within_opset"]))
    # ---- bounded stand-ins (never counted as proved): element types are part of the operator signature of an opset
    def bounded_types(world, c, out):
        import time
        from pyvc.run import run_witness
        t0 = time.time()
        for oname, wn, bound in (("range_like_operators_are_emitted_with_element_types_their_declared_opset_admits", "C11_type_constraints_family",
                                  "jnp.arange / lax.iota / jnp.linspace with result types float16, bfloat16, float32, int32, int64, static and traced bounds, every opset from 21 to the newest installed"),
                                 ("arange_with_an_8_bit_or_unsigned_result_type_is_emitted_with_a_type_range_admits", "D42", "2 programs: jnp.arange(stop, dtype=int8), jnp.arange(5, dtype=uint8), every opset from 21")):
            holds, detail = run_witness(wn, timeout=1500)
            d = {"oid": f"jax2onnx.plugins.jax.numpy.arange:JnpArangePlugin.lower#bounded:{oname}", "kind": "bounded", "status": "discharged" if holds else ("refuted" if holds is False else "unknown"),
                 "backend": "enumerated", "time": time.time() - t0, "instances": 1, "trivial": 0, "bounded": bound,
                 "note": f"the emission-site obligations speak about operator names only; type constraints per opset are checked by onnx.checker on the real export; {detail}"[:500]}
            if holds is False:
                d.update(args={"witness": wn}, replay={"reproduced": True, "detail": detail}, formula="", model=detail)
            out["obls"].append(d)
        out["paths"], out["time"] = 1, time.time() - t0
        return out
    w.add_contract(Contract("jax2onnx.plugins:<bounded-type-constraints>", kind="custom", custom=bounded_types, props=["C11"], witnesses=["C11_type_constraints_family", "D42"]))
    w.trust("C11 opset-slice mode: expressions recognised as the opset (builder.opset, ctx.opset, _builder_opset(..), _graph_default_opset(..)) denote the declared model opset; operator first-versions tabulated from the installed onnx.defs")

    # ---- function bodies are lowered at the opset (and precision) of the enclosing model
    w.fields[(FSC, "parent")] = Ref(CTX)
    w.fields[(FSC, "ctx")] = Ref(CTX)
    w.fields[(FSC, "name")] = Str
    w.fields[(FSC, "domain")] = Str
    w.fields[(CTX, "_normalization_mode")] = Str
    w.lenient_sorts = set(getattr(w, "lenient_sorts", set())) | {CTX, BLD, FSC}

    def mk_ctx(ex, args, kw):
        """IRContext(...): bind the arguments with the REAL signature (defaults included), then store them"""
        mod = S.load_module("jax2onnx.converter.ir_context")
        init = mod.find("IRContext.__init__")
        env = Env(module=mod)
        ex.bind_params(init.args, [NONE] + list(args), kw, env, Env(module=mod), "IRContext.__init__")
        ctx = ex.new_object(CTX, "child_ctx")
        bld = ex.new_object(BLD, "child_builder")
        ex.write_field(ctx, "builder", bld)
        ex.write_field(bld, "opset", env.vars["opset"])
        ex.write_field(bld, "enable_double_precision", VBool(ex.truthy(env.vars["enable_double_precision"])))
        ex.write_field(ctx, "_normalization_mode", env.vars["normalization_mode"])
        ex.write_field(ctx, "_function_mode", VBool(False))
        ex.write_field(ctx, "_keep_function_float32", VBool(False))
        ex.assumptions_used.add("IRContext.__init__ stores opset / enable_double_precision / normalization_mode into its builder and itself (arguments bound with the real signature, defaults included)")
        return ctx
    w.path_models["jax2onnx.converter.ir_context.IRContext()"] = mk_ctx

    def post_scope(c: Ctx):
        ex = c.ex
        child = ex.read_field(c["self"], "ctx")
        parent = c["parent"]
        cb, pb = M.builder_of(ex, child.term), M.builder_of(ex, parent.term)
        ops = ex.heap_arrays(BLD, "opset")[0]
        dbl = ex.heap_arrays(BLD, "enable_double_precision")[0]
        nm = ex.heap_arrays(CTX, "_normalization_mode")[0]
        return [("body_opset_is_the_model_opset", sel(ops, cb) == sel(ops, pb)),
                ("body_precision_is_the_model_precision", sel(dbl, cb) == sel(dbl, pb)),
                ("body_normalization_mode_is_the_model_mode", sel(nm, child.term) == sel(nm, parent.term)),
                ("function_mode_on", z3.And(sel(ex.heap_arrays(CTX, "_function_mode")[0], child.term)))]

    w.repo_classes = dict(getattr(w, "repo_classes", {}))
    w.repo_classes[FSC] = (MF, "FunctionScope")
    w.add_contract(Contract(
        f"{MF}:FunctionScope.__init__", params={"self": Ref(FSC), "parent": Ref(CTX), "name": Str, "domain": Str},
        ensures=[("child_context_mirrors_parent", post_scope)], ret=NoneT, props=["C11", "C09", "C07", "C16", "C04"], opaque_externals=True,
        witnesses=["C11_function_body_opset", "C16_function_dim_without_origin_is_loud"],
    ))


def _enclosing_class(tree, fn):
    for n in ast.walk(tree):
        if isinstance(n, ast.ClassDef) and fn in n.body:
            return n.name
    return None
