"""Models of Python builtins and of methods of builtin values."""
from __future__ import annotations

import z3

from .vals import *  # noqa
from .core import *  # noqa
from .world import BUILTINS


def builtin(name):
    def deco(f):
        BUILTINS[name] = VFunc("builtin", name, impl=f)
        return f
    return deco


def _comp_items(ex, a):
    """argument that may be an unevaluated comprehension"""
    if isinstance(a, VFunc) and a.kind == "comp":
        return ex.comp_list(a.node, a.env, mutable=False)
    return a


@builtin("len")
def _len(ex, args, kw):
    v = args[0]
    if isinstance(v, (VTuple, VList)):
        return VInt(len(v.items))
    if isinstance(v, VSeq):
        return VInt(v.length)
    if isinstance(v, VStr):
        return VInt(z3.Length(v.term))
    if isinstance(v, VDict):
        return VInt(len(v.entries))
    if isinstance(v, VPy) and isinstance(v.obj, tuple) and v.obj and v.obj[0] in ("set", "frozenset"):
        return VInt(len(v.obj[1]))  # only used for truthiness-like checks on literal sets
    h = ex.world.len_hook(ex, v) if hasattr(ex.world, "len_hook") else None
    if h is not None:
        return h
    if isinstance(v, VNone):
        raise PyRaise("TypeError", "len(None)")
    raise OutOfSubset(f"len of {v!r}")


@builtin("int")
def _int(ex, args, kw):
    if not args:
        return VInt(0)
    v = args[0]
    t = ex.as_int_term(v)
    if t is not None:
        return VInt(t)
    if isinstance(v, VStr):
        # int(s): ValueError unless s is a (signed) digit string; modelled for plain digits
        s = v.term
        isdig = z3.And(z3.Length(s) > 0, z3.StrToInt(s) >= 0)
        if ex.branch(isdig):
            return VInt(z3.StrToInt(s))
        neg = z3.And(z3.Length(s) > 1, z3.PrefixOf(z3.StringVal("-"), s), z3.StrToInt(z3.SubString(s, 1, z3.Length(s) - 1)) >= 0)
        if ex.branch(neg):
            return VInt(-z3.StrToInt(z3.SubString(s, 1, z3.Length(s) - 1)))
        # whitespace/underscore/'+' forms are not modelled: either outcome possible
        if ex.branch(z3.Bool(ex.fresh_name("int_of_str_exotic"))):
            return ex.fresh("int_exotic", Int)
        raise PyRaise("ValueError", "int() of non-numeric string")
    if isinstance(v, VNone):
        raise PyRaise("TypeError", "int(None)")
    h = ex.world.int_hook(ex, v) if hasattr(ex.world, "int_hook") else None
    if h is not None:
        return h
    raise OutOfSubset(f"int({v!r})")


@builtin("bool")
def _bool(ex, args, kw):
    if not args:
        return VBool(False)
    return VBool(ex.truthy(args[0]))


@builtin("str")
def _str(ex, args, kw):
    if not args:
        return VStr("")
    return ex.to_str(args[0])


@builtin("repr")
def _repr(ex, args, kw):
    v = args[0]
    if isinstance(v, VInt):
        return ex.to_str(v)
    h = ex.world.repr_hook(ex, v) if hasattr(ex.world, "repr_hook") else None
    if h is not None:
        return h
    return VStr(ex.fresh_const("repr_of", z3.StringSort()))


@builtin("abs")
def _abs(ex, args, kw):
    t = ex.as_int_term(args[0])
    if t is None:
        raise OutOfSubset("abs of non-int")
    return VInt(z3.If(t >= 0, t, -t))


def _minmax(ex, args, kw, is_max):
    a = _comp_items(ex, args[0]) if len(args) == 1 else VTuple(args)
    if isinstance(a, (VTuple, VList)):
        items = list(a.items)
        if not items:
            if "default" in kw:
                return kw["default"]
            raise PyRaise("ValueError", "min/max of empty")
        ts = [ex.as_int_term(x) for x in items]
        if any(t is None for t in ts):
            raise OutOfSubset("min/max of non-ints")
        r = ts[0]
        for t in ts[1:]:
            r = z3.If(t > r, t, r) if is_max else z3.If(t < r, t, r)
        return VInt(r)
    if isinstance(a, VSeq) and isinstance(a.elem, type(Int)):
        if ex.branch(a.length <= 0):
            if "default" in kw:
                return kw["default"]
            raise PyRaise("ValueError", "min/max of empty")
        m = ex.fresh_const("max" if is_max else "min", z3.IntSort())
        i = z3.Int("i!mm")
        arr = a.arrs[0]
        rng = z3.And(i >= 0, i < a.length)
        ex.assume(z3.ForAll([i], z3.Implies(rng, (z3.Select(arr, i) <= m) if is_max else (z3.Select(arr, i) >= m))))
        j = ex.fresh_const("argmm", z3.IntSort())
        ex.assume(z3.And(j >= 0, j < a.length, z3.Select(arr, j) == m))
        return VInt(m)
    raise OutOfSubset(f"min/max of {a!r}")


@builtin("max")
def _max(ex, args, kw):
    return _minmax(ex, args, kw, True)


@builtin("min")
def _min(ex, args, kw):
    return _minmax(ex, args, kw, False)


def _allany(ex, args, is_all):
    a = args[0]
    if isinstance(a, VFunc) and a.kind == "comp":
        n = a.node
        g = n.generators[0]
        src = ex.ev(g.iter, a.env) if len(n.generators) == 1 else None
        it = None if (src is None or isinstance(src, VSet)) else ex.iter_view(src)
        if isinstance(it, list):
            for item in it:
                e2 = Env(a.env)
                ex.bind_target(g.target, item, e2)
                if not all(ex.test(c, e2) for c in g.ifs):
                    continue
                t = ex.test(n.elt, e2)
                if t != is_all:
                    return VBool(not is_all)
            return VBool(is_all)
        if isinstance(it, VSeq):
            # quantified: elementwise predicate evaluated without forking
            def body(e2):
                conds = [ex.truthy(ex.ev(c, e2)) for c in g.ifs]
                return None, conds + [ex.truthy(ex.ev(n.elt, e2))]
            i, _, terms = ex.for_arbitrary_index(it, g.target, a.env, body)
            conds, body = terms[:-1], terms[-1]
            rng = z3.And(i >= 0, i < it.length, *conds)
            r = ex.fresh_const("all" if is_all else "any", z3.BoolSort())
            if is_all:
                ex.assume(r == z3.ForAll([i], z3.Implies(rng, body)))
            else:
                ex.assume(r == z3.Exists([i], z3.And(rng, body)))
            return VBool(r)
        if isinstance(src, VSet) and not g.ifs:
            def body_s(e2):
                return None, [ex.truthy(ex.ev(n.elt, e2))]
            x, _, terms = ex.for_arbitrary_element(src, g.target, a.env, body_s)
            r = ex.fresh_const("all" if is_all else "any", z3.BoolSort())
            if is_all:
                ex.assume(r == z3.ForAll([x], z3.Implies(z3.Select(src.arr, x), terms[0])))
            else:
                ex.assume(r == z3.Exists([x], z3.And(z3.Select(src.arr, x), terms[0])))
            return VBool(r)
        raise OutOfSubset("all/any over unsupported iterable")
    if isinstance(a, (VTuple, VList)):
        for x in a.items:
            if ex.branch(ex.truthy(x)) != is_all:
                return VBool(not is_all)
        return VBool(is_all)
    raise OutOfSubset(f"all/any of {a!r}")


@builtin("all")
def _all(ex, args, kw):
    return _allany(ex, args, True)


@builtin("any")
def _any(ex, args, kw):
    return _allany(ex, args, False)


@builtin("tuple")
def _tuple(ex, args, kw):
    if not args:
        return VTuple([])
    a = _comp_items(ex, args[0])
    if isinstance(a, VTuple):
        return a
    if isinstance(a, VList):
        return VTuple(a.items)
    if isinstance(a, VSeq):
        n = ex.concrete_len(a)
        if n is not None:
            return VTuple([ex.seq_get(a, z3.IntVal(i)) for i in range(n)])
        return VSeq(a.elem, list(a.arrs), a.length, False)
    if isinstance(a, VPy) and isinstance(a.obj, tuple) and a.obj and a.obj[0] in ("set", "frozenset", "iter"):
        return VTuple(a.obj[1])
    h = ex.world.iter_hook(ex, a)
    if h is not None:
        return VTuple(h) if isinstance(h, list) else VSeq(h.elem, list(h.arrs), h.length, False)
    raise OutOfSubset(f"tuple({a!r})")


@builtin("list")
def _list(ex, args, kw):
    if not args:
        return VList([], True)
    a = _comp_items(ex, args[0])
    if isinstance(a, (VTuple, VList)):
        return VList(list(a.items), True)
    if isinstance(a, VSeq):
        return VSeq(a.elem, list(a.arrs), a.length, True)
    if isinstance(a, VPy) and isinstance(a.obj, tuple) and a.obj and a.obj[0] in ("set", "frozenset", "iter"):
        return VList(list(a.obj[1]), True)
    if isinstance(a, VSet):
        # list(set): some sequence enumerating exactly the set, order unknown
        s = ex.fresh("list_of_set", Seq(a.elem))
        ex.assume(s.length >= 0)
        i, j = z3.Int("i!ls"), z3.Int("j!ls")
        x = z3.Const("x!ls", flat_sorts(a.elem)[0])
        ex.assume(z3.ForAll([i], z3.Implies(z3.And(i >= 0, i < s.length), z3.Select(a.arr, z3.Select(s.arrs[0], i)))))
        ex.assume(z3.ForAll([x], z3.Implies(z3.Select(a.arr, x), z3.Exists([j], z3.And(j >= 0, j < s.length, z3.Select(s.arrs[0], j) == x)))))
        return s
    h = ex.world.iter_hook(ex, a)
    if h is not None:
        return VList(h, True) if isinstance(h, list) else VSeq(h.elem, list(h.arrs), h.length, True)
    raise OutOfSubset(f"list({a!r})")


@builtin("set")
def _set(ex, args, kw):
    if not args:
        return VPy(obj=("set", []))
    a = _comp_items(ex, args[0])
    if isinstance(a, (VTuple, VList)):
        return VPy(obj=("set", list(a.items)))
    if isinstance(a, VPy) and isinstance(a.obj, tuple) and a.obj and a.obj[0] in ("set", "frozenset"):
        return VPy(obj=("set", list(a.obj[1])))
    if isinstance(a, VSeq):
        x = z3.Const("x!st", flat_sorts(a.elem)[0])
        i = z3.Int("i!st")
        return VSet(a.elem, z3.Lambda([x], z3.Exists([i], z3.And(i >= 0, i < a.length, z3.Select(a.arrs[0], i) == x))))
    if isinstance(a, VSet):
        return VSet(a.elem, a.arr)
    raise OutOfSubset(f"set({a!r})")


@builtin("frozenset")
def _frozenset(ex, args, kw):
    r = _set(ex, args, kw)
    if isinstance(r, VPy):
        return VPy(obj=("frozenset", r.obj[1]))
    return r


@builtin("dict")
def _dict(ex, args, kw):
    if not args and not kw:
        return VDict([])
    if args and isinstance(args[0], VDict):
        return VDict(list(args[0].entries) + [(VStr(k), v) for k, v in kw.items()])
    if args and isinstance(args[0], VMap) and not kw:
        m = args[0]
        return VMap(m.k, m.v, m.present, list(m.arrs))
    if not args:
        return VDict([(VStr(k), v) for k, v in kw.items()])
    if isinstance(args[0], VRef) and args[0].sort == "Opaque" and not kw:
        return args[0]      # a copy of an opaque mapping: still opaque (content never inspected by the verified code)
    raise OutOfSubset("dict(...)")


@builtin("sorted")
def _sorted(ex, args, kw):
    a = _comp_items(ex, args[0])
    if kw:
        raise OutOfSubset("sorted with key/reverse")
    if isinstance(a, (VTuple, VList)) and len(a.items) <= 1:
        return VList(list(a.items), True)
    if isinstance(a, (VTuple, VList)):
        a = ex.to_seq(a)
    if isinstance(a, VPy) and isinstance(a.obj, tuple) and a.obj[0] in ("set", "frozenset"):
        a = ex.to_seq(VList(a.obj[1]))
    if isinstance(a, VSeq) and isinstance(a.elem, type(Int)):
        s = ex.fresh("sorted", Seq(Int))
        ex.assume(s.length == a.length)
        i, j = z3.Int("i!so"), z3.Int("j!so")
        r = z3.And(i >= 0, i < a.length)
        ex.assume(z3.ForAll([i, j], z3.Implies(z3.And(0 <= i, i < j, j < s.length), z3.Select(s.arrs[0], i) <= z3.Select(s.arrs[0], j))))
        # permutation, stated as mutual inclusion of elements (multiplicities not tracked)
        ex.assume(z3.ForAll([i], z3.Implies(r, z3.Exists([j], z3.And(j >= 0, j < a.length, z3.Select(s.arrs[0], j) == z3.Select(a.arrs[0], i))))))
        ex.assume(z3.ForAll([i], z3.Implies(r, z3.Exists([j], z3.And(j >= 0, j < a.length, z3.Select(a.arrs[0], j) == z3.Select(s.arrs[0], i))))))
        return s
    raise OutOfSubset(f"sorted({a!r})")


@builtin("range")
def _range(ex, args, kw):
    ts = [ex.as_int_term(a) for a in args]
    lo, hi = (z3.IntVal(0), ts[0]) if len(ts) == 1 else (ts[0], ts[1])
    if len(ts) == 3:
        raise OutOfSubset("range step")
    n = z3.simplify(hi - lo)
    if z3.is_int_value(n) and n.as_long() <= 16:
        return VList([VInt(z3.simplify(lo + k)) for k in range(max(0, n.as_long()))], False)
    k = z3.Int("k!rg")
    return VSeq(Int, [z3.Lambda([k], lo + k)], z3.If(hi > lo, hi - lo, 0), False)


@builtin("enumerate")
def _enumerate(ex, args, kw):
    a = args[0]
    if isinstance(a, (VTuple, VList)):
        return VList([VTuple([VInt(i), x]) for i, x in enumerate(a.items)], False)
    if isinstance(a, VSeq):
        k = z3.Int("k!en")
        return VSeq(Tup(Int, a.elem), [z3.Lambda([k], k)] + list(a.arrs), a.length, False)
    raise OutOfSubset("enumerate")


@builtin("zip")
def _zip(ex, args, kw):
    if all(isinstance(a, (VTuple, VList)) for a in args):
        return VList([VTuple(list(t)) for t in zip(*[a.items for a in args])], False)
    seqs = [ex.to_seq(a) if not isinstance(a, VSeq) else a for a in args]
    ln = seqs[0].length
    for s in seqs[1:]:
        ln = z3.If(s.length < ln, s.length, ln)
    return VSeq(Tup(*[s.elem for s in seqs]), [x for s in seqs for x in s.arrs], ln, False)


@builtin("reversed")
def _reversed(ex, args, kw):
    a = args[0]
    if isinstance(a, (VTuple, VList)):
        return VList(list(reversed(a.items)), False)
    if isinstance(a, VSeq):
        k = z3.Int("k!rv")
        if getattr(ex, "deep_feasibility", False):
            # a named array with its defining axiom (triggered by reads of the new array) instead of a lambda: quantified
            # facts about the reversed sequence then have usable instantiation patterns
            r = ex.fresh("reversed", Seq(a.elem))
            ex.pc.append(r.length == a.length)
            for rx, ax in zip(r.arrs, a.arrs):
                ex.pc.append(z3.ForAll([k], z3.Implies(z3.And(0 <= k, k < a.length), z3.Select(rx, k) == z3.Select(ax, a.length - 1 - k)), patterns=[z3.Select(rx, k)]))
            r.mutable = False
            return r
        return VSeq(a.elem, [z3.Lambda([k], z3.Select(x, a.length - 1 - k)) for x in a.arrs], a.length, False)
    raise OutOfSubset("reversed")


@builtin("id")
def _id(ex, args, kw):
    v = args[0]
    if isinstance(v, VRef):
        f = ex.world.fn(f"id_{v.sort}", ref_sort(v.sort), z3.IntSort())
        return VInt(f(v.term))
    raise OutOfSubset(f"id({v!r})")


@builtin("float")
def _float(ex, args, kw):
    if not args:
        return VReal(0)
    v = args[0]
    r = ex.as_real_term(v)
    if r is not None:
        return VReal(r)
    return VReal(ex.fresh_const("float_of", z3.RealSort()))


@builtin("iter")
def _iter(ex, args, kw):
    raise OutOfSubset("iter()")


@builtin("print")
def _print(ex, args, kw):
    return NONE


@builtin("callable")
def _callable(ex, args, kw):
    v = args[0]
    if isinstance(v, VFunc):
        return VBool(True)
    h = ex.world.callable_hook(ex, v) if hasattr(ex.world, "callable_hook") else None
    if h is not None:
        return h
    return VBool(False)


@builtin("isinstance")
def _isinstance(ex, args, kw):
    v, cls = args
    return VBool(isinstance_term(ex, v, cls))


def _class_names(cls) -> list:
    if isinstance(cls, VTuple):
        out = []
        for c in cls.items:
            out += _class_names(c)
        return out
    if isinstance(cls, VFunc) and cls.kind == "builtin":
        return [cls.name]
    if isinstance(cls, VPy):
        if cls.path is not None:
            return [cls.path]
        if isinstance(cls.obj, tuple) and cls.obj[0] == "union":
            return _class_names(cls.obj[1]) + _class_names(cls.obj[2])
    if isinstance(cls, VNone):
        return ["NoneType"]
    raise OutOfSubset(f"isinstance against {cls!r}")


SEQ_ABC = {"collections.abc.Sequence", "typing.Sequence"}
MAP_ABC = {"collections.abc.Mapping", "typing.Mapping", "collections.abc.MutableMapping", "typing.MutableMapping"}


def isinstance_term(ex, v, cls):
    names = _class_names(cls)
    res = []
    for nm in names:
        h = ex.world.isinstance_hook(ex, v, nm) if hasattr(ex.world, "isinstance_hook") else None
        if h is not None:
            res.append(h)
            continue
        if isinstance(v, VBool):
            res.append(z3.BoolVal(nm in ("bool", "int")))
        elif isinstance(v, VInt):
            res.append(z3.BoolVal(nm == "int"))
        elif isinstance(v, VStr):
            res.append(z3.BoolVal(nm == "str" or nm in SEQ_ABC))
        elif isinstance(v, VNone):
            res.append(z3.BoolVal(nm == "NoneType"))
        elif isinstance(v, VTuple):
            res.append(z3.BoolVal(nm == "tuple" or nm in SEQ_ABC))
        elif isinstance(v, (VList, VSeq)):
            is_list = v.mutable
            res.append(z3.BoolVal((nm == "list" and is_list) or (nm == "tuple" and not is_list) or nm in SEQ_ABC))
        elif isinstance(v, (VDict, VMap)):
            res.append(z3.BoolVal(nm == "dict" or nm in MAP_ABC))
        elif isinstance(v, VEnum):
            info = ex.world.enums[v.enum]
            res.append(z3.BoolVal(nm == info.get("path") or (nm == "int" and info.get("int", True))))
        elif isinstance(v, VRef):
            res.append(z3.BoolVal(nm in ex.world.ref_classes.get(v.sort, ())))
        elif isinstance(v, VFunc):
            res.append(z3.BoolVal(False))
        elif isinstance(v, VSet):
            res.append(z3.BoolVal(nm in ("set", "frozenset")))
        elif isinstance(v, VPy) and v.path is None and isinstance(v.obj, tuple) and v.obj and v.obj[0] in ("set", "frozenset"):
            res.append(z3.BoolVal(nm == v.obj[0]))
        elif isinstance(v, VPy) and v.path is None and isinstance(v.obj, tuple) and v.obj and v.obj[0] == "exc":
            res.append(z3.BoolVal(exc_is(v.obj[1], nm.split(".")[-1])))
        elif isinstance(v, VPy) and v.path is None and isinstance(v.obj, (float, bytes)):
            res.append(z3.BoolVal(nm == type(v.obj).__name__))
        else:
            raise OutOfSubset(f"isinstance({v!r}, {nm})")
    return z3.Or(res) if len(res) != 1 else res[0]


@builtin("type")
def _type(ex, args, kw):
    if getattr(ex.world, "opaque", False) and len(args) == 1:
        from specs.opaque import fresh_opaque
        return fresh_opaque(ex)
    raise OutOfSubset("call of type()")


for _t in ("bytes", "complex", "object"):
    BUILTINS[_t] = VFunc("builtin", _t, impl=lambda ex, a, k, _n=_t: (_ for _ in ()).throw(OutOfSubset(f"call of {_n}()")))


@builtin("hasattr")
def _hasattr(ex, args, kw):
    v, name = args
    nm = z3.simplify(name.term).as_string()
    h = ex.world.hasattr_hook(ex, v, nm) if hasattr(ex.world, "hasattr_hook") else None
    if h is not None:
        return VBool(h)
    if isinstance(v, VRef):
        return VBool((v.sort, nm) in ex.world.fields or (v.sort, nm) in ex.world.methods)
    if isinstance(v, (VInt, VBool, VStr, VNone, VTuple)):
        return VBool(False)
    raise OutOfSubset(f"hasattr({v!r}, {nm})")


@builtin("setattr")
def _setattr(ex, args, kw):
    for h in getattr(ex.world, "setattr_hooks", ()):
        if h(ex, args):
            return NONE
    obj, name, v = args
    ns = z3.simplify(name.term)
    if not z3.is_string_value(ns):
        raise OutOfSubset("setattr with symbolic name")
    ex.setattr(obj, ns.as_string(), v)
    return NONE


@builtin("delattr")
def _delattr(ex, args, kw):
    for h in getattr(ex.world, "delattr_hooks", ()):
        if h(ex, args):
            return NONE
    obj = args[0]
    if isinstance(obj, VRef) and obj.sort in ("Opaque", "Emitter"):
        if ex.branch(z3.Bool(ex.fresh_name("delattr_missing"))):
            raise PyRaise("AttributeError")
        return NONE
    raise OutOfSubset(f"delattr on {obj!r}")


@builtin("getattr")
def _getattr(ex, args, kw):
    h = ex.world.getattr_builtin(ex, args) if hasattr(ex.world, "getattr_builtin") else None
    if h is not None:
        return h
    v, name = args[0], args[1]
    ns = z3.simplify(name.term)
    if not z3.is_string_value(ns):
        raise OutOfSubset("getattr with symbolic name")
    nm = ns.as_string()
    if isinstance(v, VRef) and v.sort in ("Opaque", "Emitter") and len(args) > 2:
        if ex.branch(z3.Bool(ex.fresh_name(f"opq_lacks_{nm}"))):
            return args[2]
    try:
        return ex.getattr(v, nm)
    except (PyRaise, OutOfSubset) as e:
        if len(args) > 2 and (isinstance(e, PyRaise) or "unmodelled attribute" in str(e)):
            if isinstance(e, OutOfSubset) and not ex.world.attr_known_absent(v, nm):
                raise
            return args[2]
        raise


# ------------------------------------------------------------------ methods


def call_method(ex, recv: V, name: str, args, kw):
    r = _call_method(ex, recv, name, args, kw)
    owner = getattr(recv, "owner", None)
    if owner is not None and name in ("append", "extend", "pop", "add", "discard", "remove", "update", "setdefault", "insert", "clear"):
        ex.write_field(owner[0], owner[1], recv)
    return r


def _call_method(ex, recv: V, name: str, args, kw):
    if isinstance(recv, VList):
        if name == "append":
            recv.items.append(args[0])
            return NONE
        if name == "extend":
            recv.items.extend(ex.as_concrete_items(_comp_items(ex, args[0])))
            return NONE
        if name == "pop":
            if not recv.items:
                raise PyRaise("IndexError")
            k = -1 if not args else z3.simplify(ex.as_int_term(args[0])).as_long()
            return recv.items.pop(k)
        if name == "insert":
            recv.items.insert(z3.simplify(ex.as_int_term(args[0])).as_long(), args[1])
            return NONE
        if name == "copy":
            return VList(list(recv.items), True)
        if name == "index":
            for i, it in enumerate(recv.items):
                if ex.branch(ex.eq(it, args[0])):
                    return VInt(i)
            raise PyRaise("ValueError")
    if isinstance(recv, VSeq):
        if name == "append":
            terms = pack(args[0], recv.elem)
            recv.arrs = [z3.Store(a, recv.length, t) for a, t in zip(recv.arrs, terms)]
            recv.length = recv.length + 1
            return NONE
        if name == "pop" and (not args or (isinstance(args[0], VInt) and z3.is_int_value(z3.simplify(args[0].term)))):
            if ex.branch(recv.length <= 0):
                raise PyRaise("IndexError")
            k = -1 if not args else z3.simplify(args[0].term).as_long()
            if k == -1:
                v = ex.seq_get(recv, recv.length - 1)
                recv.length = recv.length - 1
                return v
            if k == 0:
                v = ex.seq_get(recv, z3.IntVal(0))
                i = z3.Int("i!pop")
                recv.arrs = [z3.Lambda([i], z3.Select(a, i + 1)) for a in recv.arrs]
                recv.length = recv.length - 1
                return v
        if name == "insert":
            # position-dependent shift: content abstracted (sound over-approximation), length + 1
            nv = ex.fresh("after_insert", Seq(recv.elem))
            recv.arrs, recv.length = nv.arrs, recv.length + 1
            return NONE
        if name == "pop":
            if ex.branch(recv.length <= 0):
                raise PyRaise("IndexError")
            nv = ex.fresh("after_pop", Seq(recv.elem))
            item = ex.force(unpack(recv.elem, fresh_terms(recv.elem, ex.fresh_name("popped"))))
            recv.arrs, recv.length = nv.arrs, recv.length - 1
            return item
        if name == "extend":
            other = args[0]
            cat = ex.seq_concat(recv, other)
            recv.arrs, recv.length = cat.arrs, cat.length
            return NONE
        if name == "copy":
            return VSeq(recv.elem, list(recv.arrs), recv.length, True)
    if isinstance(recv, VSet):
        if name == "add":
            recv.arr = z3.Store(recv.arr, pack(args[0], recv.elem)[0], z3.BoolVal(True))
            return NONE
        if name in ("discard", "remove"):
            recv.arr = z3.Store(recv.arr, pack(args[0], recv.elem)[0], z3.BoolVal(False))
            return NONE
        if name == "update":
            o = args[0]
            x = z3.Const("x!up", flat_sorts(recv.elem)[0])
            if isinstance(o, VSet):
                recv.arr = z3.Lambda([x], z3.Or(z3.Select(recv.arr, x), z3.Select(o.arr, x)))
                return NONE
            if isinstance(o, VSeq):
                i = z3.Int("i!up")
                recv.arr = z3.Lambda([x], z3.Or(z3.Select(recv.arr, x), z3.Exists([i], z3.And(i >= 0, i < o.length, z3.Select(o.arrs[0], i) == x))))
                return NONE
            if isinstance(o, (VList, VTuple)):
                for it in o.items:
                    recv.arr = z3.Store(recv.arr, pack(it, recv.elem)[0], z3.BoolVal(True))
                return NONE
    if isinstance(recv, VDict):
        if name == "get":
            for k, v in recv.entries:
                if ex.branch(ex.eq(args[0], k)):
                    return v
            return args[1] if len(args) > 1 else NONE
        if name == "items":
            return VList([VTuple([k, v]) for k, v in recv.entries], False)
        if name == "values":
            return VList([v for _, v in recv.entries], False)
        if name == "keys":
            return VList([k for k, _ in recv.entries], False)
        if name == "pop":
            for i, (k, v) in enumerate(recv.entries):
                if ex.branch(ex.eq(args[0], k)):
                    del recv.entries[i]
                    return v
            if len(args) > 1:
                return args[1]
            raise PyRaise("KeyError")
        if name == "setdefault":
            for k, v in recv.entries:
                if ex.branch(ex.eq(args[0], k)):
                    return v
            recv.entries.append((args[0], args[1]))
            return args[1]
    if isinstance(recv, VMap):
        if name == "get":
            k = ex.map_key(recv, args[0])
            if ex.branch(z3.Select(recv.present, k)):
                return ex.force(unpack(recv.v, [z3.Select(a, k) for a in recv.arrs]))
            return args[1] if len(args) > 1 else NONE
        if name == "pop":
            k = ex.map_key(recv, args[0])
            if ex.branch(z3.Select(recv.present, k)):
                v = ex.force(unpack(recv.v, [z3.Select(a, k) for a in recv.arrs]))
                recv.present = z3.Store(recv.present, k, z3.BoolVal(False))
                return v
            if len(args) > 1:
                return args[1]
            raise PyRaise("KeyError")
        if name == "setdefault":
            k = ex.map_key(recv, args[0])
            if ex.branch(z3.Select(recv.present, k)):
                return ex.force(unpack(recv.v, [z3.Select(a, k) for a in recv.arrs]))
            ex.setitem(recv, args[0], args[1])
            return args[1]
        if name == "update" and len(args) == 1 and isinstance(args[0], VMap):
            o = args[0]
            kx = z3.Const("k!upd", key_sort(recv.k))
            recv.arrs = [z3.Lambda([kx], z3.If(z3.Select(o.present, kx), z3.Select(b, kx), z3.Select(a, kx))) for a, b in zip(recv.arrs, o.arrs)]
            recv.present = z3.Lambda([kx], z3.Or(z3.Select(recv.present, kx), z3.Select(o.present, kx)))
            return NONE
        if name == "update" and len(args) == 1 and isinstance(args[0], VDict):
            for kk, vv in args[0].entries:
                ex.setitem(recv, kk, vv)
            return NONE
    if isinstance(recv, VStr):
        s = recv.term
        if name == "startswith" and isinstance(args[0], VStr):
            return VBool(z3.PrefixOf(args[0].term, s))
        if name == "endswith" and isinstance(args[0], VStr):
            return VBool(z3.SuffixOf(args[0].term, s))
        if name in ("startswith", "endswith") and isinstance(args[0], (VTuple, VList)) and all(isinstance(x, VStr) for x in args[0].items):
            f = z3.PrefixOf if name == "startswith" else z3.SuffixOf
            return VBool(z3.Or([f(x.term, s) for x in args[0].items] + [z3.BoolVal(False)]))
        if name == "isdigit":
            # ASCII model: every character is 0-9 and the string is non-empty
            digit = z3.Range("0", "9")
            return VBool(z3.InRe(s, z3.Plus(digit)))
        if name in ("strip", "lower", "upper", "lstrip", "rstrip"):
            ss = z3.simplify(s)
            if z3.is_string_value(ss):
                return VStr(getattr(ss.as_string(), name)())
            r = ex.fresh_const(f"str_{name}", z3.StringSort())
            if name in ("strip", "lstrip", "rstrip"):
                # a substring of s; equal to s when s has no leading/trailing whitespace
                ws = [z3.StringVal(c) for c in (" ", "\t", "\n", "\r")]
                clean = z3.And([z3.Not(z3.PrefixOf(c, s)) for c in ws] + [z3.Not(z3.SuffixOf(c, s)) for c in ws])
                ex.assume(z3.And(z3.Contains(s, r), z3.Implies(clean, r == s), z3.Implies(z3.Length(s) == 0, z3.Length(r) == 0)))
            else:
                ex.assume(z3.Length(r) == z3.Length(s))
            return VStr(r)
        if name == "format":
            return VStr(ex.fresh_const("fmt", z3.StringSort()))
        if name == "join":
            return VStr(ex.fresh_const("join", z3.StringSort()))
    if isinstance(recv, VPy) and recv.path is None and isinstance(recv.obj, tuple) and recv.obj and recv.obj[0] == "set":
        if name == "add":
            recv.obj[1].append(args[0])
            return NONE
    h = ex.world.method_hook(ex, recv, name, args, kw) if hasattr(ex.world, "method_hook") else None
    if h is not None:
        return h[0]
    raise OutOfSubset(f"method {name} on {recv!r}")
