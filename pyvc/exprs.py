"""Expression evaluation (Python value semantics over symbolic values)."""
from __future__ import annotations

import ast
import z3

from .vals import *  # noqa
from .core import *  # noqa


def zint(x):
    return x if isinstance(x, z3.ExprRef) else z3.IntVal(int(x))


def py_floordiv(a, b):
    """Python floor division on z3 ints (z3 div is Euclidean: remainder >= 0)."""
    q = a / b  # z3 integer division
    # Euclidean: a = b*q + r, 0 <= r < |b|. floor differs when b < 0 and r != 0.
    r = a - b * q
    return z3.If(b > 0, q, z3.If(r == 0, q, q - 1))


def py_mod(a, b):
    return a - b * py_floordiv(a, b)


class ExprMixin:
    pure_mode = 0

    # ------------------------------------------------------------ forcing
    def force(self, v: V) -> V:
        if isinstance(v, VDyn) and getattr(self, "pure_mode", 0):
            return v  # element expressions of symbolic comprehensions stay unforked; consumers that need the kind reject VDyn
        if getattr(self, "pure_mode", 0) and (isinstance(v, VOpt) or (isinstance(v, VRef) and v.nullable)):
            return v  # no forking while an element expression is evaluated for an arbitrary index (a fork would turn a per-element condition into a path condition)
        if isinstance(v, VOpt):
            if self.branch(v.isnone):
                return NONE
            return self.force(v.val)
        if isinstance(v, VRef) and v.nullable:
            if self.branch(v.term == null_of(v.sort)):
                return NONE
            return VRef(v.sort, v.term, nullable=False)
        if isinstance(v, VDyn):
            kinds = v.ty.kinds
            for i, k in enumerate(kinds):
                last = i == len(kinds) - 1
                if last:
                    self.assume(v.tag == i)
                    hit = True
                else:
                    hit = self.branch(v.tag == i)
                if hit:
                    p = v.payloads[i]
                    if k == "int":
                        return VInt(p[0])
                    if k == "bool":
                        return VBool(p[0])
                    if k == "str":
                        return VStr(p[0])
                    if k == "none":
                        return NONE
                    sort = k[4:]
                    self.assume(p[0] != null_of(sort))
                    return VRef(sort, p[0])
        if isinstance(v, VTuple):
            return VTuple([self.force(x) for x in v.items])
        return v

    # ------------------------------------------------------------ truthiness
    def truthy(self, v: V):
        for h in getattr(self.world, "truthy_hooks", ()):
            r = h(self, v)
            if r is not None:
                return r
        if isinstance(v, VBool):
            return v.term
        if isinstance(v, VInt):
            return v.term != 0
        if isinstance(v, VNone):
            return z3.BoolVal(False)
        if isinstance(v, VReal):
            return v.term != 0
        if isinstance(v, VStr):
            return z3.Length(v.term) > 0
        if isinstance(v, (VTuple, VList)):
            return z3.BoolVal(len(v.items) > 0)
        if isinstance(v, VSeq):
            return v.length > 0
        if isinstance(v, VDict):
            return z3.BoolVal(len(v.entries) > 0)
        if isinstance(v, VEnum):
            return v.term != 0 if self.world.enum_is_int(v.enum) else z3.BoolVal(True)
        if isinstance(v, VRef):
            tr = self.world.ref_truthy(self, v)
            return tr if tr is not None else z3.BoolVal(True)
        if isinstance(v, (VFunc,)):
            return z3.BoolVal(True)
        if isinstance(v, VPy):
            if v.path is None:
                return z3.BoolVal(bool(v.obj))
            return z3.BoolVal(True)
        if isinstance(v, VSet):
            e = self.fresh_const("set_nonempty", z3.BoolSort())
            x = z3.Const("x!ne", flat_sorts(v.elem)[0])
            self.assume(e == z3.Exists([x], z3.Select(v.arr, x)))
            return e
        if isinstance(v, VMap):
            e = self.fresh_const("map_nonempty", z3.BoolSort())
            x = z3.Const("x!mne", key_sort(v.k))
            self.assume(e == z3.Exists([x], z3.Select(v.present, x)))
            return e
        raise OutOfSubset(f"truthiness of {v!r}")

    def test(self, node, env) -> bool:
        """Evaluate a condition and fork on it."""
        return self.branch(self.truthy(self.ev(node, env)))

    # ------------------------------------------------------------ dispatcher
    def ev(self, node, env) -> V:
        m = getattr(self, "ev_" + node.__class__.__name__, None)
        if m is None:
            raise OutOfSubset(f"expression {node.__class__.__name__} at line {getattr(node, 'lineno', '?')}")
        return self.force(m(node, env))

    def ev_Constant(self, n, env):
        c = n.value
        if c is None:
            return NONE
        if isinstance(c, bool):
            return VBool(c)
        if isinstance(c, int):
            return VInt(c)
        if isinstance(c, str):
            return VStr(c)
        if c is Ellipsis:
            return VPy(obj=Ellipsis)
        if isinstance(c, float):
            return VReal(z3.RealVal(repr(c))) if c == c and c not in (float("inf"), float("-inf")) else VPy(obj=c)
        if isinstance(c, complex):
            return VPy(obj=c)
        if isinstance(c, bytes):
            return VPy(obj=c)
        raise OutOfSubset(f"constant {c!r}")

    def ev_Name(self, n, env):
        v = env.lookup(n.id)
        if isinstance(v, VPoison):
            raise OutOfSubset(f"loop-carried variable `{n.id}` is read before being assigned and has no declared type (line {n.lineno})")
        if v is not None:
            return v
        return self.world.resolve_global(self, env.module, n.id)

    def ev_Tuple(self, n, env):
        items = []
        for e in n.elts:
            if isinstance(e, ast.Starred):
                items.extend(self.as_concrete_items(self.ev(e.value, env)))
            else:
                items.append(self.ev(e, env))
        return VTuple(items)

    def ev_List(self, n, env):
        items = self.ev_Tuple(n, env).items
        return self.make_seq(items, mutable=True)

    def ev_Set(self, n, env):
        items = [self.ev(e, env) for e in n.elts]
        return VPy(obj=("set", items))

    def ev_Dict(self, n, env):
        entries = []
        for k, v in zip(n.keys, n.values):
            if k is None:
                d = self.ev(v, env)
                if not isinstance(d, VDict):
                    raise OutOfSubset("** of non-literal dict")
                entries.extend(d.entries)
            else:
                entries.append((self.ev(k, env), self.ev(v, env)))
        return VDict(entries)

    def make_seq(self, items, mutable=True, elem: Ty | None = None) -> V:
        """Concrete-length python list: kept as VSeq when element type is
        inferable, else as a python-side list wrapper."""
        return VList(list(items), mutable)

    def as_concrete_items(self, v: V):
        if isinstance(v, VTuple):
            return list(v.items)
        if isinstance(v, VList):
            return list(v.items)
        if isinstance(v, VPy) and isinstance(v.obj, tuple) and v.obj and v.obj[0] in ("set", "frozenset"):
            return list(v.obj[1])
        if isinstance(v, VDict):
            return [k for k, _ in v.entries]
        if isinstance(v, VSeq):
            n = self.concrete_len(v)
            if n is not None:
                return [self.seq_get(v, z3.IntVal(i)) for i in range(n)]
        raise OutOfSubset(f"need a concrete-length iterable, got {v!r}")

    def concrete_len(self, v: VSeq, limit=12):
        ln = z3.simplify(v.length)
        if z3.is_int_value(ln):
            return ln.as_long()
        # ask the solver whether the path condition fixes the length
        self.feas.push()
        try:
            if self.feas.check() != z3.sat:
                return None
            val = self.feas.model().eval(ln, model_completion=True)
            if not z3.is_int_value(val) or not (0 <= val.as_long() <= limit):
                return None
            self.feas.add(ln != val)
            if self.feas.check() == z3.unsat:
                return val.as_long()
            return None
        finally:
            self.feas.pop()

    # ------------------------------------------------------------ sequences
    def seq_get(self, s: VSeq, idx) -> V:
        v = self.force(unpack(s.elem, [z3.Select(a, idx) for a in s.arrs]))
        self.assume_allocated(v)
        return v

    def seq_get_raw(self, s: VSeq, idx) -> V:
        return unpack(s.elem, [z3.Select(a, idx) for a in s.arrs])

    def list_to_seq(self, l: "VList", elem: Ty) -> VSeq:
        sorts = flat_sorts(elem)
        arrs = [z3.K(z3.IntSort(), default_term(s)) if s in (z3.IntSort(), z3.BoolSort(), z3.StringSort()) else self.fresh_const("arr0", z3.ArraySort(z3.IntSort(), s)) for s in sorts]
        for i, it in enumerate(l.items):
            try:
                terms = pack(it, elem)
            except AssertionError:
                raise OutOfSubset(f"list item {it!r} does not have the declared element type {elem}")
            for j, t in enumerate(terms):
                arrs[j] = z3.Store(arrs[j], i, t)
        return VSeq(elem, arrs, z3.IntVal(len(l.items)), l.mutable)

    # ------------------------------------------------------------ operators
    def ev_UnaryOp(self, n, env):
        v = self.ev(n.operand, env)
        if hasattr(self.world, "unary_hook"):
            h = self.world.unary_hook(self, n.op, v)
            if h is not None:
                return h
        if isinstance(n.op, ast.Not):
            return VBool(z3.Not(self.truthy(v)))
        if isinstance(n.op, ast.USub):
            if isinstance(v, VInt):
                return VInt(-v.term)
            if isinstance(v, VBool):
                return VInt(-z3.If(v.term, 1, 0))
            if isinstance(v, VReal):
                return VReal(-v.term)
            if isinstance(v, VPy) and isinstance(v.obj, float):
                return VPy(obj=-v.obj)
        if isinstance(n.op, ast.UAdd) and isinstance(v, VInt):
            return v
        raise OutOfSubset(f"unary {n.op.__class__.__name__} on {v!r}")

    def as_int_term(self, v: V):
        if isinstance(v, VInt):
            return v.term
        if isinstance(v, VBool):
            return z3.If(v.term, z3.IntVal(1), z3.IntVal(0))
        if isinstance(v, VEnum) and self.world.enum_is_int(v.enum):
            return v.term
        return None

    def ev_BinOp(self, n, env):
        a = self.ev(n.left, env)
        b = self.ev(n.right, env)
        return self.binop(n.op, a, b)

    def as_real_term(self, v: V):
        if isinstance(v, VReal):
            return v.term
        t = self.as_int_term(v)
        return None if t is None else z3.ToReal(t)

    def binop(self, op, a: V, b: V) -> V:
        if isinstance(a, VRef) or isinstance(b, VRef):
            h = self.world.binop_hook(self, op, a, b)
            if h is not None:
                return h
        if isinstance(a, VReal) or isinstance(b, VReal):
            ra, rb = self.as_real_term(a), self.as_real_term(b)
            if ra is not None and rb is not None:
                if isinstance(op, ast.Add):
                    return VReal(ra + rb)
                if isinstance(op, ast.Sub):
                    return VReal(ra - rb)
                if isinstance(op, ast.Mult):
                    return VReal(ra * rb)
                if isinstance(op, ast.Div):
                    if self.branch(rb == 0):
                        raise PyRaise("ZeroDivisionError")
                    return VReal(ra / rb)
        ia, ib = self.as_int_term(a), self.as_int_term(b)
        if ia is not None and ib is not None:
            if isinstance(op, ast.Add):
                return VInt(ia + ib)
            if isinstance(op, ast.Sub):
                return VInt(ia - ib)
            if isinstance(op, ast.Mult):
                return VInt(ia * ib)
            if isinstance(op, (ast.FloorDiv, ast.Mod)):
                if self.branch(ib == 0):
                    raise PyRaise("ZeroDivisionError")
                return VInt(py_floordiv(ia, ib) if isinstance(op, ast.FloorDiv) else py_mod(ia, ib))
            if isinstance(op, ast.LShift):
                if self.branch(ib < 0):
                    raise PyRaise("ValueError", "negative shift count")
                return VInt(ia * self.world.pow2(ib))
            if isinstance(op, ast.Pow):
                ibs = z3.simplify(ib)
                if z3.is_int_value(ibs) and 0 <= ibs.as_long() <= 4:
                    r = z3.IntVal(1)
                    for _ in range(ibs.as_long()):
                        r = r * ia
                    return VInt(r)
                ias = z3.simplify(ia)
                if z3.is_int_value(ias) and ias.as_long() == 2:
                    if self.branch(ib < 0):
                        raise OutOfSubset("2 ** negative")
                    return VInt(self.world.pow2(ib))
            raise OutOfSubset(f"int operator {op.__class__.__name__}")
        if isinstance(op, ast.Add):
            if isinstance(a, VStr) and isinstance(b, VStr):
                return VStr(z3.Concat(a.term, b.term))
            if isinstance(a, VTuple) and isinstance(b, VTuple):
                return VTuple(a.items + b.items)
            if isinstance(a, VList) and isinstance(b, VList):
                return VList(a.items + b.items, True)
            if isinstance(a, (VSeq, VList, VTuple)) and isinstance(b, (VSeq, VList, VTuple)):
                return self.seq_concat(a, b)
        if isinstance(op, ast.Mult):
            # (1,) * k
            if isinstance(a, (VTuple, VList)) and ib is not None:
                k = z3.simplify(ib)
                if z3.is_int_value(k):
                    items = list(a.items) * max(0, k.as_long())
                    return VTuple(items) if isinstance(a, VTuple) else VList(items, True)
                if len(a.items) == 1:
                    return self.seq_repeat(a.items[0], ib, isinstance(a, VList))
        if isinstance(op, ast.Mod) and isinstance(a, VStr):
            return VStr(self.fresh_const("fmt", z3.StringSort()))
        if isinstance(op, (ast.BitOr, ast.BitAnd)) and isinstance(a, VBool) and isinstance(b, VBool):
            return VBool(z3.Or(a.term, b.term) if isinstance(op, ast.BitOr) else z3.And(a.term, b.term))
        if isinstance(op, ast.BitOr) and isinstance(a, (VPy, VFunc, VNone)) and isinstance(b, (VPy, VFunc, VNone)):
            return VPy(obj=("union", a, b))  # type union in annotations/isinstance
        h = self.world.binop_hook(self, op, a, b)
        if h is not None:
            return h
        raise OutOfSubset(f"binary {op.__class__.__name__} on {a!r}, {b!r}")

    def infer_elem(self, v: V) -> Ty:
        if isinstance(v, VInt):
            return Int
        if isinstance(v, VBool):
            return Bool
        if isinstance(v, VStr):
            return Str
        if isinstance(v, VRef):
            return Ref(v.sort)
        if isinstance(v, VEnum):
            return Enum(v.enum)
        if isinstance(v, VDyn):
            return v.ty
        if isinstance(v, VTuple):
            return Tup(*[self.infer_elem(x) for x in v.items])
        raise OutOfSubset(f"cannot infer element type of {v!r}")

    def to_seq(self, v: V, elem: Ty | None = None) -> VSeq:
        if isinstance(v, VSeq):
            return v
        items = v.items
        if elem is None:
            if not items:
                raise OutOfSubset("element type of empty literal")
            elem = self.infer_elem(items[0])
        return self.list_to_seq(VList(list(items), isinstance(v, VList)), elem)

    def seq_concat(self, a, b) -> VSeq:
        elem = a.elem if isinstance(a, VSeq) else (b.elem if isinstance(b, VSeq) else None)
        sa, sb = self.to_seq(a, elem), self.to_seq(b, elem)
        i = z3.Int("i!cat")
        arrs = [z3.Lambda([i], z3.If(i < sa.length, z3.Select(x, i), z3.Select(y, i - sa.length))) for x, y in zip(sa.arrs, sb.arrs)]
        return VSeq(sa.elem, arrs, sa.length + sb.length, sa.mutable)

    def seq_repeat(self, item: V, count, mutable) -> VSeq:
        elem = self.infer_elem(item)
        terms = pack(item, elem)
        arrs = [z3.K(z3.IntSort(), t) for t in terms]
        return VSeq(elem, arrs, z3.If(count > 0, count, 0), mutable)

    def ev_BoolOp(self, n, env):
        is_or = isinstance(n.op, ast.Or)
        if self.pure_mode:
            vals = [self.ev(x, env) for x in n.values]
            ts = [self.truthy(v) for v in vals]
            return VBool(z3.Or(*ts) if is_or else z3.And(*ts))
        v = None
        for i, x in enumerate(n.values):
            v = self.ev(x, env)
            if i == len(n.values) - 1:
                return v
            t = self.branch(self.truthy(v))
            if t == is_or:
                return v
        return v

    def ev_IfExp(self, n, env):
        if self.pure_mode:
            c = z3.simplify(self.truthy(self.ev(n.test, env)))
            if z3.is_true(c):
                return self.ev(n.body, env)
            if z3.is_false(c):
                return self.ev(n.orelse, env)
            if getattr(self, "deep_feasibility", False):
                # a condition decided by the path condition (quantified well-formedness facts included) needs no ite
                if not self.feasible_full(z3.Not(c)):
                    return self.ev(n.body, env)
                if not self.feasible_full(c):
                    return self.ev(n.orelse, env)
            a, b = self.ev(n.body, env), self.ev(n.orelse, env)
            return self.ite(c, a, b)
        if self.test(n.test, env):
            return self.ev(n.body, env)
        return self.ev(n.orelse, env)

    def ite(self, c, a: V, b: V) -> V:
        if isinstance(a, VInt) and isinstance(b, VInt):
            return VInt(z3.If(c, a.term, b.term))
        if isinstance(a, VBool) and isinstance(b, VBool):
            return VBool(z3.If(c, a.term, b.term))
        if isinstance(a, VStr) and isinstance(b, VStr):
            return VStr(z3.If(c, a.term, b.term))
        if isinstance(a, VRef) and isinstance(b, VRef) and a.sort == b.sort:
            return VRef(a.sort, z3.If(c, a.term, b.term))
        if isinstance(a, VEnum) and isinstance(b, VEnum) and a.enum == b.enum:
            return VEnum(a.enum, z3.If(c, a.term, b.term))
        if isinstance(a, VTuple) and isinstance(b, VTuple) and len(a.items) == len(b.items):
            return VTuple([self.ite(c, x, y) for x, y in zip(a.items, b.items)])
        if isinstance(a, VNone) and isinstance(b, VNone):
            return a
        if isinstance(a, VRef) and isinstance(b, VNone):
            return VRef(a.sort, z3.If(c, a.term, null_of(a.sort)), nullable=True)
        if isinstance(a, VNone) and isinstance(b, VRef):
            return VRef(b.sort, z3.If(c, null_of(b.sort), b.term), nullable=True)
        raise OutOfSubset(f"ite merge of {a!r} and {b!r}")

    def ev_NamedExpr(self, n, env):
        v = self.ev(n.value, env)
        env.set(n.target.id, v)
        return v

    # ------------------------------------------------------------ comparison
    def ev_Compare(self, n, env):
        left = self.ev(n.left, env)
        result = None
        for op, rn in zip(n.ops, n.comparators):
            right = self.ev(rn, env)
            if len(n.ops) == 1 and hasattr(self.world, "compare_hook"):
                h = self.world.compare_hook(self, op, left, right)
                if h is not None:
                    return h
            r = self.compare(op, left, right)
            result = r if result is None else z3.And(result, r)
            left = right
            if len(n.ops) > 1 and not self.pure_mode:
                if not self.branch(result):
                    return VBool(False)
                result = z3.BoolVal(True)
        return VBool(result)

    def eq(self, a: V, b: V):
        """z3 Bool for python a == b."""
        if hasattr(self.world, "eq_hook"):
            h = self.world.eq_hook(self, a, b)
            if h is not None:
                return h
        ia, ib = self.as_int_term(a), self.as_int_term(b)
        if ia is not None and ib is not None:
            if isinstance(a, VEnum) and isinstance(b, VEnum) and a.enum != b.enum:
                return z3.BoolVal(False)
            return ia == ib
        if isinstance(a, VEnum) and isinstance(b, VEnum):
            return z3.And(a.term == b.term) if a.enum == b.enum else z3.BoolVal(False)
        if isinstance(a, VStr) and isinstance(b, VStr):
            return a.term == b.term
        if isinstance(a, VReal) or isinstance(b, VReal):
            ra, rb = self.as_real_term(a), self.as_real_term(b)
            if ra is not None and rb is not None:
                return ra == rb
        if isinstance(a, VNone) or isinstance(b, VNone):
            return z3.BoolVal(isinstance(a, VNone) and isinstance(b, VNone))
        if (isinstance(a, VRef) and a.sort == "Opaque") or (isinstance(b, VRef) and b.sort == "Opaque"):
            return z3.Bool(self.fresh_name("opq_eq"))
        if isinstance(a, VRef) and isinstance(b, VRef):
            if a.sort != b.sort:
                return z3.BoolVal(False)
            h = self.world.ref_eq(self, a, b)
            return h if h is not None else a.term == b.term
        if isinstance(a, (VTuple, VList)) and isinstance(b, (VTuple, VList)):
            if isinstance(a, VTuple) != isinstance(b, VTuple):
                return z3.BoolVal(False)
            if len(a.items) != len(b.items):
                return z3.BoolVal(False)
            return z3.And([self.eq(x, y) for x, y in zip(a.items, b.items)] + [z3.BoolVal(True)])
        if isinstance(a, (VSeq, VList, VTuple)) and isinstance(b, (VSeq, VList, VTuple)):
            elem = a.elem if isinstance(a, VSeq) else b.elem
            sa, sb = self.to_seq(a, elem), self.to_seq(b, elem)
            e = self.fresh_const("seq_eq", z3.BoolSort())
            i = z3.Int("i!eq")
            same = z3.And([z3.Select(x, i) == z3.Select(y, i) for x, y in zip(sa.arrs, sb.arrs)])
            self.assume(e == z3.And(sa.length == sb.length, z3.ForAll([i], z3.Implies(z3.And(i >= 0, i < sa.length), same))))
            return e
        if isinstance(a, VPy) and isinstance(b, VPy):
            if a.path is not None or b.path is not None:
                return z3.BoolVal(a.path == b.path)
            try:
                return z3.BoolVal(a.obj == b.obj)
            except Exception:
                pass
        if isinstance(a, VFunc) or isinstance(b, VFunc):
            return z3.BoolVal(a is b)
        kinds = (VInt, VBool, VStr, VNone, VTuple, VList, VEnum, VRef)
        if isinstance(a, kinds) and isinstance(b, kinds):
            return z3.BoolVal(False)  # unrelated python types never compare equal
        raise OutOfSubset(f"== on {a!r}, {b!r}")

    def contains(self, item: V, cont: V):
        for h in getattr(self.world, "contains_hooks", ()):
            r = h(self, item, cont)
            if r is not None:
                return r
        if isinstance(cont, (VTuple, VList)):
            return z3.Or([self.eq(item, x) for x in cont.items] + [z3.BoolVal(False)])
        if isinstance(cont, VPy) and isinstance(cont.obj, tuple) and cont.obj and cont.obj[0] in ("set", "frozenset"):
            return z3.Or([self.eq(item, x) for x in cont.obj[1]] + [z3.BoolVal(False)])
        if isinstance(cont, VDict):
            return z3.Or([self.eq(item, k) for k, _ in cont.entries] + [z3.BoolVal(False)])
        if isinstance(cont, VSet):
            return z3.Select(cont.arr, pack(item, cont.elem)[0])
        if isinstance(cont, VMap) and isinstance(item, VNone) and isinstance(cont.k, Ref):
            return z3.BoolVal(False)        # None is never a key of a map whose keys are objects
        if isinstance(cont, VMap):
            return z3.Select(cont.present, self.map_key(cont, item))
        if isinstance(cont, VSeq):
            terms = pack(item, cont.elem)
            e = self.fresh_const("in_seq", z3.BoolSort())
            i = z3.Int("i!in")
            hit = z3.And([z3.Select(a, i) == t for a, t in zip(cont.arrs, terms)])
            self.assume(e == z3.Exists([i], z3.And(i >= 0, i < cont.length, hit)))
            return e
        if isinstance(cont, VStr) and isinstance(item, VStr):
            return z3.Contains(cont.term, item.term)
        raise OutOfSubset(f"`in` on {cont!r}")

    def map_key(self, m: VMap, k: V):
        try:
            return key_term(m.k, pack(k, m.k))
        except AssertionError:
            raise OutOfSubset(f"map key {k!r} does not have the declared key type {m.k}")

    def compare(self, op, a: V, b: V):
        if isinstance(op, ast.Eq):
            return self.eq(a, b)
        if isinstance(op, ast.NotEq):
            return z3.Not(self.eq(a, b))
        if isinstance(op, (ast.Is, ast.IsNot)):
            if isinstance(a, VNone) or isinstance(b, VNone):
                r = z3.BoolVal(isinstance(a, VNone) and isinstance(b, VNone))
            elif isinstance(a, VRef) and isinstance(b, VRef):
                r = a.term == b.term if a.sort == b.sort else z3.BoolVal(False)
            elif isinstance(a, VBool) and isinstance(b, VBool):
                r = a.term == b.term
            elif isinstance(a, VEnum) and isinstance(b, VEnum):
                r = self.eq(a, b)
            elif isinstance(a, (VPy, VFunc)) or isinstance(b, (VPy, VFunc)):
                if isinstance(a, VPy) and isinstance(b, VPy) and a.path is not None:
                    r = z3.BoolVal(a.path == b.path)
                else:
                    r = z3.BoolVal(a is b)
            elif type(a) is not type(b):
                r = z3.BoolVal(False)
            else:
                raise OutOfSubset(f"`is` on {a!r}, {b!r}")
            return r if isinstance(op, ast.Is) else z3.Not(r)
        if isinstance(op, ast.In):
            return self.contains(a, b)
        if isinstance(op, ast.NotIn):
            return z3.Not(self.contains(a, b))
        if isinstance(a, VReal) or isinstance(b, VReal):
            ra, rb = self.as_real_term(a), self.as_real_term(b)
            if ra is not None and rb is not None:
                return {ast.Lt: ra < rb, ast.LtE: ra <= rb, ast.Gt: ra > rb, ast.GtE: ra >= rb}[type(op)]
        ia, ib = self.as_int_term(a), self.as_int_term(b)
        if ia is not None and ib is not None:
            if isinstance(op, ast.Lt):
                return ia < ib
            if isinstance(op, ast.LtE):
                return ia <= ib
            if isinstance(op, ast.Gt):
                return ia > ib
            if isinstance(op, ast.GtE):
                return ia >= ib
        raise OutOfSubset(f"compare {op.__class__.__name__} on {a!r}, {b!r}")

    # ------------------------------------------------------------ subscripts
    def ev_Subscript(self, n, env):
        base = self.ev(n.value, env)
        if isinstance(n.slice, ast.Slice):
            lo = self.ev(n.slice.lower, env) if n.slice.lower is not None else None
            hi = self.ev(n.slice.upper, env) if n.slice.upper is not None else None
            if n.slice.step is not None:
                raise OutOfSubset("slice step")
            return self.slice(base, lo, hi)
        idx = self.ev(n.slice, env)
        return self.getitem(base, idx)

    def norm_index(self, idx_term, length):
        """python index normalisation with IndexError fork."""
        i = z3.If(idx_term < 0, idx_term + length, idx_term)
        if self.pure_mode:
            # inside a quantified comprehension: in-range becomes a universally quantified `safe` obligation
            self.pure_sides.append(z3.And(i >= 0, i < length))
            return i
        if self.branch(z3.Or(i < 0, i >= length)):
            raise PyRaise("IndexError")
        return i

    def getitem(self, base: V, idx: V) -> V:
        h = self.world.getitem_hook(self, base, idx)
        if h is not None:
            return h
        if isinstance(base, (VTuple, VList)):
            it = self.as_int_term(idx)
            if it is None:
                raise OutOfSubset(f"index {idx!r}")
            its = z3.simplify(it)
            n = len(base.items)
            if z3.is_int_value(its):
                k = its.as_long()
                if not (-n <= k < n):
                    raise PyRaise("IndexError")
                return base.items[k]
            i = self.norm_index(it, z3.IntVal(n))
            for k in range(n - 1):
                if self.branch(i == k):
                    return base.items[k]
            return base.items[n - 1]
        if isinstance(base, VSeq):
            it = self.as_int_term(idx)
            if it is None:
                raise OutOfSubset(f"index {idx!r}")
            return self.seq_get(base, self.norm_index(it, base.length))
        if isinstance(base, VDict):
            for k, v in base.entries:
                if self.branch(self.eq(idx, k)):
                    return v
            raise PyRaise("KeyError")
        if isinstance(base, VMap):
            k = self.map_key(base, idx)
            if self.branch(z3.Not(z3.Select(base.present, k))):
                raise PyRaise("KeyError")
            return self.force(unpack(base.v, [z3.Select(a, k) for a in base.arrs]))
        if isinstance(base, VStr):
            it = self.as_int_term(idx)
            i = self.norm_index(it, z3.Length(base.term))
            return VStr(z3.SubString(base.term, i, 1))
        if isinstance(base, VPy) or (isinstance(base, VFunc) and base.kind == "builtin"):
            return VPy(obj=("subscript", base, idx))  # typing generics
        h = self.world.getitem_hook(self, base, idx)
        if h is not None:
            return h
        raise OutOfSubset(f"subscript of {base!r}")

    def slice(self, base: V, lo, hi) -> V:
        def term(x):
            return None if x is None or isinstance(x, VNone) else self.as_int_term(x)

        lo_t, hi_t = term(lo), term(hi)
        if isinstance(base, (VTuple, VList)):
            lo_s = None if lo_t is None else z3.simplify(lo_t)
            hi_s = None if hi_t is None else z3.simplify(hi_t)
            if (lo_s is None or z3.is_int_value(lo_s)) and (hi_s is None or z3.is_int_value(hi_s)):
                sl = base.items[(lo_s.as_long() if lo_s is not None else None):(hi_s.as_long() if hi_s is not None else None)]
                return VTuple(sl) if isinstance(base, VTuple) else VList(list(sl), True)
            base = self.to_seq(base)
        if isinstance(base, VSeq):
            n = base.length

            def clamp(t, dflt):
                if t is None:
                    return dflt
                t = z3.If(t < 0, t + n, t)
                return z3.If(t < 0, 0, z3.If(t > n, n, t))

            a, b = clamp(lo_t, z3.IntVal(0)), clamp(hi_t, n)
            i = z3.Int("i!sl")
            arrs = [z3.Lambda([i], z3.Select(x, i + a)) for x in base.arrs]
            return VSeq(base.elem, arrs, z3.If(b > a, b - a, 0), base.mutable)
        if isinstance(base, VStr):
            n = z3.Length(base.term)

            def clamp(t, dflt):
                if t is None:
                    return dflt
                t = z3.If(t < 0, t + n, t)
                return z3.If(t < 0, 0, z3.If(t > n, n, t))

            a, b = clamp(lo_t, z3.IntVal(0)), clamp(hi_t, n)
            return VStr(z3.SubString(base.term, a, z3.If(b > a, b - a, 0)))
        if isinstance(base, VRef):
            h = self.world.getitem_hook(self, base, VPy(obj=("slice", lo, hi)))
            if h is not None:
                return h
        raise OutOfSubset(f"slice of {base!r}")

    # ------------------------------------------------------------ strings
    def to_str(self, v: V) -> VStr:
        if isinstance(v, VStr):
            return v
        if isinstance(v, VInt):
            t = v.term
            return VStr(z3.If(t >= 0, z3.IntToStr(t), z3.Concat(z3.StringVal("-"), z3.IntToStr(-t))))
        if isinstance(v, VBool):
            return VStr(z3.If(v.term, z3.StringVal("True"), z3.StringVal("False")))
        if isinstance(v, VNone):
            return VStr("None")
        if isinstance(v, VReal):
            return VStr(self.fresh_const("str_of_float", z3.StringSort()))
        h = self.world.str_hook(self, v)
        if h is not None:
            return h
        return VStr(self.fresh_const("str_of", z3.StringSort()))

    def ev_JoinedStr(self, n, env):
        parts = []
        for p in n.values:
            if isinstance(p, ast.Constant):
                parts.append(z3.StringVal(p.value))
            else:
                v = self.ev(p.value, env)
                parts.append(self.to_str(v).term)
        if not parts:
            return VStr("")
        return VStr(z3.Concat(*parts) if len(parts) > 1 else parts[0])

    def ev_FormattedValue(self, n, env):
        return self.to_str(self.ev(n.value, env))

    # ------------------------------------------------------------ attribute / call
    def ev_Attribute(self, n, env):
        base = self.ev(n.value, env)
        return self.getattr(base, n.attr)

    def getattr(self, base: V, attr: str) -> V:
        if isinstance(base, VPy) and base.path is not None:
            return self.world.resolve_path(self, base.path + "." + attr)
        if isinstance(base, VRef):
            return self.world.ref_getattr(self, base, attr)
        if isinstance(base, VNone):
            raise PyRaise("AttributeError", f"None.{attr}")
        if isinstance(base, VEnum) and hasattr(self.world, "enum_getattr"):
            r = self.world.enum_getattr(self, base, attr)
            if r is not None:
                return r
        return VFunc("method", attr, recv=base)

    def ev_Lambda(self, n, env):
        return VFunc("ast", "<lambda>", node=n, env=env, module=env.module)

    def ev_Call(self, n, env):
        fn = self.ev(n.func, env)
        if isinstance(fn, VRef) and fn.sort in ("Opaque", "Emitter"):
            vals, kws = [], {}
            for a in n.args:
                vals.append(self.ev(a.value if isinstance(a, ast.Starred) else a, env))
            for k in n.keywords:
                v = self.ev(k.value, env)
                if k.arg is None:
                    vals.append(v)
                else:
                    kws[k.arg] = v
            return self.call(fn, vals, kws, n)
        args, kwargs = [], {}
        for a in n.args:
            if isinstance(a, ast.Starred):
                args.extend(self.as_concrete_items(self.ev(a.value, env)))
            else:
                args.append(self.ev_arg(a, env))
        for k in n.keywords:
            if k.arg is None:
                d = self.ev(k.value, env)
                if not isinstance(d, VDict):
                    raise OutOfSubset("**kwargs of non-literal")
                for kk, vv in d.entries:
                    kwargs[z3.simplify(kk.term).as_string()] = vv
            else:
                kwargs[k.arg] = self.ev_arg(k.value, env)
        return self.call(fn, args, kwargs, n)

    def ev_arg(self, a, env):
        if isinstance(a, (ast.GeneratorExp, ast.ListComp, ast.SetComp)):
            return VFunc("comp", "<comp>", node=a, env=env)
        return self.ev(a, env)

    # ------------------------------------------------------------ comprehensions
    def ev_ListComp(self, n, env):
        return self.comp_list(n, env, mutable=True)

    def ev_GeneratorExp(self, n, env):
        return self.comp_list(n, env, mutable=False)

    def ev_DictComp(self, n, env):
        if len(n.generators) != 1:
            raise OutOfSubset("nested dict comprehension")
        g = n.generators[0]
        it = self.iter_view(self.ev(g.iter, env))
        if not isinstance(it, list):
            raise OutOfSubset("dict comprehension over a symbolic iterable")
        out = []
        for item in it:
            e2 = Env(env)
            self.bind_target(g.target, item, e2)
            if all(self.test(c, e2) for c in g.ifs):
                out.append((self.ev(n.key, e2), self.ev(n.value, e2)))
        return VDict(out)

    def ev_SetComp(self, n, env):
        if len(n.generators) == 1 and n.generators[0].ifs:
            g = n.generators[0]
            it = self.iter_view(self.ev(g.iter, env))
            if isinstance(it, VSeq):
                # filtered set comprehension over a symbolic sequence, exactly: { elt(i) | i < len, cond(i) }
                def body(e2):
                    conds = [self.truthy(self.ev(c, e2)) for c in g.ifs]
                    val = self.ev(n.elt, e2)
                    if isinstance(val, VOpt):
                        # a None element can never equal a non-None probe: the set of its non-None elements decides every membership test the code makes
                        conds.append(z3.Not(val.isnone))
                        val = val.val
                    elem = self.infer_elem(val)
                    return (elem, len(conds)), conds + pack(val, elem)
                i, ((elem, nc), _), terms = self.for_arbitrary_index(it, g.target, env, body, "i!sc")
                conds, et = terms[:nc], terms[nc:]
                if len(et) != 1:
                    raise OutOfSubset("set comprehension with a structured element")
                x = z3.Const("x!scf", et[0].sort())
                arr = z3.Lambda([x], z3.Exists([i], z3.And(i >= 0, i < it.length, *conds, et[0] == x)))
                return VSet(elem, arr)
        l = self.comp_list(n, env, mutable=False)
        if isinstance(l, VList):
            return VPy(obj=("set", l.items))
        # symbolic: set of elements of the sequence
        assert isinstance(l, VSeq)
        x = z3.Const("x!sc", flat_sorts(l.elem)[0])
        i = z3.Int("i!sc")
        arr = z3.Lambda([x], z3.Exists([i], z3.And(i >= 0, i < l.length, z3.Select(l.arrs[0], i) == x)))
        return VSet(l.elem, arr)

    def comp_list(self, n, env, mutable):
        if len(n.generators) != 1:
            raise OutOfSubset("nested comprehension generators")
        g = n.generators[0]
        it = self.ev(g.iter, env)
        if isinstance(it, VRef) and it.sort == "Opaque":
            return it
        it = self.iter_view(it)
        if isinstance(it, list):
            out = []
            for item in it:
                e2 = Env(env)
                self.bind_target(g.target, item, e2)
                if all(self.test(c, e2) for c in g.ifs):
                    out.append(self.ev(n.elt, e2))
            return VList(out, mutable)
        # symbolic-length source: pointwise map, no filter, pure element expr
        seq = it
        if g.ifs:
            exact = self.filtered_seq_exact(n, g, seq, env, mutable)
            if exact is not None:
                return exact
            # over-approximation: some sequence of unknown length <= len(source) whose
            # elements have the type of the element expression (content unknown)
            i0 = z3.Int(self.fresh_name("i!compf"))
            e2 = Env(env)
            self.pure_mode += 1
            try:
                self.bind_target(g.target, self.seq_get_pure(seq, i0), e2)
                val = self.ev(n.elt, e2)
            finally:
                self.pure_mode -= 1
            r = self.fresh("filtered", Seq(self.infer_elem(val)))
            self.assume(z3.And(r.length >= 0, r.length <= seq.length))
            r.mutable = mutable
            self.assumptions_used.add("filtered comprehension over a symbolic sequence abstracted to an arbitrary shorter sequence (sound over-approximation)")
            return r
        def body(e2):
            val = self.ev(n.elt, e2)
            elem = self.infer_elem(val)
            return val, pack(val, elem)
        i, (val, _), terms = self.for_arbitrary_index(seq, g.target, env, body, "i!comp")
        elem = self.infer_elem(val)
        arrs = [z3.Lambda([i], t) for t in terms]
        return VSeq(elem, arrs, seq.length, mutable)

    def filtered_seq_exact(self, n, g, seq, env, mutable):
        """[elt(x) for x in seq if cond(x)] over a symbolic sequence, exactly: a fresh sequence r together with a strictly
        increasing index map idx: positions of r -> indices of seq that satisfy cond, onto those indices (inverse pos).
        None when the element expression is outside what for_arbitrary_index handles."""
        def body(e2):
            conds = [self.truthy(self.ev(c, e2)) for c in g.ifs]
            val = self.ev(n.elt, e2)
            elem = self.infer_elem(val)
            return (elem, len(conds)), conds + pack(val, elem)
        saved = (dict(self.names), len(self.pc), set(self.assumptions_used))
        try:
            i, ((elem, nc), _), terms = self.for_arbitrary_index(seq, g.target, env, body, "i!flt")
        except OutOfSubset:
            self.names = saved[0]
            del self.pc[saved[1]:]
            return None
        cond = z3.And(*terms[:nc]) if nc > 1 else terms[0]
        elts = terms[nc:]
        r = self.fresh("filtered", Seq(elem))
        if len(r.arrs) != len(elts):
            return None
        idx = z3.Function(self.fresh_name("idx!flt"), z3.IntSort(), z3.IntSort())
        pos = z3.Function(self.fresh_name("pos!flt"), z3.IntSort(), z3.IntSort())
        j, j2 = z3.Int("j!flt"), z3.Int("j2!flt")
        at = lambda t, k: z3.substitute(t, (i, k))
        self.assume(z3.And(r.length >= 0, r.length <= seq.length))
        self.assume(z3.ForAll([j], z3.Implies(z3.And(j >= 0, j < r.length), z3.And(
            idx(j) >= 0, idx(j) < seq.length, at(cond, idx(j)), pos(idx(j)) == j,
            *[z3.Select(a, j) == at(t, idx(j)) for a, t in zip(r.arrs, elts)])),
            patterns=[idx(j), z3.Select(r.arrs[0], j)]))
        self.assume(z3.ForAll([j, j2], z3.Implies(z3.And(j >= 0, j < j2, j2 < r.length), idx(j) < idx(j2)),
                              patterns=[z3.MultiPattern(idx(j), idx(j2))]))
        # alias of the source array: the term itself may contain ite / lambda, which z3 rejects in patterns (matching is modulo equality)
        src = z3.Const(self.fresh_name("src!flt"), seq.arrs[0].sort())
        self.assume(src == seq.arrs[0])
        self.assume(z3.ForAll([i], z3.Implies(z3.And(i >= 0, i < seq.length, cond),
                                              z3.And(pos(i) >= 0, pos(i) < r.length, idx(pos(i)) == i)), patterns=[pos(i), z3.Select(src, i)]))
        r.mutable = mutable
        return r

    def for_arbitrary_element(self, st: "VSet", target, env, body, base="x!q"):
        """As for_arbitrary_index, for a comprehension over a symbolic SET: the element expression is evaluated once for an
        arbitrary member x.  Returns (x, body result, terms)."""
        es = flat_sorts(st.elem)[0]
        x = z3.Const(self.fresh_name(base), es)
        e2 = Env(env)
        self.pure_mode += 1
        names0 = dict(self.names)
        heap0 = {k: list(v) for k, v in self.heap.items()}
        hv0 = self.ghost.get("heap_version")
        nev0 = len(self.events)
        pcn = len(self.pc)
        ndec = len(self.decisions)
        try:
            self.pc.append(z3.Select(st.arr, x))
            self.bind_target(target, unpack(st.elem, [x]), e2)
            res = body(e2)
            terms = list(res[1])
            delta = self.pc[pcn + 1:]
            if len(self.decisions) != ndec:
                raise OutOfSubset("fork inside the element expression of a comprehension over a symbolic set")
        finally:
            del self.pc[pcn:]
            self.pure_mode -= 1
        if delta:
            hv1 = self.ghost.get("heap_version")
            if len(self.events) != nev0 or (hv0 is None) != (hv1 is None) or (hv0 is not None and not hv0.eq(hv1)) or any(
                    k in heap0 and (len(heap0[k]) != len(v) or not all(a.eq(b) for a, b in zip(heap0[k], v))) for k, v in self.heap.items()):
                raise OutOfSubset("element expression of a symbolic comprehension has side effects")
            created = set()
            for nm, cnt in self.names.items():
                for k in range(names0.get(nm, 0), cnt):
                    created.add(f"{nm}#{k}" if k else nm)
            subst = self._skolemise_over(created, [*delta, *terms], x)
            if subst:
                delta = [z3.substitute(d, *subst) for d in delta]
                terms = [z3.substitute(t, *subst) for t in terms]
            self.pc.append(z3.ForAll([x], z3.Implies(z3.Select(st.arr, x), z3.And(delta))))
            self.assumptions_used.add("postconditions of the functions called in the element expression of a comprehension over a symbolic set hold for every member (element evaluated once for an arbitrary member; per-element symbols Skolemised)")
        return x, res, terms

    def for_arbitrary_index(self, seq, target, env, body, base="i!q"):
        """Evaluate `body(env with target bound to seq[i])` once, for an arbitrary index i of a symbolic sequence, without
        forking.  body returns (anything, [z3 terms]).  Facts learnt during the evaluation (postconditions of called
        functions) are turned into one assumption quantified over i; symbols created for the element become Skolem
        functions of i; the evaluation must not have side effects.  Returns (i, body result, terms after Skolemisation)."""
        i = z3.Int(self.fresh_name(base))
        e2 = Env(env)
        self.pure_mode += 1
        names0 = dict(self.names)
        heap0 = {k: list(v) for k, v in self.heap.items()}
        hv0 = self.ghost.get("heap_version")
        nev0 = len(self.events)
        pcn = len(self.pc)
        ndec = len(self.decisions)
        try:
            self.pc.append(z3.And(i >= 0, i < seq.length))
            self.bind_target(target, self.seq_get_pure(seq, i), e2)
            res = body(e2)
            terms = list(res[1])
            delta = self.pc[pcn + 1:]
            if len(self.decisions) != ndec:
                raise OutOfSubset("fork inside the element expression of a comprehension over a symbolic sequence")
        finally:
            del self.pc[pcn:]
            self.pure_mode -= 1
        if delta:
            hv1 = self.ghost.get("heap_version")
            if len(self.events) != nev0 or (hv0 is None) != (hv1 is None) or (hv0 is not None and not hv0.eq(hv1)) or any(
                    k in heap0 and (len(heap0[k]) != len(v) or not all(a.eq(b) for a, b in zip(heap0[k], v))) for k, v in self.heap.items()):
                raise OutOfSubset("element expression of a symbolic comprehension has side effects")
            created = set()
            for nm, cnt in self.names.items():
                for k in range(names0.get(nm, 0), cnt):
                    created.add(f"{nm}#{k}" if k else nm)
            subst = self._skolemise_over(created, [*delta, *terms], i)
            if subst:
                delta = [z3.substitute(d, *subst) for d in delta]
                terms = [z3.substitute(t, *subst) for t in terms]
            self.pc.append(z3.ForAll([i], z3.Implies(z3.And(i >= 0, i < seq.length), z3.And(delta))))
            self.assumptions_used.add("postconditions of the functions called in the element expression of a comprehension over a symbolic sequence hold for every index (element evaluated once for an arbitrary index; per-element symbols Skolemised)")
        return i, res, terms

    def _skolemise_over(self, created: set, exprs, i):
        """(constant, f(i)) pairs for every uninterpreted constant of `exprs` whose name was created during the element evaluation"""
        found, seen, stack = {}, set(), list(exprs)
        while stack:
            t = stack.pop()
            if t.get_id() in seen:
                continue
            seen.add(t.get_id())
            if z3.is_quantifier(t):
                stack.append(t.body())
            elif z3.is_app(t):
                if t.num_args() == 0 and t.decl().kind() == z3.Z3_OP_UNINTERPRETED:
                    nm = t.decl().name()
                    root = nm.split("!")[0]
                    if nm in created or root in created or any(nm.startswith(c + "!") or nm.startswith(c + ".") for c in created):
                        found[nm] = t
                else:
                    stack.extend(t.children())
        out = []
        for nm, c in found.items():
            if c.eq(i):
                continue
            f = z3.Function(nm + "!sk", i.sort(), c.sort())
            out.append((c, f(i)))
        return out

    def seq_get_pure(self, s: VSeq, idx) -> V:
        v = unpack(s.elem, [z3.Select(a, idx) for a in s.arrs])
        if isinstance(v, (VOpt, VDyn)) or (isinstance(v, VRef) and v.nullable):
            raise OutOfSubset("symbolic comprehension over optional/dynamic elements")
        return v

    def iter_view(self, it: V):
        """python list of items when the iterable has concrete length, else a VSeq."""
        if isinstance(it, (VTuple, VList)):
            return list(it.items)
        if isinstance(it, VDict):
            return [k for k, _ in it.entries]
        if isinstance(it, VPy) and isinstance(it.obj, tuple) and it.obj and it.obj[0] in ("set", "frozenset", "iter"):
            return list(it.obj[1])
        if isinstance(it, VSeq):
            n = self.concrete_len(it)
            if n is not None:
                return [self.seq_get(it, z3.IntVal(k)) for k in range(n)]
            return it
        h = self.world.iter_hook(self, it)
        if h is not None:
            return h
        if isinstance(it, (VNone, VInt, VBool, VReal)):
            raise PyRaise("TypeError", "object is not iterable")
        raise OutOfSubset(f"iteration over {it!r}")
