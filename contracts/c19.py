"""C19 — library calls keep their call signature while being traced.

(1) call-form subsumption: for every MonkeyPatchSpec of every plugin, the
    substitute produced by the real make_value(original) accepts every call
    form (number of positionals, set of keywords) the original accepts:
        forall n, K:  binds(sig_orig, n, K)  =>  binds(sig_subst, n, K)
    decided by z3 for all call forms at once (behavioural-subtyping rule).
(2) no argument silently ignored, for the hand-written *args/**kwargs
    substitutes: every call form the original accepts is enumerated (finite,
    complete for the signature) and the wrapper body is executed symbolically
    with distinct tokens; every supplied token must reach the primitive bind or
    the original.
"""
from __future__ import annotations

import inspect
import itertools
import time
import z3

from pyvc.vals import *  # noqa
from pyvc.core import *  # noqa
from pyvc.world import Contract, Ctx

P = inspect.Parameter


def binds(sig: inspect.Signature, n, kw: dict, other):
    """z3 Bool: a call with n positional arguments and the keyword set {k | kw[k]} (+ some other name iff `other`) binds to sig"""
    params = list(sig.parameters.values())
    pos = [p for p in params if p.kind in (P.POSITIONAL_ONLY, P.POSITIONAL_OR_KEYWORD)]
    var_pos = any(p.kind == P.VAR_POSITIONAL for p in params)
    var_kw = any(p.kind == P.VAR_KEYWORD for p in params)
    conj = [n >= 0]
    if not var_pos:
        conj.append(n <= len(pos))
    named = set()
    for i, p in enumerate(pos):
        by_pos = z3.BoolVal(True) if False else (n > i)
        k = kw.get(p.name, z3.BoolVal(False))
        if p.kind == P.POSITIONAL_OR_KEYWORD:
            named.add(p.name)
            conj.append(z3.Not(z3.And(by_pos, k)))
            bound = z3.Or(by_pos, k)
        else:
            bound = by_pos
            if not var_kw:
                conj.append(z3.Not(k))
        if p.default is P.empty:
            conj.append(bound)
    for p in params:
        if p.kind == P.KEYWORD_ONLY:
            named.add(p.name)
            if p.default is P.empty:
                conj.append(kw.get(p.name, z3.BoolVal(False)))
    if not var_kw:
        for name, k in kw.items():
            if name not in named:
                conj.append(z3.Not(k))
        conj.append(z3.Not(other))
    return z3.And(conj)


def diff_description(so: inspect.Signature, ss: inspect.Signature) -> str:
    """canonical, order-independent description of how the substitute is stricter (identity of a finding)"""
    def view(sig):
        ps = list(sig.parameters.values())
        return {
            "pos": [p.name for p in ps if p.kind in (P.POSITIONAL_ONLY, P.POSITIONAL_OR_KEYWORD)],
            "kwable": {p.name for p in ps if p.kind in (P.POSITIONAL_OR_KEYWORD, P.KEYWORD_ONLY)},
            "required": {p.name for p in ps if p.default is P.empty and p.kind in (P.POSITIONAL_ONLY, P.POSITIONAL_OR_KEYWORD, P.KEYWORD_ONLY)},
            "var_pos": any(p.kind == P.VAR_POSITIONAL for p in ps), "var_kw": any(p.kind == P.VAR_KEYWORD for p in ps),
        }
    o, s = view(so), view(ss)
    parts = []
    if not s["var_kw"]:
        miss = sorted(o["kwable"] - s["kwable"])
        if miss:
            parts.append("keyword_not_accepted:" + ",".join(miss))
        if o["var_kw"]:
            parts.append("arbitrary_keywords_not_accepted")
    if not s["var_pos"]:
        if o["var_pos"]:
            parts.append("extra_positionals_not_accepted")
        elif len(o["pos"]) > len(s["pos"]):
            parts.append(f"positional_capacity:{len(s['pos'])}<{len(o['pos'])}")
    newly = sorted(s["required"] - o["required"])
    if newly:
        parts.append("newly_required:" + ",".join(newly))
    order = [a for a, b in zip(o["pos"], s["pos"]) if a != b]
    if order:
        parts.append("positional_names_differ:" + ",".join(order[:3]))
    return ";".join(parts) or "other"


def collect_pairs():
    """(label, original, substitute) for every MonkeyPatchSpec of every registered plugin"""
    import importlib
    ps = importlib.import_module("jax2onnx.plugins.plugin_system")
    pt = importlib.import_module("jax2onnx.plugins._patching")
    ps.import_all_plugins()
    out, seen = [], set()
    for name, plugin in sorted(ps.PLUGIN_REGISTRY.items(), key=lambda kv: str(kv[0])):
        cls = plugin if isinstance(plugin, type) else plugin.__class__
        specs_fn = getattr(cls, "binding_specs", None)
        if not callable(specs_fn):
            continue
        try:
            specs = specs_fn()
        except Exception:
            continue
        for sp in specs:
            if not isinstance(sp, pt.MonkeyPatchSpec):
                continue
            try:
                tgt = pt._resolve(sp.target)
                orig = getattr(tgt, sp.attr, None)
            except Exception:
                continue
            if orig is None or not callable(orig):
                continue
            tname = sp.target if isinstance(sp.target, str) else getattr(tgt, "__module__", "?") + "." + getattr(tgt, "__qualname__", getattr(tgt, "__name__", "?"))
            label = f"{tname}.{sp.attr}"
            key = (label, cls.__name__)
            if key in seen:
                continue
            seen.add(key)
            try:
                subst = sp.make_value(orig)
                so, ss = inspect.signature(orig), inspect.signature(subst)
            except Exception:
                continue
            out.append((label, cls.__module__ + ":" + cls.__name__, orig, subst, so, ss))
    return out


def register(w):
    def custom(world, c, out):
        t0 = time.time()
        pairs = collect_pairs()
        n = z3.Int("n_positional")
        other = z3.Bool("kw_some_other_name")
        for label, owner, orig, subst, so, ss in pairs:
            t1 = time.time()
            names = sorted(set(so.parameters) | set(ss.parameters))
            kw = {nm: z3.Bool(f"kw_{nm}") for nm in names}
            s = z3.Solver()
            s.set("timeout", 10000)
            s.add(binds(so, n, kw, other), z3.Not(binds(ss, n, kw, other)))
            r = s.check()
            oid = f"{owner}[{label}]#post:call_forms_subsumed"
            d = {"oid": oid, "kind": "post", "status": "discharged" if r == z3.unsat else ("refuted" if r == z3.sat else "unknown"), "backend": "z3",
                 "time": time.time() - t1, "instances": 1, "trivial": 0, "note": f"orig{so} vs substitute{ss}"[:400]}
            if r == z3.sat:
                m = s.model()
                npos = m.eval(n, model_completion=True).as_long()
                kws = sorted(nm for nm, b in kw.items() if z3.is_true(m.eval(b, model_completion=True)))
                if z3.is_true(m.eval(other, model_completion=True)):
                    kws.append("zz_other_keyword")
                args = [object()] * npos
                kwargs = {k: object() for k in kws}
                ok_o = ok_s = True
                try:
                    so.bind(*args, **kwargs)
                except TypeError:
                    ok_o = False
                try:
                    ss.bind(*args, **kwargs)
                except TypeError:
                    ok_s = False
                desc = diff_description(so, ss)
                d["args"] = {"n_positional": npos, "keywords": kws, "difference": desc}
                d["model"] = f"n={npos}, keywords={kws}"
                d["formula"] = "binds(orig) => binds(substitute)"
                d["replay"] = {"reproduced": bool(ok_o and not ok_s), "detail": f"{label}: the original accepts {npos} positional + keywords {kws}; the tracing-time substitute raises TypeError for it [{desc}]"}
            out["obls"].append(d)
        if not pairs:
            out["crash"] = "no MonkeyPatchSpec pairs found (vacuous)"
        out["paths"] = len(pairs)
        out["time"] = time.time() - t0
        return out

    w.add_contract(Contract("jax2onnx.plugins:<monkey-patch-wrappers>", kind="custom", custom=custom, props=["C19"]))
    register_forwarding(w)
    w.trust("python call binding (inspect.Signature semantics) encoded as binds(sig, n, K); substitutes obtained by calling the real make_value(original); result is relative to the installed JAX/Flax/Equinox versions")


# =====================================================================
# (2) hand-written *args/**kwargs substitutes: no supplied argument is silently dropped
# =====================================================================
def register_forwarding(w):
    import ast
    import glob
    import os
    from pyvc import source as S
    from pyvc.world import Exec
    from specs import opaque
    opaque.install(w)
    TOK = "ArgToken"
    ref_sort(TOK)

    def find_wrappers():
        out = []
        for path in sorted(glob.glob(S.REPO + "/jax2onnx/plugins/**/*.py", recursive=True)):
            with open(path, encoding="utf-8") as f:
                src = f.read()
            if "**kwargs" not in src:
                continue
            tree = ast.parse(src)
            for cls in [n for n in ast.walk(tree) if isinstance(n, ast.ClassDef)]:
                for fn in ast.walk(cls):
                    if isinstance(fn, ast.FunctionDef) and fn.name in ("_patched", "patched") and fn.args.vararg is not None and fn.args.kwarg is not None and not fn.args.args:
                        mod = path[len(S.REPO) + 1:-3].replace("/", ".")
                        out.append((mod, cls.name, fn))
        return out

    def token(i, name):
        t = z3.Const(f"tok_{name}", ref_sort(TOK))
        return VRef(TOK, t)

    def contains_token(v, tok, depth=0):
        if isinstance(v, VRef) and v.sort == TOK:
            return z3.is_true(z3.simplify(v.term == tok.term))
        if isinstance(v, (VTuple, VList)) and depth < 6:
            return any(contains_token(x, tok, depth + 1) for x in v.items)
        if isinstance(v, VDict) and depth < 6:
            return any(contains_token(x, tok, depth + 1) for _, x in v.entries)
        if isinstance(v, VFunc) and v.kind == "ast" and depth < 3:
            # a returned closure keeps the arguments it captured (initializer factories)
            e = getattr(v, "env", None)
            hops = 0
            while e is not None and hops < 3:
                if any(contains_token(x, tok, depth + 1) for x in e.vars.values()):
                    return True
                e, hops = e.parent, hops + 1
        return False

    def run_form(mod, fn, n, kws, pos_names):
        """symbolically execute the wrapper on one call form; returns list of (outcome, missing tokens) per path"""
        module = S.load_module(mod)
        ex = Exec(w)
        results = []
        toks = [token(i, f"pos{i}") for i in range(n)] + [token(100 + j, k) for j, k in enumerate(kws)]
        allt = [t.term for t in toks]

        def runner():
            if len(allt) > 1:
                ex.assume(z3.Distinct(*allt))
            for t in allt:
                ex.assume(t != null_of(TOK))
            ex.frames.append({"module": module, "fid": f"{mod}:{fn.name}", "loops": S.loops_of(fn), "loop_specs": {}, "contract": fwd_contract, "unroll_while": 8})
            env = Env(module=module)
            # closure variables of the enclosing factory: opaque
            bound = {a.arg for a in [fn.args.vararg, fn.args.kwarg] if a is not None}
            assigned = S.assigned_names(fn.body)
            for nm in {x.id for x in ast.walk(fn) if isinstance(x, ast.Name) and isinstance(x.ctx, ast.Load)} - bound - assigned:
                if nm not in module.toplevel and nm not in module.imports:
                    from pyvc.world import BUILTINS
                    if nm not in BUILTINS and nm not in EXC_PARENT:
                        env.vars[nm] = opaque.fresh_opaque(ex)
            f = VFunc("ast", fn.name, node=fn, env=env, module=module, qual=fn.name)
            outcome = "return"
            ret = NONE
            try:
                ret = ex.call_ast(f, toks[:n], {k: t for k, t in zip(kws, toks[n:])})
            except PyRaise as e:
                outcome = "raise " + e.cls
            calls = [e for e in ex.events if e[0] == "opaque_call"] + [("returned", None, [ret])]
            missing = []
            if outcome == "return":
                for t, nm in zip(toks, [f"positional {i}" for i in range(n)] + [f"keyword {k}" for k in kws]):
                    if not any(contains_token(a, t) for c in calls for a in c[2]):
                        missing.append(nm)
            results.append((outcome, missing, len(calls)))

        from pyvc.verify import explore
        explore(ex, runner, max_paths=400)
        return results

    fwd_contract = Contract("jax2onnx.plugins:<argument-forwarding>", kind="custom", props=["C19"], opaque_externals=True)

    def record_calls(ex, fn, a, k):
        if opaque.is_opaque(fn):
            ex.events.append(("opaque_call", fn, list(a) + list(k.values())))
        return None
    w.call_ref_hooks.insert(0, record_calls)

    def custom(world, c, out):
        t0 = time.time()
        pairs = {(owner.split(":")[0], owner.split(":")[1]): (label, so) for label, owner, orig, subst, so, ss in collect_pairs()}
        wrappers = find_wrappers()
        for mod, clsname, fn in wrappers:
            t1 = time.time()
            info = pairs.get((mod, clsname))
            oid = f"{mod}:{clsname}.{fn.name}#post:no_supplied_argument_is_dropped"
            if info is None:
                out["obls"].append({"oid": oid, "kind": "post", "status": "unknown", "backend": "z3", "time": 0.0, "instances": 0, "trivial": 0, "note": "no MonkeyPatchSpec pair found for this wrapper"})
                continue
            label, so = info
            params = list(so.parameters.values())
            pos = [p.name for p in params if p.kind in (P.POSITIONAL_ONLY, P.POSITIONAL_OR_KEYWORD)]
            kwable = [p.name for p in params if p.kind in (P.POSITIONAL_OR_KEYWORD, P.KEYWORD_ONLY)]
            forms, bad, err = 0, None, None
            for n in range(len(pos) + 1):
                for r in range(len(kwable) + 1):
                    for kws in itertools.combinations(kwable, r):
                        try:
                            so.bind(*([0] * n), **{k: 0 for k in kws})
                        except TypeError:
                            continue
                        forms += 1
                        if forms > 1500:
                            break
                        try:
                            res = run_form(mod, fn, n, list(kws), pos)
                        except OutOfSubset as e:
                            err = str(e)
                            break
                        for outcome, missing, ncalls in res:
                            if missing and bad is None:
                                bad = (n, list(kws), missing)
                    if err or forms > 1500:
                        break
                if err or forms > 1500:
                    break
            d = {"oid": oid, "kind": "post", "backend": "enumerated", "time": time.time() - t1, "instances": forms, "trivial": 0,
                 "note": f"{label}: {forms} call forms accepted by the original's signature, wrapper executed symbolically on each"}
            if err:
                d["status"], d["note"] = "unknown", f"out-of-subset: {err}"
            elif bad:
                d["status"] = "refuted"
                d["args"] = {"n_positional": bad[0], "keywords": bad[1], "dropped": bad[2]}
                d["model"] = str(d["args"])
                d["formula"] = "every supplied argument token reaches the primitive bind or the original"
                d["replay"] = replay_forwarding(label, mod, clsname, bad)
            else:
                d["status"] = "discharged"
            out["obls"].append(d)
        if not wrappers:
            out["crash"] = "no *args/**kwargs wrapper found (vacuous)"
        out["paths"] = len(wrappers)
        out["time"] = time.time() - t0
        return out

    def replay_forwarding(label, mod, clsname, bad):
        """run the REAL substitute with distinctive values and a recording original / primitive bind"""
        import importlib
        try:
            m = importlib.import_module(mod)
            cls = getattr(m, clsname)
            n, kws, _ = bad
            vals = [7001 + i for i in range(n)]
            kwv = {k: 7101 + j for j, k in enumerate(kws)}
            seen = []

            def rec(*a, **k):
                seen.append((a, k))
                raise _Stop()

            class _Stop(Exception):
                pass
            pt = importlib.import_module("jax2onnx.plugins._patching")
            spec = [s_ for s_ in cls.binding_specs() if isinstance(s_, pt.MonkeyPatchSpec)][0]
            subst = spec.make_value(rec)
            prim = getattr(cls, "_PRIM", None)
            old_bind = getattr(prim, "bind", None)
            try:
                if prim is not None:
                    prim.bind = rec
                try:
                    subst(*vals, **kwv)
                except _Stop:
                    pass
                except TypeError as e:
                    return {"reproduced": False, "detail": f"real substitute raised TypeError: {e}"}
            finally:
                if prim is not None and old_bind is not None:
                    try:
                        del prim.bind
                    except Exception:
                        prim.bind = old_bind
            flat = repr(seen)
            dropped = [f"{k}={v}" for k, v in list(zip([f"positional {i}" for i in range(n)], vals)) + list(kwv.items()) if str(v) not in flat]
            return {"reproduced": bool(dropped), "detail": f"{label}({', '.join(map(str, vals))}{', ' if vals and kwv else ''}{', '.join(f'{k}={v}' for k, v in kwv.items())}) -> forwarded {flat[:200]}; dropped: {dropped}"}
        except Exception as e:  # pragma: no cover
            return {"reproduced": False, "detail": f"replay crashed: {type(e).__name__}: {e}"}

    fwd_contract.custom = custom
    w.add_contract(fwd_contract)

    # ---- bounded stand-in (never counted as proved): keyword arguments act on every trace, whatever was traced before
    def bounded_history(world, c, out):
        import time
        from pyvc.run import run_witness
        t0 = time.time()
        for oname, wn, bound in (("reduction_keyword_arguments_act_on_every_trace_of_a_process", "C19_reduction_kwargs_history_family",
                                  "70 + 20 exports of jnp.sum/prod/max/min/mean/any/all in one process over axis x keepdims x dtype x promote_integers x {int8,int16,uint8,float32}[2,3]; declared output type/shape compared with jax.eval_shape"),
                                 ("jnp_prod_of_a_narrow_integer_operand_is_promoted_like_jax", "D32_prod_integer_promotion", "jnp.prod(x) for x in int8/int16/uint8 [2,3], 4 axis/keepdims forms")):
            holds, detail = run_witness(wn, timeout=1200)
            d = {"oid": f"jax2onnx.plugins.jax.numpy._reduction_utils:abstract_eval_via_orig_reduction#bounded:{oname}", "kind": "bounded",
                 "status": "discharged" if holds else ("refuted" if holds is False else "unknown"), "backend": "enumerated", "time": time.time() - t0, "instances": 1, "trivial": 0,
                 "bounded": bound, "note": f"abstract evaluation of the substitutes (state across traces) is outside the call-form contracts; the real export is run on an enumerated history; {detail}"[:500]}
            if holds is False:
                d.update(args={"witness": wn}, replay={"reproduced": True, "detail": detail}, formula="", model=detail)
            out["obls"].append(d)
        out["paths"], out["time"] = 1, time.time() - t0
        return out
    w.add_contract(Contract("jax2onnx.plugins.jax.numpy._reduction_utils:<bounded-history>", kind="custom", custom=bounded_history, props=["C19"], witnesses=["C19_reduction_kwargs_history_family"]))


    # ---- bounded stand-in (never counted as proved): keyword arguments of @onnx_function targets
    def bounded_targets(world, c, out):
        import time
        from pyvc.run import run_witness
        t0 = time.time()
        holds, detail = run_witness("C19_function_target_kwargs_family", timeout=1200)
        d = {"oid": "jax2onnx.plugins.plugin_system:FunctionPlugin._make_patch_fn#bounded:keyword_arguments_of_function_targets_reach_the_body_or_are_rejected", "kind": "bounded",
             "status": "discharged" if holds else ("refuted" if holds is False else "unknown"), "backend": "enumerated", "time": time.time() - t0, "instances": 1, "trivial": 0,
             "bounded": "19 call forms of 3 @onnx_function functions and 1 module: default, explicit default, explicit None with a non-None default, other static values, two call sites",
             "note": f"the tracing-time substitute of an @onnx_function target (closure built by _make_patch_fn) is not under contract; the real export is run on the enumerated call forms; {detail}"[:500]}
        if holds is False:
            d.update(args={"witness": "C19_function_target_kwargs_family"}, replay={"reproduced": True, "detail": detail}, formula="", model=detail)
        out["obls"].append(d)
        holds, detail = run_witness("D43", timeout=900)
        d = {"oid": "jax2onnx.plugins.flax.nnx.dot_product_attention:DotProductAttentionPlugin.lower#bounded:is_causal_is_honoured_or_rejected", "kind": "bounded",
             "status": "discharged" if holds else ("refuted" if holds is False else "unknown"), "backend": "enumerated", "time": time.time() - t0, "instances": 1, "trivial": 0,
             "bounded": "nnx.dot_product_attention(q, k, v, is_causal=True/False) on q,k,v[1,4,2,8]",
             "note": f"the forwarding contract ends at primitive.bind; what the lowering does with a forwarded parameter is not under contract; {detail}"[:500]}
        if holds is False:
            d.update(args={"witness": "D43"}, replay={"reproduced": True, "detail": detail}, formula="", model=detail)
        out["obls"].append(d)
        for oname, target, wn, bound in (("an_explicit_result_type_is_honoured_or_rejected", "jax2onnx.plugins.jax.numpy.mean:JnpMeanPlugin.lower", "D46", "jnp.mean(a, dtype=float16) with and without axis on a[2,3]"),
                                         ("positional_bias_and_mask_are_bound_as_in_flax", "jax2onnx.plugins.flax.nnx.dot_product_attention:DotProductAttentionPlugin.binding_specs", "D47",
                                          "nnx.dot_product_attention(q, k, v, bias), (q, k, v, bias, mask) and the keyword form on q,k,v[1,4,2,8]")):
            holds, detail = run_witness(wn, timeout=900)
            d = {"oid": f"{target}#bounded:{oname}", "kind": "bounded", "status": "discharged" if holds else ("refuted" if holds is False else "unknown"),
                 "backend": "enumerated", "time": time.time() - t0, "instances": 1, "trivial": 0, "bounded": bound,
                 "note": f"call-form subsumption compares signatures, not what the lowering does with an accepted argument; the real export is compared with the library; {detail}"[:500]}
            if holds is False:
                d.update(args={"witness": wn}, replay={"reproduced": True, "detail": detail}, formula="", model=detail)
            out["obls"].append(d)
        out["paths"], out["time"] = 1, time.time() - t0
        return out
    w.add_contract(Contract("jax2onnx.plugins.plugin_system:<bounded-function-target-kwargs>", kind="custom", custom=bounded_targets, props=["C19"], witnesses=["C19_function_target_kwargs_family", "D43", "D46", "D47"]))
