"""C02 — the optimizer never changes what a model computes.

Level 1: operator tables of the code ⊆ specification tables (finite, enumerated).
Level 2: guard kernels (permutation inverse, shape compatibility, scalar side operands, escape test).
Level 3: rewrite transactions (contracts/c02_txn.py).
"""
from __future__ import annotations

import ast
import z3

from pyvc.vals import *  # noqa
from pyvc.core import *  # noqa
from pyvc.world import Contract, Ctx
from pyvc.stmts import LoopSpec
from pyvc import source as S
from specs import onnx_ops as OPS
from specs import ctxmodel, graph as GM
from specs.ctxmodel import VALUE, SHAPE, IRDIM, IRSYM
from specs.graph import NODE, GRAPH

MO = "jax2onnx.converter.ir_optimizations"


def code_table(name):
    st = S.load_module(MO).toplevel.get(name)
    if st is None:
        raise S.ToolError(f"{MO}.{name} not found")
    v = st.value
    if isinstance(v, ast.Call):  # frozenset({...})
        v = v.args[0]
    return set(ast.literal_eval(v))


def register(w):
    M = ctxmodel.register(w)
    G = GM.register(w)
    sel = z3.Select

    # ------------------------------------------------------------------ Level 1: tables
    def table(name, pred, why):
        def lemma(world):
            bad = sorted(op for op in code_table(name) if not pred(op))
            world.table_notes = getattr(world, "table_notes", {})
            world.table_notes[name] = bad
            return z3.BoolVal(not bad)
        return (f"{name}_{why}", lemma)

    pointwise_any = lambda op: op in OPS.UNARY_POINTWISE or op in OPS.NARY_POINTWISE or op in OPS.POINTWISE_IN_INPUT0  # noqa: E731
    w.add_contract(Contract(f"{MO}:<operator-tables>", kind="lemma", props=["C02", "C12"], witnesses=["C02_table_family"], ensures=[
        table("ELEMENTWISE_UNARY_OPS", lambda op: op in OPS.UNARY_POINTWISE or op in OPS.POINTWISE_IN_INPUT0, "are_pointwise_in_their_data_input"),
        table("ELEMENTWISE_BINARY_OPS", lambda op: op in OPS.NARY_POINTWISE or op in OPS.POINTWISE_IN_INPUT0, "are_pointwise_with_broadcasting"),
        table("ALLOWED_ELEMWISE", pointwise_any, "are_pointwise"),
        table("ALLOWED_ELEMWISE", lambda op: OPS.single_output_in_every_version(op), "have_exactly_one_output_in_every_opset"),
        table("ELEMENTWISE_UNARY_OPS", lambda op: OPS.single_output_in_every_version(op), "have_exactly_one_output_in_every_opset"),
        table("ELEMENTWISE_BINARY_OPS", lambda op: OPS.single_output_in_every_version(op), "have_exactly_one_output_in_every_opset"),
        table("_INTEGER_VALUE_PRESERVING_OPS", lambda op: op in GM.PRESERVING_OPS_SPEC, "only_move_elements"),
        ("ALLOWED_ELEMENTWISE_OPS_is_the_lowercase_table", lambda world: z3.BoolVal({x.lower() for x in code_table("ALLOWED_ELEMWISE")} == code_table("ALLOWED_ELEMENTWISE_OPS"))),
    ]))
    w.add_contract(Contract(f"{MO}:<shape-propagation-tables>", kind="lemma", props=["C08"], ensures=[
        table("UNARY_DATAFLOW_OPS", lambda op: op in OPS.SHAPE_PRESERVING_IN_INPUT0, "keep_the_shape_of_input_0"),
        table("UNARY_DATAFLOW_OPS", lambda op: op in OPS.DTYPE_PRESERVING_IN_INPUT0 or op in ("Cast", "CastLike"), "keep_the_dtype_of_input_0_or_are_handled_shape_only"),
    ]))

    # ------------------------------------------------------------------ Level 2: kernels
    # _is_inverse_perm(p1, p2)  =>  same length and p1[p2[k]] = k  (the hypothesis of A1: Tr(p2, Tr(p1, x)) = x)
    def post_inverse(c: Ctx):
        p1, p2 = c["perm1"], c["perm2"]
        k = z3.Int("k")
        return z3.Implies(c.result.term, z3.And(p1.length == p2.length, z3.ForAll([k], z3.Implies(z3.And(0 <= k, k < p2.length), sel(p1.arrs[0], sel(p2.arrs[0], k)) == k))))

    def req_perms(c: Ctx):
        p1, p2 = c["perm1"], c["perm2"]
        k = z3.Int("k")
        return z3.And(z3.ForAll([k], z3.Implies(z3.And(0 <= k, k < p2.length), z3.And(0 <= sel(p2.arrs[0], k), sel(p2.arrs[0], k) < p2.length))),
                      z3.ForAll([k], z3.Implies(z3.And(0 <= k, k < p1.length), z3.And(0 <= sel(p1.arrs[0], k), sel(p1.arrs[0], k) < p1.length))))

    def replay_inverse(model, args):
        import importlib
        import itertools
        mod = importlib.import_module(MO)
        for n in range(0, 5):
            for a in itertools.permutations(range(n)):
                for b in itertools.permutations(range(n)):
                    got = mod._is_inverse_perm(list(a), list(b))
                    want = all(a[b[k]] == k for k in range(n))
                    if bool(got) and not want:
                        return True, f"_is_inverse_perm({list(a)}, {list(b)}) returned True but perm1[perm2[k]] != k"
        if mod._is_inverse_perm([0, 1], [0, 1, 2]):
            return True, "_is_inverse_perm accepted permutations of different length"
        return False, "all permutation pairs up to rank 4 consistent"

    w.add_contract(Contract(
        f"{MO}:_is_inverse_perm", params={"perm1": Seq(Int), "perm2": Seq(Int)},
        requires=[("valid_permutation_entries", req_perms)], ensures=[("composition_is_identity", post_inverse)],
        raises=set(), ret=Bool, props=["C02", "C12"], replay=replay_inverse,
    ))

    # _symbolic_dim_name / _shape_dims_seq / _shapes_compatible
    symval = lambda ex, r: (sel(ex.heap_arrays(IRSYM, "value")[0], r), sel(ex.heap_arrays(IRSYM, "value")[1], r))  # noqa: E731

    def same_extent(ex, da, db):
        """two declared dims certainly denote the same run-time extent: equal ints, or the same non-empty symbol"""
        (ta, ia, sa), (tb, ib, sb) = da, db
        na, va = symval(ex, sa)
        nb, vb = symval(ex, sb)
        return z3.Or(z3.And(ta == 0, tb == 0, ia == ib),
                     z3.And(ta == 1, tb == 1, z3.Not(na), z3.Not(nb), va == vb, z3.Length(va) > 0))

    def dims_of(ex, value_term):
        shp = sel(ex.heap_arrays(VALUE, "shape")[0], value_term)
        d = ex.heap_arrays(SHAPE, "dims")
        return shp, [sel(x, shp) for x in d]

    def post_compatible(c: Ctx):
        a, b = c["a"], c["b"]
        if isinstance(a, VNone) or isinstance(b, VNone):
            return z3.Not(c.result.term)
        ex = c.ex
        sa, (ta, ia, ya, na) = dims_of(ex, a.term)
        sb, (tb, ib, yb, nb) = dims_of(ex, b.term)
        k = z3.Int("k")
        return z3.Implies(c.result.term, z3.And(sa != null_of(SHAPE), sb != null_of(SHAPE), na == nb,
                                                 z3.ForAll([k], z3.Implies(z3.And(0 <= k, k < na), same_extent(ex, (sel(ta, k), sel(ia, k), sel(ya, k)), (sel(tb, k), sel(ib, k), sel(yb, k)))))))
    w.c02_same_extent, w.c02_dims_of = same_extent, dims_of

    def inv_compatible(lc):
        ex = lc.ex
        a, b = lc["a"], lc["b"]
        sa, (ta, ia, ya, na) = dims_of(ex, a.term)
        sb, (tb, ib, yb, nb) = dims_of(ex, b.term)
        k = z3.Int("k")
        return [("prefix_same_extent", z3.ForAll([k], z3.Implies(z3.And(0 <= k, k < lc.idx), same_extent(ex, (sel(ta, k), sel(ia, k), sel(ya, k)), (sel(tb, k), sel(ib, k), sel(yb, k))))))]

    w.add_contract(Contract(
        f"{MO}:_shapes_compatible", params={"a": Opt(Ref(VALUE)), "b": Opt(Ref(VALUE))},
        ensures=[("true_only_if_equal_for_every_binding", post_compatible)], raises=set(), ret=Bool,
        props=["C02", "C04"], witnesses=["D4"], loops={0: LoopSpec(invariant=lambda lc: inv_compatible(lc), label="dims")},
    ))
    register_kernels2(w)


def register_kernels2(w):
    """escape test, scalar side operands"""
    M = w.ctxmodel
    G = w.graph
    sel = z3.Select
    w.fields[(GRAPH, "outputs")] = Seq(Ref(VALUE))
    w.fields[(GRAPH, "inputs")] = Seq(Ref(VALUE))
    V, N = ref_sort(VALUE), ref_sort(NODE)
    nested_ref = w.fn("nested_graph_references", V, z3.IntSort(), z3.BoolSort())     # (value, heap version)
    scalar_const = w.fn("is_scalar_constant", V, z3.IntSort(), z3.BoolSort())
    w.c02_preds = dict(nested_ref=nested_ref, scalar_const=scalar_const)

    def rauw_frame(ex, a, b, hv_old, hv_new):
        # replace_all_uses_with(a, b) changes who refers to a and b only; constants stay constants
        v = z3.Const("v!rf", V)
        ex.pc.append(z3.ForAll([v], z3.Implies(z3.And(v != a.term, v != b.term), nested_ref(v, hv_new) == nested_ref(v, hv_old)), patterns=[nested_ref(v, hv_new)]))
        ex.pc.append(z3.ForAll([v], scalar_const(v, hv_new) == scalar_const(v, hv_old), patterns=[scalar_const(v, hv_new)]))
    w.rauw_frame_hooks = list(getattr(w, "rauw_frame_hooks", [])) + [rauw_frame]
    w.trust("replace_all_uses_with(a, b) changes neither which nested bodies refer to other values nor which values are constants")

    def hv(ex):
        return ex.ghost.get("heap_version", z3.IntVal(0))
    w.c02_hv = hv

    # _v_name: the value's name, or None for missing/empty
    def post_vname(c: Ctx):
        v, r = c["v"], c.result
        if isinstance(v, VNone):
            return z3.BoolVal(isinstance(r, VNone))
        if not isinstance(v, VRef):
            return z3.BoolVal(True)
        na = c.ex.heap_arrays(VALUE, "name")
        isnone, nm = sel(na[0], v.term), sel(na[1], v.term)
        if isinstance(r, VNone):
            return z3.Or(isnone, z3.Length(nm) == 0)
        if isinstance(r, VOpt):      # unforced result (element expression of a symbolic comprehension)
            return z3.And(r.isnone == z3.Or(isnone, z3.Length(nm) == 0), z3.Implies(z3.Not(r.isnone), r.val.term == nm))
        return z3.And(z3.Not(isnone), r.term == nm, z3.Length(nm) > 0)
    w.add_contract(Contract("jax2onnx.converter.optimizer_graph_utils:_v_name", params={"v": Opt(Ref(VALUE))}, ret=Opt(Str),
                            ensures=[("is_the_nonempty_name", post_vname)], raises=set(), props=["C02"]))

    w.add_contract(Contract(
        f"{MO}:_nested_graph_references_value", params={"nodes": Seq(Ref(NODE)), "value": Ref(VALUE)}, ret=Bool, assumed=True,
        ensures=[("is", lambda c: c.result.term == nested_ref(c["value"].term, hv(c.ex)))],
        note="whether a subgraph attribute (If/Loop/Scan body) of one of the nodes reads the value, by identity or by name (recursive walk over onnx_ir graph attributes)",
    ))

    def observed_as_output(ex, graph_term, value_term):
        o = ex.heap_arrays(GRAPH, "outputs")
        arr, n = sel(o[0], graph_term), sel(o[1], graph_term)
        k = z3.Int("k!go")
        na = ex.heap_arrays(VALUE, "name")
        named = lambda t: z3.And(z3.Not(sel(na[0], t)), z3.Length(sel(na[1], t)) > 0)  # noqa: E731
        same = z3.Or(sel(arr, k) == value_term, z3.And(named(value_term), named(sel(arr, k)), sel(na[1], sel(arr, k)) == sel(na[1], value_term)))
        return z3.Exists([k], z3.And(0 <= k, k < n, same))
    w.c02_observed_as_output = observed_as_output

    def inv_go(lc):
        ex = lc.ex
        o = ex.heap_arrays(GRAPH, "outputs")
        arr = sel(o[0], lc["graph"].term)
        k = z3.Int("k")
        v = lc["value"].term
        na = ex.heap_arrays(VALUE, "name")
        named = lambda t: z3.And(z3.Not(sel(na[0], t)), z3.Length(sel(na[1], t)) > 0)  # noqa: E731
        return [("no_match_so_far", z3.ForAll([k], z3.Implies(z3.And(0 <= k, k < lc.idx), z3.And(sel(arr, k) != v, z3.Not(z3.And(named(v), named(sel(arr, k)), sel(na[1], sel(arr, k)) == sel(na[1], v)))))))]

    def post_go(c: Ctx):
        v = c["value"]
        if isinstance(v, VNone):
            return z3.Not(c.result.term)
        return c.result.term == observed_as_output(c.ex, c["graph"].term, v.term)

    w.add_contract(Contract(
        f"{MO}:_value_is_graph_output", params={"graph": Ref(GRAPH), "value": Opt(Ref(VALUE))},
        loops={0: LoopSpec(invariant=inv_go, label="outputs")},
        ensures=[("iff_listed_by_identity_or_name", post_go)], raises=set(), ret=Bool, props=["C02"],
    ))

    def post_escapes(c: Ctx):
        v = c["value"]
        if isinstance(v, VNone):
            return z3.Not(c.result.term)
        return c.result.term == z3.Or(observed_as_output(c.ex, c["graph"].term, v.term), nested_ref(v.term, hv(c.ex)))

    w.add_contract(Contract(
        f"{MO}:_value_escapes", params={"graph": Ref(GRAPH), "nodes": Seq(Ref(NODE)), "value": Opt(Ref(VALUE))},
        ensures=[("iff_graph_output_or_nested_reference", post_escapes)], raises=set(), ret=Bool, props=["C02", "C03"], witnesses=["D3a", "D3e", "D13"],
    ))

    w.add_contract(Contract(
        f"{MO}:_is_scalar_const_value", params={"val": Opt(Ref(VALUE))}, ret=Bool, assumed=True,
        ensures=[("is", lambda c: z3.Not(c.result.term) if isinstance(c["val"], VNone) else c.result.term == scalar_const(c["val"].term, hv(c.ex)))],
        note="a constant payload with exactly one element, or an initializer whose declared dims are all 1 (broadcasts against any layout)",
    ))

    def inv_side(lc):
        ex = lc.ex
        ins = ex.read_field(lc["node"], "inputs")
        k = z3.Int("k")
        dv = lc["data_value"]
        dterm = dv.term if isinstance(dv, VRef) else null_of(VALUE)
        op = sel(ex.heap_arrays(NODE, "op_type")[0], lc["node"].term)
        ok = lambda j: z3.Or(sel(ins.arrs[0], j) == null_of(VALUE), sel(ins.arrs[0], j) == dterm, z3.And(op == z3.StringVal("CastLike"), j == 1), scalar_const(sel(ins.arrs[0], j), hv(ex)))  # noqa: E731
        return [("prefix_ok", z3.ForAll([k], z3.Implies(z3.And(0 <= k, k < lc.idx), ok(k))))]

    def post_side(c: Ctx):
        ex = c.ex
        ins = ex.read_field(c["node"], "inputs")
        k = z3.Int("k")
        dv = c["data_value"]
        dterm = dv.term if isinstance(dv, VRef) else null_of(VALUE)
        op = sel(ex.heap_arrays(NODE, "op_type")[0], c["node"].term)
        ok = z3.Or(sel(ins.arrs[0], k) == null_of(VALUE), sel(ins.arrs[0], k) == dterm, z3.And(op == z3.StringVal("CastLike"), k == 1), scalar_const(sel(ins.arrs[0], k), hv(ex)))
        return z3.Implies(c.result.term, z3.ForAll([k], z3.Implies(z3.And(0 <= k, k < ins.length), ok)))

    w.add_contract(Contract(
        f"{MO}:_side_inputs_are_scalar", params={"node": Ref(NODE), "data_value": Opt(Ref(VALUE))},
        loops={0: LoopSpec(invariant=inv_side, label="inputs")},
        ensures=[("every_other_operand_is_a_broadcast_scalar", post_side)], raises=set(), ret=Bool, props=["C02", "C12"], witnesses=["D1", "D2"],
    ))
