"""onnx_ir graph objects and numpy arrays as heap sorts with relational
contracts (DESIGN §3.4/§3.5).  Everything here is *assumed* and listed in the
trusted base; a thorough-tier conformance suite runs the same statements
against the installed onnx_ir / numpy.

Ghost semantics: `in_vals(v, e)` — the integer e is an element of the tensor
that value v holds at run time (for one arbitrary, fixed run of the model).
"""
from __future__ import annotations

import z3

from pyvc.vals import *  # noqa
from pyvc.core import *  # noqa
from pyvc.world import Contract, Ctx

NODE, VALUE, GRAPH, ATTR, ARR, SHAPE, TTYPE, DIM = "Node", "Value", "Graph", "Attr", "NdArray", "Shape", "TensorType", "SymDim"
MO = "jax2onnx.converter.ir_optimizations"
MG = "jax2onnx.converter.optimizer_graph_utils"

PRESERVING_OPS_SPEC = ("Expand", "Flatten", "Identity", "Reshape", "Squeeze", "Transpose", "Unsqueeze")


class GraphModel:
    def __init__(self, w):
        self.w = w
        f = w.fields
        f[(NODE, "op_type")] = Str
        f[(NODE, "domain")] = Str
        f[(NODE, "name")] = Opt(Str)
        f[(NODE, "inputs")] = Seq(Opt(Ref(VALUE)))
        f[(NODE, "outputs")] = Seq(Ref(VALUE))
        f[(VALUE, "name")] = Opt(Str)
        f[(VALUE, "dtype")] = Opt(Enum("DataType"))
        f[(ARR, "size")] = Int
        f[(ARR, "kind")] = Str
        f[(ARR, "ndim")] = Int
        w.ref_classes[NODE] = {"onnx_ir.Node"}
        w.ref_classes[VALUE] = {"onnx_ir.Value"}
        w.ref_classes[GRAPH] = {"onnx_ir.Graph"}
        w.ref_classes[ATTR] = {"onnx_ir.Attr"}
        w.ref_classes[ARR] = {"numpy.ndarray"}
        w.class_sorts.update({"onnx_ir.Node": NODE, "onnx_ir.Value": VALUE, "onnx_ir.Graph": GRAPH, "onnx_ir.Attr": ATTR})
        self.Node, self.Value, self.Arr = ref_sort(NODE), ref_sort(VALUE), ref_sort(ARR)
        self.in_vals = w.fn("in_vals", self.Value, z3.IntSort(), z3.BoolSort())
        self.arr_has = w.fn("arr_has", self.Arr, z3.IntSort(), z3.BoolSort())
        self.arr_first = w.fn("arr_first", self.Arr, z3.IntSort())
        self.arr_min = w.fn("arr_min", self.Arr, z3.IntSort())
        self.arr_max = w.fn("arr_max", self.Arr, z3.IntSort())
        a, e = z3.Const("a!ar", self.Arr), z3.Int("e!ar")
        w.add_axiom(z3.ForAll([a, e], z3.Implies(self.arr_has(a, e), z3.And(self.arr_min(a) <= e, e <= self.arr_max(a))), patterns=[self.arr_has(a, e)]))
        w.trust("numpy: for an integer array, every element lies between .min() and .max(); reshape(-1)[0] of a size-1 array is its only element")
        w.trust("onnx_ir object model: Node.op_type/domain/inputs/outputs, Value.name/dtype are plain attributes (specs/graph.py)")
        self._install_numpy()

    # ---------------------------------------------------------------- numpy
    def _install_numpy(self):
        w = self.w
        w.path_models["numpy.asarray"] = lambda ex, args, kw: args[0]

        def arr_method(ex, recv, name, args, kw):
            if not (isinstance(recv, VRef) and recv.sort == ARR):
                return None
            if name == "reshape":
                return (recv,)  # element multiset unchanged; only `flat` views are used
            if name == "min":
                return (VInt(self.arr_min(recv.term)),)
            if name == "max":
                return (VInt(self.arr_max(recv.term)),)
            if name == "tolist":
                raise OutOfSubset("ndarray.tolist")
            return None
        w.method_hooks.append(arr_method)
        w.known_methods = set(getattr(w, "known_methods", set())) | {(ARR, "reshape"), (ARR, "min"), (ARR, "max"), (ARR, "tolist")}

        def arr_getitem(ex, base, idx):
            if isinstance(base, VRef) and base.sort == ARR:
                it = ex.as_int_term(idx)
                if it is None:
                    return None
                if ex.branch(z3.Or(it < -ex.read_field(base, "size").term, it >= ex.read_field(base, "size").term)):
                    raise PyRaise("IndexError")
                its = z3.simplify(it)
                if z3.is_int_value(its) and its.as_long() == 0:
                    return VInt(self.arr_first(base.term))
                raise OutOfSubset("ndarray index other than [0]")
            return None
        w.getitem_hooks.append(arr_getitem)

        def int_hook(ex, v):
            return None
        w.fields[(ARR, "dtype")] = Ref("NpDtype")
        w.fields[("NpDtype", "kind")] = Str

    # ---------------------------------------------------------------- heap views
    def arrays(self, ex, sort, field):
        return ex.heap_arrays(sort, field)

    def op_type(self, ex, n):
        return z3.Select(self.arrays(ex, NODE, "op_type")[0], n)

    def domain(self, ex, n):
        return z3.Select(self.arrays(ex, NODE, "domain")[0], n)

    def n_inputs(self, ex, n):
        return z3.Select(self.arrays(ex, NODE, "inputs")[1], n)

    def input(self, ex, n, i):
        return z3.Select(z3.Select(self.arrays(ex, NODE, "inputs")[0], n), i)

    def n_outputs(self, ex, n):
        return z3.Select(self.arrays(ex, NODE, "outputs")[1], n)

    def output(self, ex, n, i):
        return z3.Select(z3.Select(self.arrays(ex, NODE, "outputs")[0], n), i)

    def produces(self, ex, n, v):
        i = z3.Int("i!pr")
        return z3.Exists([i], z3.And(0 <= i, i < self.n_outputs(ex, n), self.output(ex, n, i) == v))

    # ---------------------------------------------------------------- semantic axioms (A12, A13)
    def axiom_value_preserving_ops(self, ex):
        """A13: for the shape-only operators of the ONNX default domain, every
        element of the output is an element of input 0."""
        n, v, e = z3.Const("n!a13", self.Node), z3.Const("v!a13", self.Value), z3.Int("e!a13")
        op = self.op_type(ex, n)
        is_pres = z3.Or([op == z3.StringVal(o) for o in PRESERVING_OPS_SPEC])
        return z3.ForAll([n, v, e], z3.Implies(
            z3.And(self.produces(ex, n, v), is_pres, self.domain(ex, n) == z3.StringVal(""), self.n_inputs(ex, n) >= 1, self.in_vals(v, e)),
            self.in_vals(self.input(ex, n, 0), e)))

    def axiom_range(self, ex):
        """A12: Range(start, limit, delta) emits start + i*delta (i >= 0) while the
        value is on the start side of the exclusive limit."""
        n, v, e = z3.Const("n!a12", self.Node), z3.Const("v!a12", self.Value), z3.Int("e!a12")
        i, s, l, d = z3.Ints("i!a12 s!a12 l!a12 d!a12")
        return z3.ForAll([n, v, e], z3.Implies(
            z3.And(self.produces(ex, n, v), self.op_type(ex, n) == z3.StringVal("Range"), self.domain(ex, n) == z3.StringVal(""), self.n_inputs(ex, n) >= 3, self.in_vals(v, e)),
            z3.Exists([i, s, l, d], z3.And(
                i >= 0, self.in_vals(self.input(ex, n, 0), s), self.in_vals(self.input(ex, n, 1), l), self.in_vals(self.input(ex, n, 2), d),
                e == s + i * d, z3.Implies(d > 0, e < l), z3.Implies(d < 0, e > l), d != 0))))


def register(w):
    if getattr(w, "graph", None) is not None:
        return w.graph
    G = GraphModel(w)
    w.graph = G
    w.trust("A12 Range semantics, A13 value-set monotonicity of Expand/Flatten/Identity/Reshape/Squeeze/Transpose/Unsqueeze (ONNX operator documentation)")

    # ---- assumed contracts of graph helpers -------------------------------------
    def post_to_numpy(c: Ctx):
        r, x = c.result, c["x"]
        if isinstance(r, VNone) or not (isinstance(x, VRef) and x.sort == VALUE):
            return z3.BoolVal(True)
        e = z3.Int("e!tn")
        size = c.field(r, "size").term
        return z3.And(
            size >= 0,
            z3.ForAll([e], z3.Implies(G.in_vals(x.term, e), G.arr_has(r.term, e))),
            z3.Implies(size == 1, z3.ForAll([e], z3.Implies(G.arr_has(r.term, e), e == G.arr_first(r.term)))),
        )

    w.add_contract(Contract(
        f"{MO}:_to_numpy_from_any", params={"x": Opt(Ref(VALUE))}, ret=Opt(Ref(ARR)), uf=True, reads_heap=True, assumed=True,
        ensures=[("constant_payload_is_runtime_value", post_to_numpy)],
        note="a Value for which a numpy payload is found is a compile-time constant: its run-time elements are the payload's elements",
    ))

    def post_producer(c: Ctx):
        r, v = c.result, c["value_or_name"]
        if isinstance(r, VNone) or not isinstance(v, VRef):
            return z3.BoolVal(True)
        return G.produces(c.ex, r.term, v.term)

    w.add_contract(Contract(
        f"{MG}:_producer_node", params={"nodes": Seq(Ref(NODE)), "value_or_name": Opt(Ref(VALUE))}, ret=Opt(Ref(NODE)), uf=True, reads_heap=True, assumed=True,
        ensures=[("result_produces_value", post_producer)],
        note="returns a node having the value among its outputs (value names are unique after NameFixPass), or None",
    ))
    return G
