"""Opaque external objects: library objects whose behaviour the proof does not
depend on (ORT sessions, jax pytrees, loggers).  Every attribute read and
call on an opaque yields a fresh opaque; truthiness/equality/isinstance are
unconstrained Booleans.  Assumption (listed): operations on opaque objects do
not modify any state modelled elsewhere (heap fields, ghost cells).  Opaque
calls are NOT modelled as raising: contracts verified with opaques state
partial correctness only (no `raises` clause)."""
from __future__ import annotations

import z3

from pyvc.vals import *  # noqa
from pyvc.core import *  # noqa

OPQ = "Opaque"


def fresh_opaque(ex) -> VRef:
    return VRef(OPQ, ex.fresh_const("opq", ref_sort(OPQ)))


def is_opaque(v) -> bool:
    return isinstance(v, VRef) and v.sort == OPQ


EMIT = "Emitter"   # opaque objects through which the graph under construction can be changed (ctx, builder)


def is_emitter(v) -> bool:
    return isinstance(v, VRef) and v.sort == EMIT


def fresh_emitter(ex) -> VRef:
    return VRef(EMIT, ex.fresh_const("emitter", ref_sort(EMIT)))


def note_emission(ex, what: str):
    """a call that can emit nodes / bind values happened on this path"""
    ex.events.append(("emission", what, ex.cur_line))
    hook = getattr(ex.world, "on_emission", None)
    if hook is not None:
        hook(ex, what)


def install(w):
    if getattr(w, "_opaque_installed", False):
        return
    w._opaque_installed = True
    ref_sort(OPQ)
    w.trust("operations on opaque library objects (ORT session, jax pytrees, loggers) do not modify modelled state and are not modelled as raising")

    def call_ref(ex, fn, a, k):
        if is_emitter(fn):
            note_emission(ex, "call on the lowering context")
            return (fresh_emitter(ex),)
        if is_opaque(fn):
            if any(is_emitter(x) for x in list(a) + list(k.values())):
                note_emission(ex, "lowering context passed to an opaque callee")
            return (fresh_opaque(ex),)
        return None
    w.call_ref_hooks.append(call_ref)
    for lst, mk in ((w.truthy_hooks, lambda ex, v: z3.Bool(ex.fresh_name("emt_truthy")) if is_emitter(v) else None),):
        lst.append(mk)
    w.isinstance_hooks.append(lambda ex, v, nm: z3.Bool(ex.fresh_name("emt_isinstance")) if is_emitter(v) else None)
    w.hasattr_hooks.append(lambda ex, v, nm: z3.Bool(ex.fresh_name("emt_hasattr")) if is_emitter(v) else None)
    w.getitem_hooks.append(lambda ex, base, idx: fresh_emitter(ex) if is_emitter(base) else None)
    w.truthy_hooks.append(lambda ex, v: z3.Bool(ex.fresh_name("opq_truthy")) if is_opaque(v) else None)
    w.isinstance_hooks.append(lambda ex, v, nm: z3.Bool(ex.fresh_name("opq_isinstance")) if is_opaque(v) else None)
    w.hasattr_hooks.append(lambda ex, v, nm: z3.Bool(ex.fresh_name("opq_hasattr")) if is_opaque(v) else None)
    w.getitem_hooks.append(lambda ex, base, idx: fresh_opaque(ex) if is_opaque(base) else None)
    w.setitem_hooks.append(lambda ex, base, idx, v: True if is_opaque(base) else False)
    def anyopq(*vs):
        return any(is_opaque(v) or is_emitter(v) for v in vs)

    w.binop_hooks.append(lambda ex, op, a, b: fresh_opaque(ex) if anyopq(a, b) else None)
    w.compare_hooks.append(lambda ex, op, a, b: VBool(z3.Bool(ex.fresh_name("opq_cmp"))) if anyopq(a, b) else None)
    w.unary_hooks.append(lambda ex, op, v: (VBool(z3.Not(ex.truthy(v))) if op.__class__.__name__ == "Not" else fresh_opaque(ex)) if anyopq(v) else None)

    w.callable_hooks.append(lambda ex, v: VBool(z3.Bool(ex.fresh_name("opq_callable"))) if anyopq(v) else None)

    def len_hook(ex, v):
        if anyopq(v):
            n = ex.fresh_const("opq_len", z3.IntSort())
            ex.assume(n >= 0)
            return VInt(n)
        return None
    w.len_hooks.append(len_hook)

    def int_hook(ex, v):
        if anyopq(v):
            return VInt(ex.fresh_const("opq_int", z3.IntSort()))
        return None
    w.int_hooks.append(int_hook)

    def iter_hook(ex, it):
        if anyopq(it):
            s = ex.fresh("opq_items", Seq(Ref(EMIT if is_emitter(it) else OPQ)))
            ex.assume(s.length >= 0)
            return s
        return None
    w.iter_hooks.append(iter_hook)
    w.opaque = True
