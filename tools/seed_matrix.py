"""Run the registered quick checks against every seeded change (scratch copy of /repo, never /repo itself)
and record which check reports what.   usage: python3 tools/seed_matrix.py [seed-name-substring ...]
Writes seeded/MATRIX.json and prints one line per (seed, property)."""
import concurrent.futures as cf
import json
import os
import re
import subprocess
import sys

V = os.path.dirname(os.path.dirname(os.path.abspath(__file__)))
claimed = [c["property_id"] for c in json.load(open(os.path.join(V, "MANIFEST.json")))["checks"]]


def props_of(meta):
    ids = re.findall(r"C\d\d", str(meta.get("breaks_property", "")) + " " + " ".join(meta.get("also_run", [])))
    out = []
    for i in ids:
        if i not in out:
            out.append(i)
    return out


def run(seed, pid):
    d = os.path.join(V, "seeded", seed)
    if pid not in claimed:
        return seed, pid, {"exit": None, "lines": ["not claimed"]}
    p = subprocess.run([os.path.join(V, "tools", "with_patch.sh"), os.path.join(d, "patch.diff"), "--", "./check", pid, "--tier", "quick"], capture_output=True, text=True, cwd=V)
    lines = [l for l in p.stdout.splitlines() if re.match(r"^(VIOLATION|UNDECIDED|TOOL-ERROR|C\d\d:)", l)]
    lines = [re.sub(r"/tmp/wp-\w+/", "<scratch>/", l) for l in lines]
    return seed, pid, {"exit": p.returncode, "lines": lines[:12]}


def main():
    pats = sys.argv[1:]
    jobs = []
    for seed in sorted(os.listdir(os.path.join(V, "seeded"))):
        mp = os.path.join(V, "seeded", seed, "meta.json")
        if not os.path.isfile(mp) or (pats and not any(p in seed for p in pats)):
            continue
        for pid in props_of(json.load(open(mp))):
            jobs.append((seed, pid))
    path = os.path.join(V, "seeded", "MATRIX.json")
    try:
        matrix = json.load(open(path))
    except FileNotFoundError:
        matrix = {}
    with cf.ThreadPoolExecutor(int(os.environ.get("MATRIX_JOBS", "3"))) as ex:
        for seed, pid, r in ex.map(lambda j: run(*j), jobs):
            matrix.setdefault(seed, {})[pid] = r
            verdict = {0: "MISSED", 1: "DETECTED", 2: "undecided", 3: "tool-error", None: "n/a"}.get(r["exit"], str(r["exit"]))
            viol = [l for l in r["lines"] if l.startswith("VIOLATION")]
            print(f"{seed:14s} {pid} {verdict:10s} {viol[0][:160] if viol else (r['lines'][-1][:160] if r['lines'] else '')}", flush=True)
    json.dump(matrix, open(path, "w"), indent=1, sort_keys=True)


main()
