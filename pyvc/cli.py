from __future__ import annotations

import argparse
import json
import os
import sys


def main():
    sys.setrecursionlimit(20000)
    ap = argparse.ArgumentParser()
    ap.add_argument("what")
    ap.add_argument("rest", nargs="*")
    ap.add_argument("--tier", default=os.environ.get("VERIF_TIER", "quick"))
    a = ap.parse_args()
    seed = int(os.environ.get("VERIF_SEED", "0") or 0)
    import props
    from pyvc import run
    if a.what == "replay":
        with open(a.rest[0]) as f:
            body = json.load(f)
        print(json.dumps(body, indent=1)[:4000])
        if body.get("witness"):
            holds, detail = run.run_witness(body["witness"]["name"])
            print("witness", body["witness"]["name"], "->", "HOLDS" if holds else "FAILS", detail)
            sys.exit(0 if holds else 1)
        pid = body["property"]
        rc = run.check_property(pid, props.SPECS[pid], "quick", seed)
        sys.exit(rc)
    if a.what == "ledger":
        run.write_ledger(a.rest or sorted(props.SPECS), props.SPECS)
        return
    pid = a.what
    if pid not in props.SPECS:
        print(f"TOOL-ERROR unknown property {pid}")
        sys.exit(3)
    tier = a.tier if a.tier in ("quick", "thorough") else "quick"
    sys.exit(run.check_property(pid, props.SPECS[pid], tier, seed))


if __name__ == "__main__":
    main()
