"""Opset-dominance verification conditions (DESIGN §4.11, "opset-slice mode").

For every emission site of an operator whose first ONNX version is newer
than the baseline opset, the conditions that dominate the site in the AST
(enclosing if/elif/else arms, earlier `if c: return/raise/continue` exits,
left operands of `and`, definitions of single-assignment Boolean locals) are
translated to a formula over one integer OPSET plus free Boolean atoms, and
    dominating conditions  ⇒  OPSET >= since(op)
is discharged by z3.  Dominating conditions are necessary conditions of every
path that reaches the site, so a proof is sound for all paths (loops, calls
and everything not about the opset are over-approximated by free atoms).

Assumed: expressions recognised as "the opset" (builder.opset, ctx.opset,
_builder_opset(...), _graph_default_opset(...), int(...) of those, `x or 0`)
all denote the opset declared for the model being built.
"""
from __future__ import annotations

import ast
import z3

OPSET = z3.Int("OPSET")


def first_versions(min_since=22):
    import onnx.defs as D
    first = {}
    for s in D.get_all_schemas_with_history():
        if s.domain == "":
            first[s.name] = min(first.get(s.name, 10 ** 6), s.since_version)
    return {k: v for k, v in first.items() if v >= min_since}


def _is_opset_expr(n, opset_names) -> bool:
    if isinstance(n, ast.Name):
        return n.id in opset_names
    if isinstance(n, ast.Attribute):
        return n.attr in ("opset", "opset_version")
    if isinstance(n, ast.Call):
        f = n.func
        nm = f.id if isinstance(f, ast.Name) else (f.attr if isinstance(f, ast.Attribute) else "")
        if nm == "int" and n.args:
            return _is_opset_expr(n.args[0], opset_names)
        if nm in ("_builder_opset", "_graph_default_opset", "_opset", "get_opset", "_ctx_opset"):
            return True
        if nm == "getattr" and len(n.args) >= 2 and isinstance(n.args[1], ast.Constant) and n.args[1].value in ("opset", "opset_version"):
            return True
    if isinstance(n, ast.BoolOp) and isinstance(n.op, ast.Or):
        return _is_opset_expr(n.values[0], opset_names) and all(isinstance(v, ast.Constant) for v in n.values[1:])
    return False


class FnCtx:
    def __init__(self, fn: ast.AST):
        self.fn = fn
        self.parent = {}
        for p in ast.walk(fn):
            for ch in ast.iter_child_nodes(p):
                self.parent[ch] = p
        self.assigns = {}
        for n in ast.walk(fn):
            if isinstance(n, ast.Assign) and len(n.targets) == 1 and isinstance(n.targets[0], ast.Name):
                self.assigns.setdefault(n.targets[0].id, []).append(n.value)
            elif isinstance(n, ast.AnnAssign) and isinstance(n.target, ast.Name) and n.value is not None:
                self.assigns.setdefault(n.target.id, []).append(n.value)
            elif isinstance(n, (ast.AugAssign,)) and isinstance(n.target, ast.Name):
                self.assigns.setdefault(n.target.id, []).extend([None, None])
            elif isinstance(n, (ast.For, ast.comprehension)):
                for t in ast.walk(n.target):
                    if isinstance(t, ast.Name):
                        self.assigns.setdefault(t.id, []).extend([None, None])
        self.opset_names = {k for k, vs in self.assigns.items() if len(vs) >= 1 and all(v is not None and _is_opset_expr(v, set()) for v in vs)}
        self.atoms = {}

    def atom(self, node):
        key = ast.unparse(node)
        if key not in self.atoms:
            self.atoms[key] = z3.Bool(f"atom[{key[:60]}]#{len(self.atoms)}")
        return self.atoms[key]

    def as_int(self, n):
        if isinstance(n, ast.Constant) and isinstance(n.value, int) and not isinstance(n.value, bool):
            return z3.IntVal(n.value)
        if _is_opset_expr(n, self.opset_names):
            return OPSET
        return None

    def cond(self, n, depth=0):
        """z3 Bool for a condition expression (over-approximating: unknown parts are free atoms)"""
        if isinstance(n, ast.BoolOp):
            parts = [self.cond(v, depth) for v in n.values]
            return z3.And(parts) if isinstance(n.op, ast.And) else z3.Or(parts)
        if isinstance(n, ast.UnaryOp) and isinstance(n.op, ast.Not):
            return z3.Not(self.cond(n.operand, depth))
        if isinstance(n, ast.Compare) and len(n.ops) == 1:
            a, b = self.as_int(n.left), self.as_int(n.comparators[0])
            if a is not None and b is not None:
                op = n.ops[0]
                table = {ast.Lt: a < b, ast.LtE: a <= b, ast.Gt: a > b, ast.GtE: a >= b, ast.Eq: a == b, ast.NotEq: a != b}
                if type(op) in table:
                    return table[type(op)]
        if isinstance(n, ast.Name) and depth < 6:
            vs = self.assigns.get(n.id, [])
            if len(vs) == 1 and vs[0] is not None:
                return self.cond(vs[0], depth + 1)
        if isinstance(n, ast.Constant) and isinstance(n.value, bool):
            return z3.BoolVal(n.value)
        return self.atom(n)

    @staticmethod
    def _always_exits(block) -> bool:
        if not block:
            return False
        last = block[-1]
        if isinstance(last, (ast.Return, ast.Raise, ast.Continue, ast.Break)):
            return True
        if isinstance(last, ast.If):
            return FnCtx._always_exits(last.body) and FnCtx._always_exits(last.orelse)
        return False

    def dominators(self, site):
        conds = []
        child = site
        node = self.parent.get(site)
        while node is not None and child is not self.fn:
            if isinstance(node, ast.If):
                if child in node.body:
                    conds.append(self.cond(node.test))
                elif child in node.orelse:
                    conds.append(z3.Not(self.cond(node.test)))
            elif isinstance(node, ast.IfExp):
                if child is node.body:
                    conds.append(self.cond(node.test))
                elif child is node.orelse:
                    conds.append(z3.Not(self.cond(node.test)))
            elif isinstance(node, ast.BoolOp):
                i = node.values.index(child) if child in node.values else -1
                for v in node.values[:max(i, 0)]:
                    conds.append(self.cond(v) if isinstance(node.op, ast.And) else z3.Not(self.cond(v)))
            # earlier siblings that always leave the block when their condition holds
            for field in ("body", "orelse", "finalbody"):
                block = getattr(node, field, None)
                if isinstance(block, list) and child in block:
                    for st in block[: block.index(child)]:
                        if isinstance(st, ast.If) and not st.orelse and self._always_exits(st.body):
                            conds.append(z3.Not(self.cond(st.test)))
                        if isinstance(st, ast.If) and st.orelse and self._always_exits(st.body) and not self._always_exits(st.orelse):
                            conds.append(z3.Not(self.cond(st.test)))
                        if isinstance(st, ast.If) and st.orelse and self._always_exits(st.orelse) and not self._always_exits(st.body):
                            conds.append(self.cond(st.test))
            child = node
            node = self.parent.get(node)
        return conds


def emission_sites(tree: ast.AST, ops: dict):
    """(function node, call node, op name) for every syntactic emission of one of `ops`"""
    out = []
    funcs = [n for n in ast.walk(tree) if isinstance(n, (ast.FunctionDef, ast.AsyncFunctionDef))]
    owner = {}
    for f in funcs:
        for n in ast.walk(f):
            if n is not f:
                cur = owner.get(n)
                if cur is None or (f.lineno >= cur.lineno and (f.end_lineno or 0) <= (cur.end_lineno or 0)):
                    owner[n] = f
    for n in ast.walk(tree):
        if not isinstance(n, ast.Call):
            continue
        op = None
        f = n.func
        if isinstance(f, ast.Attribute) and f.attr in ops and not (isinstance(f.value, ast.Name) and f.value.id in ("jnp", "np", "jax", "lax", "nnx", "nn")):
            op = f.attr
        else:
            for a in list(n.args) + [k.value for k in n.keywords]:
                if isinstance(a, ast.Constant) and a.value in ops:
                    fn_name = f.id if isinstance(f, ast.Name) else (f.attr if isinstance(f, ast.Attribute) else "")
                    if fn_name in ("Node", "_builder_op", "make_node", "add_node", "op"):
                        op = a.value
        if op is not None and n in owner:
            out.append((owner[n], n, op))
    return out


def check_site(fn, call, since: int):
    ctx = FnCtx(fn)
    doms = ctx.dominators(call)
    s = z3.Solver()
    s.set("timeout", 10000)
    for d in doms:
        s.add(d)
    s.add(z3.Not(OPSET >= since))
    s.add(OPSET >= 1)
    r = s.check()
    if r == z3.unsat:
        return "discharged", None, doms
    if r == z3.sat:
        return "refuted", s.model().eval(OPSET, model_completion=True).as_long(), doms
    return "unknown", None, doms
