"""Path exploration core: decisions, path condition, obligations, heap."""
from __future__ import annotations

import z3

from .vals import *  # noqa
from .source import ToolError


class Halt(Exception):
    """Path ends silently (assume False / end of a loop-body path)."""


class OutOfSubset(Exception):
    """The code left the supported subset: function is UNDECIDED, never a violation."""


class PyRaise(Exception):
    def __init__(self, cls: str, note: str = ""):
        self.cls, self.note = cls, note


class ReturnSig(Exception):
    def __init__(self, value):
        self.value = value


class BreakSig(Exception):
    pass


class ContinueSig(Exception):
    pass


# exception class table (child -> parent)
EXC_PARENT = {
    "BaseException": None,
    "Exception": "BaseException",
    "GeneratorExit": "BaseException",
    "KeyboardInterrupt": "BaseException",
    "ValueError": "Exception",
    "TypeError": "Exception",
    "KeyError": "LookupError",
    "IndexError": "LookupError",
    "LookupError": "Exception",
    "AttributeError": "Exception",
    "RuntimeError": "Exception",
    "NotImplementedError": "RuntimeError",
    "OSError": "Exception",
    "StopIteration": "Exception",
    "AssertionError": "Exception",
    "ZeroDivisionError": "ArithmeticError",
    "OverflowError": "ArithmeticError",
    "ArithmeticError": "Exception",
    "ImportError": "Exception",
    "AnyException": "Exception",  # an arbitrary, unknown subclass of Exception
}


def exc_is(cls: str, handler: str) -> bool:
    c = cls
    while c is not None:
        if c == handler:
            return True
        c = EXC_PARENT.get(c, "Exception" if c not in EXC_PARENT else None)
    return False


def has_quantifier(f) -> bool:
    seen = set()
    stack = [f]
    while stack:
        t = stack.pop()
        i = t.get_id()
        if i in seen:
            continue
        seen.add(i)
        if z3.is_quantifier(t):
            return True
        if z3.is_app(t):
            stack.extend(t.children())
    return False


class Obl:
    __slots__ = ("oid", "kind", "pc", "formula", "note", "path", "meta")

    def __init__(self, oid, kind, pc, formula, note="", path=0, meta=None):
        self.oid, self.kind, self.pc, self.formula, self.note, self.path, self.meta = oid, kind, pc, formula, note, path, meta or {}


class Env:
    def __init__(self, parent=None, module=None):
        self.vars: dict[str, V] = {}
        self.parent = parent
        self.module = module if module is not None else (parent.module if parent else None)
        self.nonlocals: set = set()

    def lookup(self, name):
        e = self
        while e is not None:
            if name in e.vars:
                return e.vars[name]
            e = e.parent
        return None

    def set(self, name, v):
        if name in self.nonlocals:
            e = self.parent
            while e is not None:
                if name in e.vars:
                    e.vars[name] = v
                    return
                e = e.parent
        self.vars[name] = v


FULL_FEAS_MS = int(__import__("os").environ.get("PYVC_FULL_FEAS_MS", "150"))
TRACE_BRANCHES = bool(__import__("os").environ.get("PYVC_TRACE_BRANCHES"))


class PathCore:
    """State of one symbolic path + the worklist of alternative prefixes."""

    FEAS_TIMEOUT_MS = 1500
    MAX_PATHS = 4000

    def __init__(self, world):
        self.world = world
        self.obligations: list[Obl] = []
        self.paths_done = 0
        self.path_summaries: list = []
        self.pending: list[list[bool]] = []
        self.assumptions_used: set[str] = set()
        self.solver_calls = 0

    # ---- path lifecycle
    def begin_path(self, prefix):
        self.prefix = list(prefix)
        self.pos = 0
        self.decisions: list[bool] = []
        self.pc: list = []
        self.names = {}
        self.heap: dict = {}
        self.ghost: dict = {}
        self.events: list = []
        self.feas = z3.Solver()
        self.feas.set("timeout", self.FEAS_TIMEOUT_MS)
        # feasibility is decided WITHOUT the quantified axioms: dropping facts
        # only over-approximates the set of feasible paths (sound), and keeps
        # each check in the quantifier-free fragment (fast, no timeouts).
        for ax in self.world.axioms():
            if not z3.is_quantifier(ax):
                self.feas.add(ax)
        self.path_no = self.paths_done

    def in_new_territory(self) -> bool:
        return self.pos >= len(self.prefix)

    def fresh_name(self, base: str) -> str:
        n = self.names.get(base, 0)
        self.names[base] = n + 1
        return f"{base}#{n}" if n else base

    def fresh(self, base: str, t: Ty) -> V:
        nm = self.fresh_name(base)
        return unpack(t, fresh_terms(t, nm))

    def fresh_const(self, base: str, sort):
        return z3.Const(self.fresh_name(base), sort)

    def new_object(self, sort: str, base: str):
        """a freshly allocated heap object: non-null and distinct from every object
        allocated earlier on this path"""
        t = self.fresh_const(base, ref_sort(sort))
        prev = self.ghost.setdefault("allocated", {}).setdefault(sort, [])
        self.assume(t != null_of(sort))
        for p in prev:
            self.assume(t != p)
        prev.append(t)
        if self.track_alloc:
            self.assume(self.born(sort)(t) == self.tick())
        return VRef(sort, t)

    # ---- allocation time (only when the contract under verification asks for it: Contract.track_alloc)
    # born_S(o) is an immutable attribute of every object; `now` is a strictly increasing ghost clock.
    # Every reference obtained from the current state (parameter, heap cell, result of a call) was
    # allocated before now (python has no dangling or future references); a new object is born at now.
    track_alloc = False

    def born(self, sort: str):
        return self.world.fn(f"born_{sort}", ref_sort(sort), z3.IntSort())

    def now(self):
        return self.ghost.setdefault("now", z3.Int("now0"))

    def tick(self):
        old = self.now()
        n = self.fresh_const("now", z3.IntSort())
        self.assume(n > old)
        self.ghost["now"] = n
        return old

    def assume_allocated(self, v):
        if not self.track_alloc or getattr(self, "pure_mode", 0):
            return
        if isinstance(v, VRef):
            self.assume(z3.Or(v.term == null_of(v.sort), self.born(v.sort)(v.term) < self.now()))
        elif isinstance(v, VOpt):
            if isinstance(v.val, VRef):
                self.assume(z3.Or(v.isnone, v.val.term == null_of(v.val.sort), self.born(v.val.sort)(v.val.term) < self.now()))
        elif isinstance(v, VTuple):
            for x in v.items:
                self.assume_allocated(x)

    def assume_closed(self, sort: str, field: str):
        """no cell of the field holds a reference to an object that does not exist yet"""
        if not self.track_alloc:
            return
        t = self.world.field_type(sort, field)
        arrs = self.heap[(sort, field)]
        x = z3.Const("x!cl", ref_sort(sort))
        inner = t.t if isinstance(t, Opt) else t
        if isinstance(inner, Ref) and arrs[0].sort().range() == ref_sort(inner.sort):
            r = z3.Select(arrs[0], x)
            self.pc.append(z3.ForAll([x], z3.Or(r == null_of(inner.sort), self.born(inner.sort)(r) < self.now()), patterns=[r]))
        elif isinstance(inner, Seq):
            e = inner.t.t if isinstance(inner.t, Opt) else inner.t
            if isinstance(e, Ref) and isinstance(arrs[0].sort().range(), z3.ArraySortRef) and arrs[0].sort().range().range() == ref_sort(e.sort):
                i = z3.Int("i!cl")
                r = z3.Select(z3.Select(arrs[0], x), i)
                self.pc.append(z3.ForAll([x, i], z3.Or(r == null_of(e.sort), self.born(e.sort)(r) < self.now()), patterns=[r]))

    def assume(self, f):
        if isinstance(f, bool):
            f = z3.BoolVal(f)
        f = z3.simplify(f)
        if z3.is_true(f):
            return
        if z3.is_false(f):
            raise Halt()
        self.pc.append(f)
        stack = [f]
        while stack:  # quantifier-free conjuncts also feed the feasibility solver
            g = stack.pop()
            if z3.is_and(g):
                stack.extend(g.children())
            elif not has_quantifier(g):
                self.feas.add(g)

    def feasible(self, cond) -> bool:
        self.solver_calls += 1
        self.feas.push()
        self.feas.add(cond)
        r = self.feas.check()
        self.feas.pop()
        return r != z3.unsat

    def feasible_full(self, cond) -> bool:
        """False only if path condition + cond is unsat (quantified facts included, E-matching only).
        z3 can overrun its own timeout by minutes on these formulas (observed in smt::model_checker and
        smt::model_generator), so the check runs in a forked child that is killed at the deadline."""
        import os
        import select
        import signal
        self.solver_calls += 1
        s = z3.Solver()
        s.set("smt.mbqi", False)
        for ax in self.world.axioms():
            s.add(ax)
        for p in self.pc:
            s.add(p)
        s.add(cond)
        rd, wr = os.pipe()
        pid = os.fork()
        if pid == 0:
            try:
                try:        # die with the parent (a killed worker must not leave a spinning solver behind), and in any case soon
                    import ctypes
                    ctypes.CDLL("libc.so.6", use_errno=True).prctl(1, signal.SIGKILL, 0, 0, 0)
                except Exception:
                    pass
                signal.alarm(max(2, int(FULL_FEAS_MS / 1000.0) + 2))
                os.close(rd)
                os.write(wr, b"u" if s.check() == z3.unsat else b"s")
            finally:
                os._exit(0)
        os.close(wr)
        try:
            ready, _, _ = select.select([rd], [], [], FULL_FEAS_MS / 1000.0)
            out = os.read(rd, 1) if ready else b""
        finally:
            os.close(rd)
            try:
                os.kill(pid, signal.SIGKILL)
            except ProcessLookupError:
                pass
            os.waitpid(pid, 0)
        return out != b"u"

    def branch(self, cond) -> bool:
        if isinstance(cond, bool):
            return cond
        cond = z3.simplify(cond)
        if z3.is_true(cond):
            return True
        if z3.is_false(cond):
            return False
        if self.pos < len(self.prefix):
            d = self.prefix[self.pos]
        else:
            t_ok = self.feasible(cond)
            f_ok = self.feasible(z3.Not(cond))
            if t_ok and f_ok and getattr(self, "deep_feasibility", False):
                # both sides pass the quantifier-free test: ask once more with the whole path condition (quantified
                # well-formedness facts included), short budget; only `unsat` prunes (sound: an infeasible side has no executions)
                t_ok = self.feasible_full(cond)
                f_ok = self.feasible_full(z3.Not(cond)) if t_ok else True
            if t_ok and f_ok:
                self.pending.append(self.decisions + [False])
                d = True
            elif t_ok:
                d = True
            elif f_ok:
                d = False
            else:
                raise Halt()
        self.pos += 1
        self.decisions.append(d)
        if TRACE_BRANCHES:
            self.branch_log = getattr(self, "branch_log", [])[:len(self.decisions) - 1] + [(getattr(self, "cur_line", None), d, str(cond)[:70].replace("\n", " "))]
        c = cond if d else z3.Not(cond)
        self.pc.append(c)
        self.feas.add(c)
        return d

    def choose(self, n: int, label="choice") -> int:
        """Non-deterministic choice among n alternatives (forks)."""
        for i in range(n - 1):
            b = z3.Bool(self.fresh_name(f"{label}_{i}"))
            if self.branch(b):
                return i
        return n - 1

    def oblige(self, oid: str, kind: str, formula, note="", meta=None):
        if not self.in_new_territory():
            return
        if isinstance(formula, bool):
            formula = z3.BoolVal(formula)
        f = z3.simplify(formula)
        meta = dict(meta or {})
        meta.setdefault("params", getattr(self, "cur_params", None))
        self.obligations.append(Obl(oid, kind, list(self.pc), f, note, self.path_no, meta))

    # ---- heap: (sort, field) -> list of arrays (flattened components)
    def heap_arrays(self, sort: str, field: str):
        key = (sort, field)
        if key not in self.heap:
            t = self.world.field_type(sort, field)
            self.heap[key] = [z3.Const(f"H0.{sort}.{field}" + (f"!{i}" if i else ""), z3.ArraySort(ref_sort(sort), s)) for i, s in enumerate(flat_sorts(t))]
            if self.track_alloc:
                # the initial heap is closed with respect to the clock at function entry
                cur = self.ghost.get("now")
                self.ghost["now"] = z3.Int("now0")
                self.assume_closed(sort, field)
                if cur is not None:
                    self.ghost["now"] = cur
        return self.heap[key]

    def read_field(self, obj: VRef, field: str) -> V:
        t = self.world.field_type(obj.sort, field)
        arrs = self.heap_arrays(obj.sort, field)
        v = unpack(t, [z3.Select(a, obj.term) for a in arrs])
        self.assume_enum_members(v)
        self.assume_allocated(v)
        if isinstance(v, VSeq):
            self.assume(v.length >= 0)   # len() of a python sequence
        elif isinstance(v, VOpt) and isinstance(v.val, VSeq):
            self.assume(z3.Or(v.isnone, v.val.length >= 0))
        return v

    def assume_enum_members(self, v):
        """an enum-typed value is one of the enum's members (type invariant)"""
        if isinstance(v, VEnum):
            codes = sorted(set(self.world.enums[v.enum]["members"].values()))
            f = z3.Or([v.term == c for c in codes])
            self.pc.append(f)
            self.feas.add(f)
        elif isinstance(v, VOpt):
            if isinstance(v.val, VEnum):
                codes = sorted(set(self.world.enums[v.val.enum]["members"].values()))
                f = z3.Or([v.isnone] + [v.val.term == c for c in codes])
                self.pc.append(f)
                self.feas.add(f)
        elif isinstance(v, VTuple):
            for x in v.items:
                self.assume_enum_members(x)

    def write_field(self, obj: VRef, field: str, v: V):
        t = self.world.field_type(obj.sort, field)
        arrs = self.heap_arrays(obj.sort, field)
        terms = pack(v, t)
        self.heap[(obj.sort, field)] = [z3.Store(a, obj.term, x) for a, x in zip(arrs, terms)]

    def havoc_field(self, sort: str, field: str):
        t = self.world.field_type(sort, field)
        nm = self.fresh_name(f"H.{sort}.{field}")
        self.heap[(sort, field)] = [z3.Const(nm + (f"!{i}" if i else ""), z3.ArraySort(ref_sort(sort), s)) for i, s in enumerate(flat_sorts(t))]
        self.assume_closed(sort, field)

    def snapshot_heap(self):
        return {k: list(v) for k, v in self.heap.items()}
