"""C12 — layout flags: index validation and the two boundary permutations."""
from __future__ import annotations

import z3

from pyvc.vals import *  # noqa
from pyvc.world import Contract, Ctx
from pyvc.stmts import LoopSpec

M = "jax2onnx.converter.conversion_api"
IDX = Dyn("int", "bool", "str", "none")  # what a user may put into the index list


def register(w):
    # ---- _validate_layout_indices ------------------------------------------------
    def inv(lc):
        seq, i = lc.seq, lc.idx
        tag, ival = seq.arrs[0], seq.arrs[1]
        norm, seen = lc["normalized"], lc["seen"]
        ub = lc["upper_bound"].term
        k, j, x = z3.Ints("k j x")
        return [
            ("len", norm.length == i),
            ("prefix_is_ints", z3.ForAll([k], z3.Implies(z3.And(0 <= k, k < i), z3.And(z3.Select(tag, k) == 0, z3.Select(norm.arrs[0], k) == z3.Select(ival, k), 0 <= z3.Select(ival, k), z3.Select(ival, k) < ub)))),
            ("seen_is_prefix", z3.ForAll([x], z3.Select(seen.arr, x) == z3.Exists([k], z3.And(0 <= k, k < i, z3.Select(norm.arrs[0], k) == x)))),
            ("distinct", z3.ForAll([k, j], z3.Implies(z3.And(0 <= k, k < j, j < i), z3.Select(norm.arrs[0], k) != z3.Select(norm.arrs[0], j)))),
        ]

    def post(c: Ctx):
        ind, r = c["indices"], c.result
        if isinstance(ind, VNone):
            return z3.BoolVal(isinstance(r, VTuple) and len(r.items) == 0)
        assert isinstance(r, VSeq), r
        tag, ival = ind.arrs[0], ind.arrs[1]
        ub = c["upper_bound"].term
        k, j = z3.Ints("k j")
        rng = z3.And(0 <= k, k < r.length)
        return z3.And(
            r.length == ind.length,
            z3.ForAll([k], z3.Implies(rng, z3.And(z3.Select(tag, k) == 0, z3.Select(r.arrs[0], k) == z3.Select(ival, k), 0 <= z3.Select(r.arrs[0], k), z3.Select(r.arrs[0], k) < ub))),
            z3.ForAll([k, j], z3.Implies(z3.And(0 <= k, k < j, j < r.length), z3.Select(r.arrs[0], k) != z3.Select(r.arrs[0], j))),
        )

    def replay(model, args):
        import importlib
        mod = importlib.import_module(M)
        ind = args["indices"]
        try:
            got = mod._validate_layout_indices(ind, kind=args["kind"], upper_bound=args["upper_bound"])
        except ValueError as e:
            return False, f"raised ValueError({e})"
        except Exception as e:
            return True, f"_validate_layout_indices({ind!r}, upper_bound={args['upper_bound']}) raised {type(e).__name__}: {e} (only ValueError is allowed)"
        want_ok = ind is None or (all(isinstance(i, int) and not isinstance(i, bool) and 0 <= i < args["upper_bound"] for i in ind) and len(set(ind)) == len(ind))
        ok = (got == (tuple(ind) if ind is not None else ())) and want_ok
        return (not ok), f"_validate_layout_indices({ind!r}, upper_bound={args['upper_bound']}) returned {got!r}"

    w.add_contract(Contract(
        f"{M}:_validate_layout_indices",
        params={"indices": Opt(Seq(IDX)), "kind": Str, "upper_bound": Int},
        ensures=[("valid_distinct_in_range_same_order", post)],
        raises={"ValueError"},
        loops={0: LoopSpec(invariant=inv, label="indices")},
        ret=Seq(Int), props=["C12", "C05"], replay=replay,
    ))

    # ---- the two permutation constants are mutually inverse, NHWC->NCHW is (0,3,1,2)
    def lemma_perms(world):
        from pyvc import source as S
        import ast
        mod = S.load_module(M)
        vals = {}
        for nm in ("_NHWC_TO_NCHW_PERM", "_NCHW_TO_NHWC_PERM"):
            st = mod.toplevel.get(nm)
            if st is None:
                raise S.ToolError(f"{M}.{nm} not found")
            vals[nm] = tuple(ast.literal_eval(st.value))
        a, b = vals["_NHWC_TO_NCHW_PERM"], vals["_NCHW_TO_NHWC_PERM"]
        ok = len(a) == 4 and len(b) == 4 and sorted(a) == [0, 1, 2, 3] and all(a[b[k]] == k and b[a[k]] == k for k in range(4)) and a == (0, 3, 1, 2)
        return z3.BoolVal(ok)

    w.add_contract(Contract(f"{M}:<module>.layout_perms", kind="lemma", ensures=[("mutually_inverse_and_nhwc_to_nchw", lemma_perms)], props=["C12"]))

    # ---- bounded obligation (never counted as proved): a listed known finding (D41), kept so that it is re-derived on every run
    def bounded_complex(world, c, out):
        import time
        from pyvc.run import run_witness
        t0 = time.time()
        holds, detail = run_witness("D41", timeout=900)
        d = {"oid": f"{M}:_LayoutAdapter.bind_output#bounded:a_complex_output_listed_in_outputs_as_nchw_is_rejected_or_the_nchw_view_of_the_plain_export", "kind": "bounded",
             "status": "discharged" if holds else ("refuted" if holds is False else "unknown"), "backend": "enumerated", "time": time.time() - t0, "instances": 1, "trivial": 0,
             "bounded": "one program: lax.complex(x, 2x) on x[2,5,7,3] with outputs_as_nchw=[0]",
             "note": f"the contract of bind_output speaks about the abstract value's rank; complex outputs are carried as real tensors with a trailing pair axis, which the model of the context does not represent; {detail}"[:500]}
        if holds is False:
            d.update(args={"witness": "D41"}, replay={"reproduced": True, "detail": detail}, formula="", model=detail)
        out["obls"].append(d)
        out["paths"], out["time"] = 1, time.time() - t0
        return out
    w.add_contract(Contract(f"{M}:<bounded-complex-nchw-output>", kind="custom", custom=bounded_complex, props=["C12"], witnesses=["D41"]))
